#!/venv/bin/python
"""addvariant.py <Cnn> <benign|breaking> <clean worktree> <patch.diff> <name...>  - append a patch as a recorded variant"""
import json
import os
import sys
sys.path.insert(0, os.path.dirname(os.path.abspath(__file__)))
from patch2variant import edits_for

pid, kind, wt, patch = sys.argv[1:5]
name = ' '.join(sys.argv[5:])
p = os.path.join(os.path.dirname(os.path.dirname(os.path.abspath(__file__))), 'sa', 'variants', pid.lower() + '.json')
d = json.load(open(p))
if any(v['name'] == name for v in d['variants']):
    raise SystemExit('a variant of that name exists')
d['variants'].append({'name': name, 'kind': kind, 'edits': edits_for(wt, patch)})
json.dump(d, open(p, 'w'), indent=1, ensure_ascii=False)
print('%s: %d variants' % (p, len(d['variants'])))
