#!/usr/bin/env python3
"""Copies confirmed seeded changes from /tmp/seed-out/<id>/<k>/ (patch.diff, demo.py, meta.json, eval.txt written by
tools/seedeval.py) to /verif/seeded/<id>-<k>/ and merges the evaluation into meta.json (maintainer tool)."""
import json, os, re, shutil, sys
V = os.path.dirname(os.path.dirname(os.path.abspath(__file__)))
src = '/tmp/seed-out'
n = 0
for pid in sorted(os.listdir(src)):
    for k in sorted(os.listdir(os.path.join(src, pid))):
        d = os.path.join(src, pid, k)
        if not os.path.isfile(os.path.join(d, 'patch.diff')) or not os.path.isfile(os.path.join(d, 'eval.txt')):
            continue
        t = open(os.path.join(d, 'eval.txt')).read()
        m = re.search(r'\{.*?\n\}', t, re.S)
        if not m:
            print('no evaluation for', pid, k); continue
        ev = json.loads(m.group(0))
        if not ev.get('confirmed'):
            print('not confirmed', pid, k); continue
        first = {}
        for line in t[m.end():].splitlines():
            mm = re.match(r'(C\d\d) exit (\d) (.*)', line)
            if mm:
                first[mm.group(1)] = mm.group(3)[:400]
        dst = os.path.join(V, 'seeded', '%s-%s' % (pid, k))
        os.makedirs(dst, exist_ok=True)
        for f in ('patch.diff', 'demo.py'):
            shutil.copy(os.path.join(d, f), os.path.join(dst, f))
        meta = {}
        try:
            meta = json.load(open(os.path.join(d, 'meta.json')))
        except Exception:
            pass
        meta.setdefault('property', pid)
        meta['evaluation'] = {
            'confirmed_by_lead': True,
            'what_was_run': 'tools/seedeval.py on a scratch git worktree of /repo at HEAD: demo.py on the clean worktree (exit %s); '
                            'git apply patch.diff; py_compile of the edited files (%s); demo.py again (exit %s); the pinned pytest '
                            'command (%s passed); ./check <id> for every claimed property with VERIF_REPO=<patched worktree>; '
                            'worktree restored' % (ev.get('demo_clean_exit'), 'ok' if ev.get('compiles') else 'FAILED',
                                                   ev.get('demo_patched_exit'), ev.get('pytest_passed')),
            'files_changed': ev.get('files_changed'),
            'demo_output_tail': ev.get('demo_patched_tail'),
            'caught_by': ev.get('caught_by'),
            'failed_closed_in': ev.get('analysis_error_in'),
            'first_report': {p: first.get(p) for p in (ev.get('caught_by') or []) + (ev.get('analysis_error_in') or [])},
        }
        json.dump(meta, open(os.path.join(dst, 'meta.json'), 'w'), indent=1, ensure_ascii=False)
        n += 1
print('collected', n)
