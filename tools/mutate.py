#!/usr/bin/env python3
"""Scratch-copy mutation helper (maintainer tool, not a check).
usage: mutate.py <Cnn> <relative file under repo> <old text> <new text> [--count N]
Copies Python/ (and Patterns/, Specs/ on demand) of $VERIF_REPO(/repo) to a temp dir, applies one textual edit,
byte-compiles the edited file, runs ./check Cnn against the copy, prints the verdict lines, removes the copy."""
import os, shutil, subprocess, sys, tempfile, py_compile

def main():
    pid, relf, old, new = sys.argv[1:5]
    repo = os.environ.get('VERIF_REPO', '/repo')
    tmp = tempfile.mkdtemp(prefix='recognizers-verif-mut-')
    try:
        shutil.copytree(os.path.join(repo, 'Python'), os.path.join(tmp, 'Python'), symlinks=True,
                        ignore=shutil.ignore_patterns('__pycache__', '*.pyc'))
        for extra in ('Patterns', 'Specs'):
            if pid in ('C18', 'C19') or extra == 'Patterns' and pid == 'C18':
                shutil.copytree(os.path.join(repo, extra), os.path.join(tmp, extra))
        p = os.path.join(tmp, relf)
        s = open(p, encoding='utf-8').read()
        if old not in s:
            print('MUTATE: old text not found'); return 3
        s2 = s.replace(old, new, 1)
        open(p, 'w', encoding='utf-8').write(s2)
        if p.endswith('.py'):
            py_compile.compile(p, doraise=True, cfile=os.path.join(tmp, 'x.pyc'))
        env = dict(os.environ, VERIF_REPO=tmp)
        r = subprocess.run([os.path.join(os.path.dirname(os.path.dirname(os.path.abspath(__file__))), 'check'), pid],
                           env=env, capture_output=True, text=True)
        keep = [l for l in r.stdout.splitlines() if l.startswith(('VIOLATION', 'ANALYSIS-ERROR', '  C')) or ' rules=' in l]
        print('\n'.join(l[:300] for l in keep[:12]))
        print('exit', r.returncode)
        return 0
    finally:
        shutil.rmtree(tmp, ignore_errors=True)

sys.exit(main())
