#!/usr/bin/env python3
"""Copies behaviour-preserving refactorings from /tmp/benign-out/<id>/<k>/ (patch.diff, equiv.py, meta.json, eval.txt written by
tools/benigneval.py) to /verif/benign/<id>-<k>/ and merges the evaluation into meta.json; writes /verif/benign/INDEX.md
(maintainer tool)."""
import json, os, re, shutil
V = os.path.dirname(os.path.dirname(os.path.abspath(__file__)))
src = '/tmp/benign-out'
HIST = os.path.join(V, 'benign', 'HISTORY.json')     # false alarms the round found before the checkers were corrected
hist = json.load(open(HIST)) if os.path.exists(HIST) else {}
rows = []
for pid in sorted(os.listdir(src)):
    for k in sorted(os.listdir(os.path.join(src, pid))):
        d = os.path.join(src, pid, k)
        if not os.path.isfile(os.path.join(d, 'patch.diff')) or not os.path.isfile(os.path.join(d, 'eval.txt')):
            continue
        t = open(os.path.join(d, 'eval.txt')).read()
        try:
            ev = json.loads(t[t.index('{'):])
        except Exception:
            print('no evaluation for', pid, k)
            continue
        # the last checks-only pass on the final checkers (tools/benigneval.py --checks-only) supersedes the verdicts
        p2 = os.path.join(d, 'eval2.txt')
        if os.path.exists(p2):
            t2 = open(p2).read()
            try:
                ev2 = json.loads(t2[t2.index('{'):])
                ev['false_alarms'], ev['failed_closed'] = ev2.get('false_alarms'), ev2.get('failed_closed')
            except Exception:
                pass
        dst = os.path.join(V, 'benign', '%s-%s' % (pid, k))
        os.makedirs(dst, exist_ok=True)
        for f in ('patch.diff', 'equiv.py'):
            if os.path.exists(os.path.join(d, f)):
                shutil.copy(os.path.join(d, f), os.path.join(dst, f))
        meta = {}
        try:
            meta = json.load(open(os.path.join(d, 'meta.json')))
        except Exception:
            pass
        meta.setdefault('property', pid)
        meta['evaluation'] = {
            'what_was_run': 'tools/benigneval.py on a scratch git worktree of /repo at HEAD: equiv.py on the clean worktree and with '
                            'patch.diff applied (outputs compared byte for byte), py_compile of the edited files, the pinned pytest '
                            'command, ./check <id> for every property with VERIF_REPO=<patched worktree>; worktree restored',
            'equivalent': ev.get('equivalent'), 'compiles': ev.get('compiles'), 'pytest_passed': ev.get('pytest_passed'),
            'confirmed_benign': ev.get('confirmed_benign'),
            'false_alarms_now': ev.get('false_alarms'), 'failed_closed_now': ev.get('failed_closed'),
            'false_alarms_when_first_evaluated': hist.get('%s/%s' % (pid, k), []),
        }
        json.dump(meta, open(os.path.join(dst, 'meta.json'), 'w'), indent=1, ensure_ascii=False)
        rows.append((pid, k, meta.get('summary', '')[:160].replace('\n', ' ').replace('|', '/'), ev, hist.get('%s/%s' % (pid, k), [])))
with open(os.path.join(V, 'benign', 'INDEX.md'), 'w') as f:
    f.write('# Behaviour-preserving refactorings used to look for false alarms\n\n'
            'Each directory holds the patch, the equivalence script its author ran (clean vs patched outputs are identical) and '
            'meta.json with the evaluation.  "first" = checks that alarmed or failed closed when the change was first evaluated '
            '(each was a false alarm and was corrected in the machinery, see DESIGN.md section 6); "now" = the same on the '
            'committed checkers.\n\n| case | change | first | now |\n|---|---|---|---|\n')
    for pid, k, summ, ev, h in rows:
        now = sorted(set((ev.get('false_alarms') or []) + (ev.get('failed_closed') or [])))
        f.write('| %s-%s | %s | %s | %s |\n' % (pid, k, summ, ', '.join(h) or 'silent', ', '.join(now) or 'silent'))
print('collected', len(rows))
