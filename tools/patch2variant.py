#!/venv/bin/python
"""patch2variant.py <clean worktree of /repo> <patch.diff> -> JSON list of variant edits on stdout

Turns a git patch into the {"file","old","new"} edits sa/variants.py applies: one edit per changed file, covering the lines from
the first to the last changed one, widened by context lines until `old` occurs exactly once in the file.  The worktree is only
read (the patch is applied to in-memory copies through `git apply` on a temporary index-free copy of the touched files).
"""
import difflib
import json
import os
import shutil
import subprocess
import sys
import tempfile


def edits_for(worktree, patch):
    files = [l[6:].strip() for l in open(patch, encoding='utf-8', errors='replace') if l.startswith('+++ b/')]
    tmp = tempfile.mkdtemp(prefix='p2v-')
    try:
        for f in files:
            os.makedirs(os.path.dirname(os.path.join(tmp, f)), exist_ok=True)
            if os.path.exists(os.path.join(worktree, f)):
                shutil.copy(os.path.join(worktree, f), os.path.join(tmp, f))
        r = subprocess.run(['git', 'apply', '--unsafe-paths', '--directory=' + tmp, os.path.abspath(patch)], cwd='/',
                           capture_output=True, text=True)
        if r.returncode != 0:
            r = subprocess.run(['patch', '-p1', '-s', '-i', os.path.abspath(patch)], cwd=tmp, capture_output=True, text=True)
            if r.returncode != 0:
                raise SystemExit('patch does not apply: ' + r.stdout + r.stderr)
        out = []
        for f in files:
            a = open(os.path.join(worktree, f), encoding='utf-8', newline='').read().replace('\r\n', '\n')
            b = open(os.path.join(tmp, f), encoding='utf-8', newline='').read().replace('\r\n', '\n')
            if a == b:
                continue
            al, bl = a.splitlines(True), b.splitlines(True)
            ops = [o for o in difflib.SequenceMatcher(None, al, bl, autojunk=False).get_opcodes() if o[0] != 'equal']
            i1, i2, j1, j2 = ops[0][1], ops[-1][2], ops[0][3], ops[-1][4]
            while True:
                old = ''.join(al[i1:i2])
                if old and a.count(old) == 1:
                    break
                if i1 == 0 and i2 == len(al):
                    break
                if i1 > 0:
                    i1 -= 1
                    j1 -= 1
                if i2 < len(al):
                    i2 += 1
                    j2 += 1
            out.append({'file': f, 'old': ''.join(al[i1:i2]), 'new': ''.join(bl[j1:j2])})
        return out
    finally:
        shutil.rmtree(tmp, ignore_errors=True)


if __name__ == '__main__':
    json.dump(edits_for(sys.argv[1], sys.argv[2]), sys.stdout, indent=1, ensure_ascii=False)
