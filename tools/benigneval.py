#!/usr/bin/env python3
"""Confirm a behaviour-preserving change and run the checks against it (maintainer tool, not a check).

usage: benigneval.py <worktree> <dir with patch.diff equiv.py meta.json> [--checks C01,C05|all]

1. worktree clean -> equiv.py prints a digest; 2. git apply patch -> byte-compile, equiv.py again: the output must be
identical; the pinned pytest command must still give 204 passed; 3. ./check for the chosen properties with
VERIF_REPO=<worktree>: every exit 1 is a FALSE ALARM of that check, every exit 2 a fail-closed; 4. restore."""
import json, os, py_compile, re, subprocess, sys
VERIF = os.path.dirname(os.path.dirname(os.path.abspath(__file__)))
ALL = ['C%02d' % i for i in range(1, 21)]


def sh(cmd, cwd=None, env=None, timeout=3600):
    r = subprocess.run(cmd, cwd=cwd, env=env, capture_output=True, text=True, timeout=timeout)
    return r.returncode, r.stdout + r.stderr


def _norm(t):
    """equivalence scripts may print how long they ran; that line is not part of the comparison"""
    return '\n'.join(l for l in t.splitlines() if not re.match(r'\s*(elapsed|wall|took|time)\b', l))


def main():
    wt, case = sys.argv[1], sys.argv[2]
    checks = ALL
    if '--checks' in sys.argv:
        v = sys.argv[sys.argv.index('--checks') + 1]
        checks = ALL if v == 'all' else v.split(',')
    rep = {}
    rc, out = sh(['git', '-C', wt, 'status', '--porcelain'])
    if out.strip():
        print('worktree not clean:\n' + out)
        return 2
    eq = os.path.join(case, 'equiv.py')
    checks_only = '--checks-only' in sys.argv    # equivalence and the pinned suite were confirmed in an earlier run of this tool
    prior = {}
    if checks_only:
        try:
            t = open(os.path.join(case, 'eval.txt')).read()
            prior = json.loads(t[t.index('{'):])
        except Exception:
            prior = {}
        if not prior.get('confirmed_benign'):
            checks_only = False
    rc0, out0 = (0, '') if checks_only else sh(['/venv/bin/python', '-W', 'ignore', eq])
    rc, out = sh(['git', '-C', wt, 'apply', '--whitespace=nowarn', os.path.join(case, 'patch.diff')])
    if rc != 0:
        print('patch does not apply: ' + out)
        return 2
    try:
        rc, files = sh(['git', '-C', wt, 'diff', '--name-only'])
        files = [f for f in files.split() if f]
        ok = True
        for f in files:
            if f.endswith('.py'):
                try:
                    py_compile.compile(os.path.join(wt, f), doraise=True, cfile='/tmp/_benigneval.pyc')
                except Exception as e:
                    ok = False
        rc1, out1 = (0, '') if checks_only else sh(['/venv/bin/python', '-W', 'ignore', eq])
        rct, outt = (0, '204 passed') if checks_only else sh(['/venv/bin/python', '-m', 'pytest', '-q', '-p', 'no:cacheprovider', '--timeout=900',
                        '--continue-on-collection-errors'], cwd=wt)
        m = re.search(r'(\d+) passed', outt)
        rep.update(files_changed=files, compiles=ok, equiv_clean_exit=rc0, equiv_patched_exit=rc1,
                   equivalent=(rc0 == 0 and rc1 == 0 and _norm(out0) == _norm(out1)), pytest_passed=int(m.group(1)) if m else None)
        if checks_only:
            rep['equivalence_confirmed_in_earlier_run'] = True
        env = dict(os.environ, VERIF_REPO=wt, VERIF_VARIANT='1')
        verdicts = {}
        for pid in checks:
            rc, out = sh([os.path.join(VERIF, 'check'), pid], cwd=VERIF, env=env)
            det = [l.strip()[:300] for l in out.splitlines() if re.match(r'\s+C\d\d\.', l) or l.startswith('ANALYSIS-ERROR')]
            verdicts[pid] = {'exit': rc, 'first': det[:2]}
        rep['false_alarms'] = sorted(p for p, v in verdicts.items() if v['exit'] == 1)
        rep['failed_closed'] = sorted(p for p, v in verdicts.items() if v['exit'] == 2)
        rep['detail'] = {p: verdicts[p]['first'] for p in rep['false_alarms'] + rep['failed_closed']}
    finally:
        sh(['git', '-C', wt, 'checkout', '--', '.'])
        sh(['git', '-C', wt, 'clean', '-fdq'])
    rep['confirmed_benign'] = bool(rep.get('equivalent') and rep.get('compiles') and rep.get('pytest_passed') == 204)
    print(json.dumps(rep, indent=1, ensure_ascii=False))
    return 0


if __name__ == '__main__':
    sys.exit(main())
