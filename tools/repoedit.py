#!/usr/bin/env python3
"""repoedit.py <file> <old> <new> : exact one-occurrence replacement preserving the file's line endings"""
import sys
p, old, new = sys.argv[1:4]
s = open(p, encoding='utf-8', newline='').read()
if '\r\n' in s:
    old = old.replace('\r\n', '\n').replace('\n', '\r\n'); new = new.replace('\r\n', '\n').replace('\n', '\r\n')
n = s.count(old)
if n != 1:
    print('expected exactly one occurrence, found %d' % n); sys.exit(1)
open(p, 'w', encoding='utf-8', newline='').write(s.replace(old, new))
print('edited', p)
