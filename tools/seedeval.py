#!/usr/bin/env python3
"""Confirm a seeded breaking change and run the checks against it (maintainer tool, not a check).

usage: seedeval.py <worktree> <dir with patch.diff demo.py meta.json> [--checks C01,C05|all] [--keep-as NAME]

1. worktree clean -> demo must pass; 2. git apply patch -> byte-compile edited files, demo must fail,
pinned pytest command must still give 204 passed; 3. run ./check for the chosen properties with
VERIF_REPO=<worktree>; 4. restore the worktree; 5. with --keep-as copy the case to /verif/seeded/NAME/ with the
verdicts merged into meta.json."""
import json
import os
import py_compile
import re
import shutil
import subprocess
import sys

VERIF = os.path.dirname(os.path.dirname(os.path.abspath(__file__)))
ALL = ['C%02d' % i for i in range(1, 21)]


def sh(cmd, cwd=None, env=None, timeout=1800):
    r = subprocess.run(cmd, cwd=cwd, env=env, capture_output=True, text=True, timeout=timeout)
    return r.returncode, r.stdout + r.stderr


def main():
    wt, case = sys.argv[1], sys.argv[2]
    checks = ALL
    keep = None
    if '--checks' in sys.argv:
        v = sys.argv[sys.argv.index('--checks') + 1]
        checks = ALL if v == 'all' else v.split(',')
    if '--keep-as' in sys.argv:
        keep = sys.argv[sys.argv.index('--keep-as') + 1]
    patch = os.path.join(case, 'patch.diff')
    demo = os.path.join(case, 'demo.py')
    report = {}
    rc, out = sh(['git', '-C', wt, 'status', '--porcelain'])
    if out.strip():
        print('worktree not clean:\n' + out)
        return 2
    # --checks-only: demo / pytest confirmation is taken from the last full run of this tool (eval.txt next to the case)
    prior = None
    if '--checks-only' in sys.argv:
        try:
            t = open(os.path.join(case, 'eval.txt')).read()
            prior = json.loads(re.search(r'\{.*?\n\}', t, re.S).group(0))
            if not prior.get('confirmed'):
                prior = None
        except Exception:
            prior = None
    if prior is not None:
        rc0 = prior.get('demo_clean_exit')
    else:
        rc0, out0 = sh(['/venv/bin/python', '-W', 'ignore', demo], timeout=600)
    report['demo_clean_exit'] = rc0
    rc, out = sh(['git', '-C', wt, 'apply', '--whitespace=nowarn', patch])
    if rc != 0:
        print('patch does not apply: ' + out)
        return 2
    try:
        rc, files = sh(['git', '-C', wt, 'diff', '--name-only'])
        files = [f for f in files.split() if f]
        report['files_changed'] = files
        ok_compile = True
        for f in files:
            if f.endswith('.py'):
                try:
                    py_compile.compile(os.path.join(wt, f), doraise=True, cfile='/tmp/_seedeval.pyc')
                except Exception as e:
                    ok_compile = False
                    print('does not compile: %s %s' % (f, e))
        report['compiles'] = ok_compile
        if prior is not None:
            report['demo_patched_exit'] = prior.get('demo_patched_exit')
            report['demo_patched_tail'] = prior.get('demo_patched_tail')
            report['pytest_passed'] = prior.get('pytest_passed')
            report['confirmation_from_earlier_run'] = True
        else:
            rc1, out1 = sh(['/venv/bin/python', '-W', 'ignore', demo], timeout=600)
            report['demo_patched_exit'] = rc1
            report['demo_patched_tail'] = out1.strip().splitlines()[-6:]
            rct, outt = sh(['/venv/bin/python', '-m', 'pytest', '-q', '-p', 'no:cacheprovider', '--timeout=900',
                            '--continue-on-collection-errors'], cwd=wt, timeout=1800)
            m = re.search(r'(\d+) passed', outt)
            report['pytest_passed'] = int(m.group(1)) if m else None
        verdicts = {}
        env = dict(os.environ, VERIF_REPO=wt, VERIF_VARIANT='1')
        for pid in checks:
            rc, out = sh([os.path.join(VERIF, 'check'), pid], cwd=VERIF, env=env, timeout=900)
            lines = [l for l in out.splitlines() if l.startswith('VIOLATION') or l.startswith('ANALYSIS-ERROR')]
            det = [l.strip()[:260] for l in out.splitlines() if re.match(r'\s+C\d\d\.', l)]
            verdicts[pid] = {'exit': rc, 'violations': len([l for l in lines if l.startswith('VIOLATION')]), 'first': det[:3],
                             'analysis_error': [l[:300] for l in lines if l.startswith('ANALYSIS')][:1]}
        report['checks'] = verdicts
    finally:
        sh(['git', '-C', wt, 'checkout', '--', '.'])
        sh(['git', '-C', wt, 'clean', '-fdq'])
    confirmed = report['demo_clean_exit'] == 0 and report.get('demo_patched_exit', 0) != 0 and report.get('compiles') \
        and report.get('pytest_passed') == 204
    report['confirmed'] = bool(confirmed)
    caught = sorted(p for p, v in report.get('checks', {}).items() if v['exit'] == 1)
    broken = sorted(p for p, v in report.get('checks', {}).items() if v['exit'] == 2)
    report['caught_by'] = caught
    report['analysis_error_in'] = broken
    print(json.dumps({k: v for k, v in report.items() if k != 'checks'}, indent=1, ensure_ascii=False))
    for p in caught + broken:
        v = report['checks'][p]
        print(p, 'exit', v['exit'], (v['first'] or v['analysis_error'] or [''])[0][:240])
    if keep and confirmed:
        dst = os.path.join(VERIF, 'seeded', keep)
        os.makedirs(dst, exist_ok=True)
        for f in ('patch.diff', 'demo.py'):
            shutil.copy(os.path.join(case, f), os.path.join(dst, f))
        meta = {}
        try:
            meta = json.load(open(os.path.join(case, 'meta.json')))
        except Exception:
            pass
        meta['evaluation'] = {
            'confirmed_by_lead': True,
            'what_was_run': 'tools/seedeval.py: demo.py on the clean worktree (exit %s), git apply patch.diff, py_compile of the '
                            'edited files, demo.py again (exit %s), pinned pytest command (%s passed), ./check <id> for %s '
                            'with VERIF_REPO=<patched worktree>, worktree restored' % (
                                report['demo_clean_exit'], report['demo_patched_exit'], report['pytest_passed'], ','.join(checks)),
            'caught_by': caught, 'analysis_error_in': broken,
            'first_reports': {p: report['checks'][p]['first'][:2] for p in caught},
        }
        json.dump(meta, open(os.path.join(dst, 'meta.json'), 'w'), indent=1, ensure_ascii=False)
        print('kept as', dst)
    return 0


if __name__ == '__main__':
    sys.exit(main())
