#!/usr/bin/env python3
"""Prints the per-property table of DESIGN.md section 6 from seeded/*/meta.json (maintainer tool)."""
import glob, json, os
V = os.path.dirname(os.path.dirname(os.path.abspath(__file__)))
rows = {}
for d in sorted(glob.glob(os.path.join(V, 'seeded', 'C*-*'))):
    m = json.load(open(os.path.join(d, 'meta.json')))
    pid = os.path.basename(d)[:3]
    ev = m.get('evaluation', {})
    caught = ev.get('caught_by') or []
    r = rows.setdefault(pid, {'n': 0, 'own': 0, 'other': 0, 'closed': [], 'none': []})
    r['n'] += 1
    if pid in caught:
        r['own'] += 1
    elif caught:
        r['other'] += 1
    elif ev.get('failed_closed_in'):
        r['closed'].append(os.path.basename(d))
    else:
        r['none'].append(os.path.basename(d))
print('| property | seeds | reported by its own check | only by another property\'s check | not reported |')
print('|---|---|---|---|---|')
tot = own = oth = 0
for pid in sorted(rows):
    r = rows[pid]
    tot += r['n']; own += r['own']; oth += r['other']
    miss = ', '.join(r['none'] + ['%s (exit 2)' % x for x in r['closed']]) or '—'
    print('| %s | %d | %d | %d | %s |' % (pid, r['n'], r['own'], r['other'], miss))
print()
print('%d seeds; %d reported by some check (exit 1), %d by the check of the property they were seeded for.' % (tot, own + oth, own))
