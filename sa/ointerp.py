"""Whitelisting interpreter over repository ASTs with objects, closures and hooks (closed-helper tabulation).

Used where a property depends on a small resolver algorithm that touches its inputs only through comparisons of a few
integers (interval order types): the algorithm is read from /repo's AST on every run and evaluated on every configuration
of a finite grid.  No repository code is imported or executed by Python; every operation is one this module implements.
Anything outside the supported subset raises AnalysisError (the check fails closed), never a silent pass.
"""
import ast

from .core import AnalysisError


class Obj:
    __slots__ = ('cls', 'attrs')

    def __init__(self, cls=None, attrs=None):
        self.cls = cls
        self.attrs = attrs if attrs is not None else {}

    def __repr__(self):
        return '<%s %s>' % (self.cls.name if self.cls is not None and hasattr(self.cls, 'name') else self.cls, self.attrs)


class ClassRef:
    def __init__(self, cls):
        self.cls = cls


class FuncRef:
    def __init__(self, mod, fn, owner=None):
        self.mod, self.fn, self.owner = mod, fn, owner


class Bound:
    def __init__(self, obj, ref):
        self.obj, self.ref = obj, ref


class Closure:
    def __init__(self, node, env, mod, cls):
        self.node, self.env, self.mod, self.cls = node, env, mod, cls


class NTType:
    def __init__(self, name, fields):
        self.name, self.fields = name, fields


class ModRef:
    def __init__(self, name, mod=None):
        self.name, self.mod = name, mod


class Native:
    """an object supplied by the checker (a stub): attribute reads go to `table`"""

    def __init__(self, table, label='native'):
        self.table, self.label = table, label

    def __repr__(self):
        return '<%s>' % self.label


class Gen:
    """the result of calling a generator function.  The body is run EAGERLY when the function is called and the yielded values
    are kept here; iteration consumes them (a second iteration finds nothing, as in Python).  Sound as long as the consumer
    does not observe side effects of the body between two yields; a generator that never ends exhausts the step budget."""
    __slots__ = ('items',)

    def __init__(self, items):
        self.items = items

    def __repr__(self):
        return '<generator of %d>' % len(self.items)


class SetList(list):
    """a set: an insertion-ordered list without duplicates (membership by the interpreter's eq); what set(...) returns"""
    __slots__ = ()


class PyExc(Exception):
    """an exception raised by the interpreted code"""


class _Ret(Exception):
    def __init__(self, v):
        self.v = v


class _Brk(Exception):
    pass


class _Cont(Exception):
    pass


class Env:
    __slots__ = ('vars', 'up')

    def __init__(self, up=None):
        self.vars, self.up = {}, up

    def get(self, k):
        e = self
        while e is not None:
            if k in e.vars:
                return True, e.vars[k]
            e = e.up
        return False, None


_BUILTIN_NAMES = {'type', 'float', 'object', 'ord', 'chr', 'len', 'range', 'list', 'dict', 'tuple', 'set', 'sorted', 'filter', 'map', 'enumerate', 'next', 'iter', 'min',
                  'max', 'any', 'all', 'isinstance', 'str', 'int', 'bool', 'abs', 'sum', 'reversed', 'zip', 'hasattr', 'getattr',
                  'print'}
_STR_METHODS = {'strip', 'lstrip', 'rstrip', 'lower', 'upper', 'startswith', 'endswith', 'find', 'rfind', 'index', 'count',
                'split', 'join', 'replace', 'isspace', 'isdigit', 'isalpha', 'splitlines', 'format', 'rjust', 'ljust', 'zfill',
                'isascii', 'isalnum', 'islower', 'isupper', 'isnumeric', 'isdecimal', 'casefold', 'capitalize', 'title', 'swapcase',
                'rsplit', 'partition', 'rpartition', 'removeprefix', 'removesuffix'}
_LIST_METHODS = {'append', 'extend', 'insert', 'pop', 'index', 'count', 'remove', 'copy', 'clear', 'sort', 'reverse'}
_DICT_METHODS = {'get', 'items', 'keys', 'values', 'setdefault', 'update', 'pop'}


class Interp:
    def __init__(self, idx, hooks=None, budget=400000, where='ointerp'):
        self.idx = idx
        self.hooks = hooks or {}        # {'regex.finditer': callable(interp, args, kwargs), 'Qual.name': ...}
        self.budget = budget
        self.where = where
        self._defaults = {}      # id(function node) -> default values, evaluated once as Python does (shared mutable defaults!)
        self._cattrs = {}        # (class qual, name) -> class-level attribute value, evaluated once (shared class state)
        self._ystack = []        # collectors of the generator bodies being run (innermost last)

    # ---- failure
    def fail(self, node, what):
        raise AnalysisError('%s:%s: construct outside the interpreted subset: %s'
                            % (self.where, getattr(node, 'lineno', '?'), what))

    def tick(self, node):
        self.budget -= 1
        if self.budget < 0:
            self.fail(node, 'step budget exhausted (non-terminating loop?)')

    # ---- generators (run eagerly, see Gen)
    def is_generator(self, fn):
        r = getattr(fn, '_ointerp_isgen', None)      # kept on the AST node: interpreters are created per configuration
        if r is None:
            r = False
            todo = list(fn.body) if isinstance(fn, ast.FunctionDef) else []
            while todo and not r:
                n = todo.pop()
                if isinstance(n, (ast.Yield, ast.YieldFrom)):
                    r = True
                elif not isinstance(n, (ast.FunctionDef, ast.AsyncFunctionDef, ast.Lambda, ast.ClassDef)):
                    todo.extend(ast.iter_child_nodes(n))
            fn._ointerp_isgen = r
        return r

    def run_body(self, fn, env, mod, cls):
        """run a function body; a generator function returns Gen(yielded values)"""
        if self.is_generator(fn):
            out = []
            self._ystack.append(out)
            try:
                self.block(fn.body, env, mod, cls)
            except _Ret:
                pass
            finally:
                self._ystack.pop()
            return Gen(out)
        try:
            self.block(fn.body, env, mod, cls)
        except _Ret as r:
            return r.v
        return None

    def dunder(self, o, name):
        """special method `name` of an interpreted object's class, or None"""
        if isinstance(o, Obj) and o.cls is not None and hasattr(o.cls, 'methods'):
            k, fn = self.idx.find_method(o.cls, name)
            if fn is not None:
                return FuncRef(k.mod, fn, k)
        return None

    # ---- calling
    def call_function(self, ref, args, kwargs, node=None, selfobj=None):
        fn = ref.fn
        hk = self.hooks.get((ref.owner.name + '.' if ref.owner is not None else '') + fn.name)
        if hk is not None:
            return hk(self, ([selfobj] if selfobj is not None else []) + list(args), kwargs)
        env = Env()
        params = [a.arg for a in fn.args.args]
        is_static = any(isinstance(d, ast.Name) and d.id in ('staticmethod',) for d in fn.decorator_list)
        is_classm = any(isinstance(d, ast.Name) and d.id == 'classmethod' for d in fn.decorator_list)
        vals = list(args)
        if ref.owner is not None and not is_static:
            vals = [selfobj if not is_classm else ClassRef(ref.owner)] + vals
        if fn.args.vararg or fn.args.kwarg:
            self.fail(fn, 'star parameters of ' + fn.name)
        defaults = fn.args.defaults
        for i, p in enumerate(params):
            if i < len(vals):
                env.vars[p] = vals[i]
            elif p in kwargs:
                env.vars[p] = kwargs[p]
            else:
                j = i - (len(params) - len(defaults))
                if j < 0:
                    self.fail(node or fn, 'missing argument %s of %s' % (p, fn.name))
                if id(fn) not in self._defaults:
                    self._defaults[id(fn)] = [self.ev(d, Env(), ref.mod, ref.owner) for d in defaults]
                env.vars[p] = self._defaults[id(fn)][j]
        if len(vals) > len(params):
            self.fail(node or fn, 'too many arguments for ' + fn.name)
        return self.run_body(fn, env, ref.mod, ref.owner)

    def call_value(self, f, args, kwargs, node):
        if isinstance(f, FuncRef):
            if f.owner is not None:
                decs = {d.id for d in f.fn.decorator_list if isinstance(d, ast.Name)}
                if not decs & {'staticmethod', 'classmethod'}:
                    # unbound method taken from the class: the first argument is the instance
                    if not args:
                        self.fail(node, 'unbound method %s called without an instance' % f.fn.name)
                    return self.call_function(f, list(args)[1:], kwargs, node, selfobj=args[0])
            return self.call_function(f, args, kwargs, node)
        if isinstance(f, Bound):
            return self.call_function(f.ref, args, kwargs, node, selfobj=f.obj)
        if isinstance(f, Closure):
            n = f.node
            env = Env(f.env)
            params = [a.arg for a in n.args.args]
            defaults = n.args.defaults
            for i, p in enumerate(params):
                if i < len(args):
                    env.vars[p] = args[i]
                elif p in kwargs:
                    env.vars[p] = kwargs[p]
                else:
                    j = i - (len(params) - len(defaults))
                    if j < 0:
                        self.fail(node, 'missing argument of lambda')
                    env.vars[p] = self.ev(defaults[j], f.env, f.mod, f.cls)
            if isinstance(n, ast.Lambda):
                return self.ev(n.body, env, f.mod, f.cls)
            return self.run_body(n, env, f.mod, f.cls)
        if isinstance(f, ClassRef):
            return self.instantiate(f.cls, args, kwargs, node)
        if isinstance(f, NTType):
            o = Obj(f, {})
            for i, fld in enumerate(f.fields):
                if i < len(args):
                    o.attrs[fld] = args[i]
                elif fld in kwargs:
                    o.attrs[fld] = kwargs[fld]
                else:
                    self.fail(node, 'namedtuple field %s not given' % fld)
            return o
        if callable(f) and getattr(f, '_ointerp_native', False):
            return f(self, list(args), kwargs)
        if isinstance(f, tuple) and f:
            # builtins, str.method and bound methods of plain values handed on as values (map(str.isalpha, xs), key=len)
            if f[0] == 'builtin' and len(f) == 2:
                return self.builtin(f[1], list(args), kwargs, node)
            if f[0] == 'strfn' and len(f) == 2:
                if not args or not isinstance(args[0], str):
                    raise PyExc('TypeError: str.%s needs a string' % f[1])
                return self.method(args[0], f[1], list(args)[1:], kwargs, node)
            if f[0] == 'method' and len(f) == 3:
                return self.method(f[1], f[2], list(args), kwargs, node)
        self.fail(node, 'call of %r' % (f,))

    def instantiate(self, cls, args, kwargs, node):
        hk = self.hooks.get(cls.name)
        if hk is not None:
            return hk(self, list(args), kwargs)
        kn, new = self.idx.find_method(cls, '__new__')
        if new is not None:
            # __new__ is an implicit static method that receives the class; what it returns IS the result of the call
            # (a cached / shared instance included), and __init__ runs on it only if it is an instance of the class
            if any(isinstance(d, ast.Name) and d.id in ('staticmethod', 'classmethod') for d in new.decorator_list):
                self.fail(new, 'decorated __new__')
            o = self.call_function(FuncRef(kn.mod, new, kn), args, kwargs, node, selfobj=ClassRef(cls))
            if not isinstance(o, Obj) or o.cls is None or isinstance(o.cls, NTType) or not hasattr(o.cls, 'methods') \
                    or cls not in self.idx.mro(o.cls):
                return o
        else:
            o = Obj(cls, {})
        k, init = self.idx.find_method(cls, '__init__')
        if init is not None:
            self.call_function(FuncRef(k.mod, init, k), args, kwargs, node, selfobj=o)
        elif args or kwargs:
            self.fail(node, 'arguments for %s without __init__' % cls.name)
        return o

    # ---- statements
    def block(self, stmts, env, mod, cls):
        for st in stmts:
            self.tick(st)
            if isinstance(st, ast.Expr):
                if isinstance(st.value, ast.Constant):
                    continue
                self.ev(st.value, env, mod, cls)
            elif isinstance(st, ast.Assign):
                v = self.ev(st.value, env, mod, cls)
                for t in st.targets:
                    self.assign(t, v, env, mod, cls)
            elif isinstance(st, ast.AnnAssign):
                if st.value is not None:
                    self.assign(st.target, self.ev(st.value, env, mod, cls), env, mod, cls)
            elif isinstance(st, ast.AugAssign):
                cur = self.ev(st.target, env, mod, cls)
                self.assign(st.target, self.binop(st.op, cur, self.ev(st.value, env, mod, cls), st), env, mod, cls)
            elif isinstance(st, ast.If):
                self.block(st.body if self.truth(self.ev(st.test, env, mod, cls)) else st.orelse, env, mod, cls)
            elif isinstance(st, ast.For):
                it = self.iterate(self.ev(st.iter, env, mod, cls), st)
                broke = False
                for x in it:
                    self.tick(st)
                    self.assign(st.target, x, env, mod, cls)
                    try:
                        self.block(st.body, env, mod, cls)
                    except _Brk:
                        broke = True
                        break
                    except _Cont:
                        continue
                if not broke:
                    self.block(st.orelse, env, mod, cls)
            elif isinstance(st, ast.While):
                while self.truth(self.ev(st.test, env, mod, cls)):
                    self.tick(st)
                    try:
                        self.block(st.body, env, mod, cls)
                    except _Brk:
                        break
                    except _Cont:
                        continue
            elif isinstance(st, ast.Return):
                raise _Ret(self.ev(st.value, env, mod, cls) if st.value is not None else None)
            elif isinstance(st, ast.Break):
                raise _Brk()
            elif isinstance(st, ast.Continue):
                raise _Cont()
            elif isinstance(st, ast.Pass):
                continue
            elif isinstance(st, (ast.Import, ast.ImportFrom)):
                continue        # names are resolved through the index
            elif isinstance(st, ast.Try):
                try:
                    self.block(st.body, env, mod, cls)
                except PyExc:
                    done = False
                    for h in st.handlers:
                        self.block(h.body, env, mod, cls)
                        done = True
                        break
                    if not done:
                        raise
                else:
                    self.block(st.orelse, env, mod, cls)
                self.block(st.finalbody, env, mod, cls)
            elif isinstance(st, ast.Raise):
                raise PyExc(ast.unparse(st))
            elif isinstance(st, ast.With):
                for item in st.items:
                    v = self.ev(item.context_expr, env, mod, cls)
                    if item.optional_vars is not None:
                        self.assign(item.optional_vars, v, env, mod, cls)
                self.block(st.body, env, mod, cls)
            elif isinstance(st, ast.FunctionDef):
                env.vars[st.name] = Closure(st, env, mod, cls)
            elif isinstance(st, ast.Delete):
                for t in st.targets:
                    if not isinstance(t, ast.Subscript):
                        self.fail(st, 'del of ' + ast.unparse(t))
                    base = self.ev(t.value, env, mod, cls)
                    try:
                        if isinstance(t.slice, ast.Slice) and isinstance(base, list):
                            lo = self.ev(t.slice.lower, env, mod, cls) if t.slice.lower is not None else None
                            hi = self.ev(t.slice.upper, env, mod, cls) if t.slice.upper is not None else None
                            del base[lo:hi]
                        elif isinstance(base, list):
                            del base[self.ev(t.slice, env, mod, cls)]
                        elif isinstance(base, dict):
                            del base[self.key(self.ev(t.slice, env, mod, cls))]
                        else:
                            self.fail(st, 'del on %r' % (base,))
                    except (IndexError, KeyError, TypeError):
                        raise PyExc('error in ' + ast.unparse(st))
            else:
                self.fail(st, 'statement ' + type(st).__name__)

    def assign(self, tgt, v, env, mod, cls):
        if isinstance(tgt, ast.Name):
            env.vars[tgt.id] = v
        elif isinstance(tgt, (ast.Tuple, ast.List)):
            vs = list(self.iterate(v, tgt))
            if len(vs) != len(tgt.elts):
                raise PyExc('unpack')
            for t, x in zip(tgt.elts, vs):
                self.assign(t, x, env, mod, cls)
        elif isinstance(tgt, ast.Attribute):
            o = self.ev(tgt.value, env, mod, cls)
            if isinstance(o, ClassRef):
                rn = self.raw(o.cls, self.mangle(tgt.attr, cls))
                self._cattrs[(o.cls.qual, rn)] = v
                if rn not in o.cls.attrs:
                    self.fail(tgt, 'new class attribute %s.%s created at run time' % (o.cls.name, tgt.attr))
                return
            if not isinstance(o, Obj):
                self.fail(tgt, 'attribute store on %r' % (o,))
            name = self.mangle(tgt.attr, cls)
            # property setter?
            if o.cls is not None and hasattr(o.cls, 'methods'):
                for k in self.idx.mro(o.cls):
                    st = k.methods.get('%s#setter' % self.raw(k, name))
                    if st is not None:
                        self.call_function(FuncRef(k.mod, st, k), [v], {}, tgt, selfobj=o)
                        return
            o.attrs[name] = v
        elif isinstance(tgt, ast.Subscript):
            base = self.ev(tgt.value, env, mod, cls)
            if isinstance(tgt.slice, ast.Slice):
                if not isinstance(base, list) or tgt.slice.step is not None:
                    self.fail(tgt, 'slice store on %r' % (base,))
                lo = self.ev(tgt.slice.lower, env, mod, cls) if tgt.slice.lower is not None else None
                hi = self.ev(tgt.slice.upper, env, mod, cls) if tgt.slice.upper is not None else None
                try:
                    base[lo:hi] = list(self.iterate(v, tgt))
                except TypeError:
                    raise PyExc('TypeError in ' + ast.unparse(tgt))
                return
            k = self.ev(tgt.slice, env, mod, cls)
            si = self.dunder(base, '__setitem__')
            if si is not None:
                self.call_function(si, [k, v], {}, tgt, selfobj=base)
                return
            try:
                if isinstance(base, list):
                    base[k] = v
                elif isinstance(base, dict):
                    base[self.key(k)] = (k, v)
                else:
                    self.fail(tgt, 'subscript store on %r' % (base,))
            except (IndexError, TypeError):
                raise PyExc('IndexError in ' + ast.unparse(tgt))
        else:
            self.fail(tgt, 'assignment target')

    @staticmethod
    def key(k):
        """dict keys: objects by identity"""
        return ('#', id(k)) if isinstance(k, (Obj, Native)) else k

    @staticmethod
    def mangle(name, cls):
        if name.startswith('__') and not name.endswith('__') and cls is not None:
            return '_%s%s' % (cls.name.lstrip('_'), name)
        return name

    @staticmethod
    def raw(k, nm):
        """spelling inside the body of class k of the attribute name nm as seen at run time: a private name `__x` written in
        k's body is stored as `_K__x`, so `_K__x` is looked up as `__x` in k's own tables (and an unmangled `__x` finds
        nothing, as in Python)"""
        if nm.startswith('_') and not nm.endswith('__'):
            if nm.startswith('__'):
                return None
            pre = '_%s__' % k.name.lstrip('_')
            if nm.startswith(pre) and len(nm) > len(pre):
                return nm[len(pre) - 2:]
        return nm

    # ---- values
    def truth(self, v):
        if isinstance(v, Obj):
            # __bool__, else __len__ of the interpreted class decide (a container-like class may be falsy)
            b = self.dunder(v, '__bool__')
            if b is not None:
                return self.truth(self.call_function(b, [], {}, None, selfobj=v))
            ln = self.dunder(v, '__len__')
            if ln is not None:
                n = self.call_function(ln, [], {}, None, selfobj=v)
                if not isinstance(n, int):
                    raise PyExc('TypeError: __len__ returned %r' % (n,))
                return n != 0
            return True
        if isinstance(v, (Native, ClassRef, FuncRef, Bound, Closure, Gen)):
            return True
        return bool(v)

    def iterate(self, v, node):
        if isinstance(v, (list, tuple, str, range)):
            return list(v)
        if isinstance(v, dict):
            return [kv[0] for kv in v.values()]
        if isinstance(v, Gen):
            items, v.items = v.items, []
            return items
        it = self.dunder(v, '__iter__')
        if it is not None:
            r = self.call_function(it, [], {}, node, selfobj=v)
            if isinstance(r, (Gen, list, tuple)):
                return self.iterate(r, node)
            self.fail(node, '__iter__ returning %r' % (r,))
        if v is None or isinstance(v, (bool, int, float)):
            raise PyExc("TypeError: '%s' object is not iterable" % type(v).__name__)
        self.fail(node, 'iteration over %r' % (v,))

    def binop(self, op, a, b, node):
        try:
            if isinstance(op, ast.Add):
                if isinstance(a, list) and isinstance(b, list):
                    return a + b
                if isinstance(a, str) and isinstance(b, str):
                    return a + b
                if isinstance(a, (int, float)) and isinstance(b, (int, float)):
                    return a + b
            if isinstance(a, (int, float)) and isinstance(b, (int, float)):
                if isinstance(op, ast.Sub):
                    return a - b
                if isinstance(op, ast.Mult):
                    return a * b
                if isinstance(op, ast.FloorDiv):
                    return a // b
                if isinstance(op, ast.Mod):
                    return a % b
                if isinstance(op, ast.Div):
                    return a / b
            if isinstance(a, int) and isinstance(b, int):
                if isinstance(op, ast.BitAnd):
                    return a & b
                if isinstance(op, ast.BitOr):
                    return a | b
            if isinstance(op, ast.Mult) and isinstance(a, list) and isinstance(b, int):
                if b > 4096:
                    self.fail(node, 'list repetition too long')
                return a * b
            if isinstance(op, ast.Mult) and isinstance(a, str) and isinstance(b, int):
                return a * min(b, 4096)
            if isinstance(op, ast.Mod) and isinstance(a, str):
                # printf-style formatting of primitive values (anything else is outside the subset: fail closed,
                # a PyExc here would claim a TypeError that Python does not raise)
                import decimal
                prim = (str, int, float, bool, type(None), decimal.Decimal)
                if isinstance(b, prim) or (isinstance(b, tuple) and all(isinstance(x, prim) for x in b)):
                    try:
                        return a % b
                    except (TypeError, ValueError) as ex:
                        raise PyExc('%s: %s' % (type(ex).__name__, ex))
                self.fail(node, 'str %% %s' % type(b).__name__)
        except ZeroDivisionError:
            raise PyExc('ZeroDivisionError')
        raise PyExc('TypeError in ' + ast.unparse(node)[:80])

    def resolve_name(self, name, mod, node):
        if name in ('True', 'False', 'None'):
            return {'True': True, 'False': False, 'None': None}[name]
        if ('name:' + name) in self.hooks:
            return native(self.hooks['name:' + name])
        if name in ('regex', 're'):
            return ModRef('regex')
        if name in ('copy', 'os', 'json', 'abc', 'sys'):
            return ModRef(name)
        r = self.idx.resolve(mod, name) if mod is not None else None
        if r is not None:
            if r[0] == 'class':
                return ClassRef(r[1])
            if r[0] == 'func':
                return FuncRef(r[1], r[2])
            if r[0] == 'module':
                return ModRef(r[1].name, r[1])
            if r[0] == 'const':
                v = r[2]
                if isinstance(v, ast.Call) and isinstance(v.func, ast.Name) and v.func.id == 'namedtuple' and len(v.args) == 2:
                    flds = v.args[1]
                    if isinstance(flds, (ast.List, ast.Tuple)):
                        return NTType(name, [e.value for e in flds.elts])
                    if isinstance(flds, ast.Constant) and isinstance(flds.value, str):
                        return NTType(name, flds.value.replace(',', ' ').split())
                return self.ev(v, Env(), r[1], None)
        if name in _BUILTIN_NAMES:
            return ('builtin', name)
        if name == 'deepcopy' and mod is not None and self._imports_from(mod, 'copy', 'deepcopy'):
            return native(lambda it, a, k: it.deepcopy(a[0], {}))
        if name == 'chain' and mod is not None and self._imports_from(mod, 'itertools', 'chain'):
            # itertools.chain, consumed eagerly (the interpreter's generators are eager too)
            return native(lambda it, a, k: [x for part in a for x in it.iterate(part, node)])
        self.fail(node, 'name ' + name)

    @staticmethod
    def _imports_from(mod, module, name):
        return any(isinstance(st, ast.ImportFrom) and st.module == module and any((a.asname or a.name) == name for a in st.names)
                   for st in ast.walk(mod.tree))

    def class_attr(self, c, name, node):
        """class-level attribute / method of an indexed class"""
        for k in self.idx.mro(c):
            rn = self.raw(k, name)
            if rn in k.attrs:
                return True, self._class_value(k, rn)
            if rn in k.methods:
                return True, FuncRef(k.mod, k.methods[rn], k)
        return False, None

    def _class_value(self, k, name):
        key = (k.qual, name)
        if key not in self._cattrs:
            self._cattrs[key] = self.ev(k.attrs[name], Env(), k.mod, k)
        return self._cattrs[key]

    def getattr(self, o, name, node, cls):
        if isinstance(o, Obj):
            nm = self.mangle(name, cls)
            if nm in o.attrs:
                return o.attrs[nm]
            if isinstance(o.cls, NTType):
                raise PyExc('AttributeError %s' % name)
            if o.cls is not None:
                for k in self.idx.mro(o.cls):
                    rn = self.raw(k, nm)
                    if rn in k.methods:
                        fn = k.methods[rn]
                        if any(isinstance(d, ast.Name) and d.id == 'property' for d in fn.decorator_list):
                            return self.call_function(FuncRef(k.mod, fn, k), [], {}, node, selfobj=o)
                        return Bound(o, FuncRef(k.mod, fn, k))
                    if rn in k.attrs:
                        return self._class_value(k, rn)
            raise PyExc('AttributeError: %s' % name)
        if isinstance(o, ClassRef):
            ok, v = self.class_attr(o.cls, self.mangle(name, cls), node)
            if ok:
                return v
            raise PyExc('AttributeError: %s.%s' % (o.cls.name, name))
        if isinstance(o, Native):
            if name in o.table:
                return o.table[name]
            raise PyExc('AttributeError: %s' % name)
        if isinstance(o, ModRef):
            if o.mod is not None:
                return self.resolve_name(name, o.mod, node)
            if ('%s.%s' % (o.name, name)) in self.hooks or o.name in ('regex', 'copy'):
                return ('modfn', o.name, name)
            return ModRef('%s.%s' % (o.name, name))
        if isinstance(o, (str, list, dict)):
            return ('method', o, name)
        if isinstance(o, tuple) and len(o) == 2 and o[0] == 'builtin' and o[1] == 'str' and name in _STR_METHODS:
            return ('strfn', name)
        self.fail(node, 'attribute %s of %r' % (name, o))

    # ---- expressions
    def ev(self, e, env, mod, cls):
        self.tick(e)
        if isinstance(e, ast.Constant):
            return e.value
        if isinstance(e, ast.Name):
            ok, v = env.get(e.id)
            if ok:
                return v
            return self.resolve_name(e.id, mod, e)
        if isinstance(e, ast.Attribute):
            return self.getattr(self.ev(e.value, env, mod, cls), e.attr, e, cls)
        if isinstance(e, (ast.List, ast.Tuple)):
            vals = [self.ev(x, env, mod, cls) for x in e.elts]
            return vals if isinstance(e, ast.List) else tuple(vals)
        if isinstance(e, ast.Dict):
            d = {}
            for k, v in zip(e.keys, e.values):
                if k is None:
                    self.fail(e, 'dict unpacking')
                kk = self.ev(k, env, mod, cls)
                d[self.key(kk)] = (kk, self.ev(v, env, mod, cls))
            return d
        if isinstance(e, ast.BinOp):
            return self.binop(e.op, self.ev(e.left, env, mod, cls), self.ev(e.right, env, mod, cls), e)
        if isinstance(e, ast.BoolOp):
            v = None
            for x in e.values:
                v = self.ev(x, env, mod, cls)
                if isinstance(e.op, ast.And) and not self.truth(v):
                    return v
                if isinstance(e.op, ast.Or) and self.truth(v):
                    return v
            return v
        if isinstance(e, ast.UnaryOp):
            v = self.ev(e.operand, env, mod, cls)
            if isinstance(e.op, ast.Not):
                return not self.truth(v)
            if isinstance(e.op, ast.USub) and isinstance(v, (int, float)):
                return -v
            self.fail(e, 'unary operator')
        if isinstance(e, ast.IfExp):
            return self.ev(e.body if self.truth(self.ev(e.test, env, mod, cls)) else e.orelse, env, mod, cls)
        if isinstance(e, ast.Compare):
            left = self.ev(e.left, env, mod, cls)
            for op, c in zip(e.ops, e.comparators):
                right = self.ev(c, env, mod, cls)
                if not self.compare(op, left, right, e):
                    return False
                left = right
            return True
        if isinstance(e, ast.Subscript):
            base = self.ev(e.value, env, mod, cls)
            try:
                if isinstance(e.slice, ast.Slice):
                    lo = self.ev(e.slice.lower, env, mod, cls) if e.slice.lower is not None else None
                    hi = self.ev(e.slice.upper, env, mod, cls) if e.slice.upper is not None else None
                    st = self.ev(e.slice.step, env, mod, cls) if e.slice.step is not None else None
                    if not isinstance(base, (str, list, tuple)):
                        self.fail(e, 'slice of %r' % (base,))
                    return base[lo:hi:st]
                k = self.ev(e.slice, env, mod, cls)
                gi = self.dunder(base, '__getitem__')
                if gi is not None:
                    return self.call_function(gi, [k], {}, e, selfobj=base)
                if isinstance(base, dict):
                    kk = self.key(k)
                    if kk not in base:
                        raise PyExc('KeyError')
                    return base[kk][1]
                if isinstance(base, (str, list, tuple)):
                    return base[k]
            except (IndexError, TypeError):
                raise PyExc('IndexError in ' + ast.unparse(e)[:80])
            self.fail(e, 'subscript of %r' % (base,))
        if isinstance(e, (ast.ListComp, ast.GeneratorExp, ast.SetComp)):
            out = []
            self.comp(e, 0, Env(env), mod, cls, out)
            return out
        if isinstance(e, ast.Lambda):
            return Closure(e, env, mod, cls)
        if isinstance(e, ast.Call):
            return self.call(e, env, mod, cls)
        if isinstance(e, (ast.Yield, ast.YieldFrom)):
            if not self._ystack:
                self.fail(e, 'yield outside a generator body')
            if isinstance(e, ast.Yield):
                self._ystack[-1].append(self.ev(e.value, env, mod, cls) if e.value is not None else None)
            else:
                self._ystack[-1].extend(self.iterate(self.ev(e.value, env, mod, cls), e))
            return None
        if isinstance(e, ast.JoinedStr):
            s = ''
            for p in e.values:
                if isinstance(p, ast.Constant):
                    s += str(p.value)
                elif isinstance(p, ast.FormattedValue) and p.format_spec is None:
                    s += str(self.ev(p.value, env, mod, cls))
                else:
                    self.fail(e, 'format spec')
            return s
        self.fail(e, 'expression ' + type(e).__name__)

    def comp(self, e, gi, env, mod, cls, out):
        if gi == len(e.generators):
            out.append(self.ev(e.elt, env, mod, cls))
            return
        g = e.generators[gi]
        for x in self.iterate(self.ev(g.iter, env, mod, cls), e):
            self.tick(e)
            self.assign(g.target, x, env, mod, cls)
            if all(self.truth(self.ev(c, env, mod, cls)) for c in g.ifs):
                self.comp(e, gi + 1, env, mod, cls, out)

    def compare(self, op, a, b, node):
        try:
            if isinstance(op, ast.Eq):
                return self.eq(a, b)
            if isinstance(op, ast.NotEq):
                return not self.eq(a, b)
            if isinstance(op, ast.Is):
                if isinstance(a, ClassRef) and isinstance(b, ClassRef):
                    return a.cls is b.cls
                return a is b or (a is None and b is None) or (isinstance(a, (bool, int, str)) and type(a) is type(b) and a == b)
            if isinstance(op, ast.IsNot):
                return not self.compare(ast.Is(), a, b, node)
            if isinstance(op, ast.In):
                if isinstance(b, dict):
                    return self.key(a) in b
                if isinstance(b, str):
                    return isinstance(a, str) and a in b
                ct = self.dunder(b, '__contains__')
                if ct is not None:
                    return self.truth(self.call_function(ct, [a], {}, node, selfobj=b))
                return any(self.eq(a, x) for x in self.iterate(b, node))
            if isinstance(op, ast.NotIn):
                return not self.compare(ast.In(), a, b, node)
            if isinstance(a, (int, float, str)) and isinstance(b, (int, float, str)) and isinstance(a, str) == isinstance(b, str):
                if isinstance(op, ast.Lt):
                    return a < b
                if isinstance(op, ast.LtE):
                    return a <= b
                if isinstance(op, ast.Gt):
                    return a > b
                if isinstance(op, ast.GtE):
                    return a >= b
        except TypeError:
            pass
        raise PyExc('TypeError in comparison ' + ast.unparse(node)[:80])

    @staticmethod
    def eq(a, b):
        if isinstance(a, (Obj, Native)) or isinstance(b, (Obj, Native)):
            return a is b
        return a == b

    def call(self, e, env, mod, cls):
        fx = e.func
        if isinstance(fx, ast.Attribute) and fx.attr == '__new__' and (
                (isinstance(fx.value, ast.Name) and fx.value.id == 'object') or
                (isinstance(fx.value, ast.Call) and isinstance(fx.value.func, ast.Name) and fx.value.func.id == 'super'
                 and not fx.value.args and not fx.value.keywords and cls is not None)):
            # super().__new__(C, ...) / object.__new__(C): the next __new__ after the running class in the MRO of C,
            # object.__new__ (a fresh, empty instance of C) when there is none
            args = [self.ev(a, env, mod, cls) for a in e.args]
            if e.keywords or not args or not isinstance(args[0], ClassRef) or not hasattr(args[0].cls, 'methods'):
                self.fail(e, '__new__ called on something else than an indexed class')
            target = args[0].cls
            if isinstance(fx.value, ast.Call):
                mro = self.idx.mro(target)
                if cls not in mro:
                    self.fail(e, 'super().__new__: %s is not in the MRO of %s' % (cls.name, target.name))
                for k in mro[mro.index(cls) + 1:]:
                    if '__new__' in k.methods:
                        return self.call_function(FuncRef(k.mod, k.methods['__new__'], k), args[1:], {}, e,
                                                  selfobj=ClassRef(target))
            if len(args) != 1:
                raise PyExc('TypeError: object.__new__() takes exactly one argument (the type to instantiate)')
            return Obj(target, {})
        if isinstance(fx, ast.Attribute) and isinstance(fx.value, ast.Call) and isinstance(fx.value.func, ast.Name) \
                and fx.value.func.id == 'super' and not fx.value.args and not fx.value.keywords and cls is not None:
            # zero-argument super(): the next definition after the class the running code belongs to, in the MRO of the object
            ok, selfo = env.get('self')
            if not ok or not isinstance(selfo, Obj) or selfo.cls is None or isinstance(selfo.cls, NTType):
                self.fail(e, 'super() outside a method of an indexed class')
            mro = self.idx.mro(selfo.cls)
            if cls not in mro:
                self.fail(e, 'super(): %s is not in the MRO of the object' % cls.name)
            args = [self.ev(a, env, mod, cls) for a in e.args]
            kwargs = {kw.arg: self.ev(kw.value, env, mod, cls) for kw in e.keywords}
            for k in mro[mro.index(cls) + 1:]:
                rn = self.raw(k, self.mangle(fx.attr, cls))
                if rn in k.methods:
                    return self.call_function(FuncRef(k.mod, k.methods[rn], k), args, kwargs, e, selfobj=selfo)
            if fx.attr == '__init__' and not args and not kwargs:
                return None         # object.__init__
            self.fail(e, 'super().%s not found' % fx.attr)
        f = self.ev(e.func, env, mod, cls)
        args = []
        for a in e.args:
            if isinstance(a, ast.Starred):
                args.extend(self.iterate(self.ev(a.value, env, mod, cls), e))
            else:
                args.append(self.ev(a, env, mod, cls))
        kwargs = {}
        for kw in e.keywords:
            if kw.arg is None:
                self.fail(e, '** arguments')
            kwargs[kw.arg] = self.ev(kw.value, env, mod, cls)
        if isinstance(f, tuple) and f and f[0] == 'builtin':
            return self.builtin(f[1], args, kwargs, e)
        if isinstance(f, tuple) and f and f[0] == 'modfn':
            hk = self.hooks.get('%s.%s' % (f[1], f[2]))
            if hk is not None:
                return hk(self, args, kwargs)
            if f[1] == 'copy' and f[2] in ('copy', 'deepcopy') and len(args) == 1:
                return self.deepcopy(args[0], {})
            self.fail(e, 'call of %s.%s without a hook' % (f[1], f[2]))
        if isinstance(f, tuple) and f and f[0] == 'method':
            return self.method(f[1], f[2], args, kwargs, e)
        if isinstance(f, tuple) and f and f[0] == 'strfn':
            if not args or not isinstance(args[0], str):
                raise PyExc('TypeError: str.%s needs a string' % f[1])
            return self.method(args[0], f[1], args[1:], kwargs, e)
        return self.call_value(f, args, kwargs, e)

    def deepcopy(self, v, memo):
        if isinstance(v, Obj):
            if id(v) in memo:
                return memo[id(v)]
            o = Obj(v.cls, {})
            memo[id(v)] = o
            for k, x in v.attrs.items():
                o.attrs[k] = self.deepcopy(x, memo)
            return o
        if isinstance(v, list):
            return type(v)([self.deepcopy(x, memo) for x in v])
        if isinstance(v, tuple):
            return tuple(self.deepcopy(x, memo) for x in v)
        if isinstance(v, dict):
            return {k: (kv[0], self.deepcopy(kv[1], memo)) for k, kv in v.items()}
        return v

    def method(self, recv, name, args, kwargs, node):
        try:
            if isinstance(recv, str) and name in _STR_METHODS:
                r = getattr(recv, name)(*args)
                return list(r) if isinstance(r, (tuple,)) else r
            if isinstance(recv, SetList) and name in ('add', 'discard', 'update'):
                for x in ([args[0]] if name != 'update' else self.iterate(args[0], node)):
                    hits = [i for i, y in enumerate(recv) if self.eq(x, y)]
                    if name == 'discard':
                        if hits:
                            del recv[hits[0]]
                    elif not hits:
                        recv.append(x)
                return None
            if isinstance(recv, list) and name in _LIST_METHODS:
                if name == 'sort':
                    key = kwargs.get('key')
                    recv[:] = self.sorted_(recv, key, kwargs.get('reverse', False), node)
                    return None
                if name in ('index', 'count', 'remove'):
                    hits = [i for i, x in enumerate(recv) if self.eq(x, args[0])]
                    if name == 'count':
                        return len(hits)
                    if not hits:
                        raise PyExc('ValueError')
                    if name == 'index':
                        return hits[0]
                    del recv[hits[0]]
                    return None
                return getattr(recv, name)(*args)
            if isinstance(recv, dict) and name in _DICT_METHODS:
                if name == 'get':
                    kv = recv.get(self.key(args[0]))
                    return kv[1] if kv is not None else (args[1] if len(args) > 1 else None)
                if name == 'items':
                    return [kv for kv in recv.values()]
                if name == 'keys':
                    return [kv[0] for kv in recv.values()]
                if name == 'values':
                    return [kv[1] for kv in recv.values()]
                if name == 'setdefault':
                    kk = self.key(args[0])
                    if kk not in recv:
                        recv[kk] = (args[0], args[1] if len(args) > 1 else None)
                    return recv[kk][1]
                if name == 'update' and len(args) == 1 and isinstance(args[0], dict):
                    recv.update(args[0])
                    return None
                if name == 'pop':
                    kk = self.key(args[0])
                    if kk in recv:
                        return recv.pop(kk)[1]
                    if len(args) > 1:
                        return args[1]
                    raise PyExc('KeyError')
        except (TypeError, ValueError, IndexError):
            raise PyExc('error in method ' + name)
        self.fail(node, 'method %s of %s' % (name, type(recv).__name__))

    def sorted_(self, seq, key, reverse, node):
        items = list(seq)
        if key is None:
            ks = items
        else:
            ks = [self.call_value(key, [x], {}, node) for x in items]
        for k in ks:
            if not isinstance(k, (int, float, str, tuple)):
                self.fail(node, 'sort key %r' % (k,))
        order = sorted(range(len(items)), key=lambda i: ks[i], reverse=bool(reverse))
        return [items[i] for i in order]

    def builtin(self, name, args, kwargs, node):
        try:
            if name == 'len' and len(args) == 1:
                if isinstance(args[0], (str, list, tuple, dict, range)):
                    return len(args[0])
                ln = self.dunder(args[0], '__len__')
                if ln is not None:
                    return self.call_function(ln, [], {}, node, selfobj=args[0])
            elif name == 'range' and 1 <= len(args) <= 3 and all(isinstance(a, int) for a in args):
                r = range(*args)
                if len(r) > 100000:
                    self.fail(node, 'range too long')
                return r
            elif name in ('list', 'tuple'):
                if not args:
                    return [] if name == 'list' else ()
                v = self.iterate(args[0], node)
                return v if name == 'list' else tuple(v)
            elif name == 'dict':
                d = {}
                if args:
                    if isinstance(args[0], dict):
                        d.update(args[0])
                    else:
                        for kv in self.iterate(args[0], node):
                            k, v = self.iterate(kv, node)
                            d[self.key(k)] = (k, v)
                for k, v in kwargs.items():
                    d[k] = (k, v)
                return d
            elif name == 'set':
                out = []
                for x in (self.iterate(args[0], node) if args else []):
                    if not any(self.eq(x, y) for y in out):
                        out.append(x)
                return SetList(out)
            elif name == 'sorted' and args:
                return self.sorted_(self.iterate(args[0], node), kwargs.get('key'), kwargs.get('reverse', False), node)
            elif name == 'filter' and len(args) == 2:
                f = args[0]
                return [x for x in self.iterate(args[1], node)
                        if (self.truth(x) if f is None else self.truth(self.call_value(f, [x], {}, node)))]
            elif name == 'map' and len(args) == 2:
                return [self.call_value(args[0], [x], {}, node) for x in self.iterate(args[1], node)]
            elif name == 'enumerate' and 1 <= len(args) <= 2:
                st = args[1] if len(args) == 2 else kwargs.get('start', 0)
                return [(i + st, x) for i, x in enumerate(self.iterate(args[0], node))]
            elif name == 'iter' and len(args) == 1:
                return self.iterate(args[0], node)
            elif name == 'next' and 1 <= len(args) <= 2:
                if isinstance(args[0], Gen):
                    if args[0].items:
                        return args[0].items.pop(0)
                    seq = []
                else:
                    seq = self.iterate(args[0], node)
                if seq:
                    return seq[0]
                if len(args) == 2:
                    return args[1]
                raise PyExc('StopIteration')
            elif name in ('min', 'max') and args:
                seq = self.iterate(args[0], node) if len(args) == 1 else list(args)
                if not seq:
                    raise PyExc('ValueError: empty min/max')
                if all(isinstance(x, (int, float)) for x in seq):
                    return (min if name == 'min' else max)(seq)
            elif name in ('any', 'all') and len(args) == 1:
                seq = [self.truth(x) for x in self.iterate(args[0], node)]
                return any(seq) if name == 'any' else all(seq)
            elif name == 'sum' and len(args) == 1:
                seq = self.iterate(args[0], node)
                if all(isinstance(x, (int, float)) for x in seq):
                    return sum(seq)
            elif name == 'abs' and len(args) == 1 and isinstance(args[0], (int, float)):
                return abs(args[0])
            elif name == 'str' and len(args) == 1 and isinstance(args[0], (str, int, float, bool, type(None))):
                return str(args[0])
            elif name == 'int' and len(args) == 1 and isinstance(args[0], (str, int, float, bool)):
                return int(args[0])
            elif name == 'bool' and len(args) == 1:
                return self.truth(args[0])
            elif name == 'ord' and len(args) == 1 and isinstance(args[0], str) and len(args[0]) == 1:
                return ord(args[0])
            elif name == 'chr' and len(args) == 1 and isinstance(args[0], int):
                return chr(args[0])
            elif name == 'float' and len(args) == 1 and isinstance(args[0], (str, int, float, bool)):
                return float(args[0])
            elif name == 'reversed' and len(args) == 1:
                return list(reversed(self.iterate(args[0], node)))
            elif name == 'zip':
                return [tuple(t) for t in zip(*[self.iterate(a, node) for a in args])]
            elif name == 'isinstance' and len(args) == 2:
                return self.isinstance_(args[0], args[1], node)
            elif name == 'hasattr' and len(args) == 2 and isinstance(args[1], str):
                try:
                    self.getattr(args[0], args[1], node, None)
                    return True
                except PyExc:
                    return False
            elif name == 'print':
                return None
            elif name == 'type' and len(args) == 1:
                v = args[0]
                if isinstance(v, Obj) and v.cls is not None and hasattr(v.cls, 'methods'):
                    return ClassRef(v.cls)
                for tn, t in (('bool', bool), ('int', int), ('float', float), ('str', str), ('list', list), ('dict', dict),
                              ('tuple', tuple)):
                    if type(v) is t:
                        return ('builtin', tn)
                return ('builtin', 'object')
        except (TypeError, ValueError):
            raise PyExc('error in builtin ' + name)
        self.fail(node, 'builtin %s(%s)' % (name, ', '.join(type(a).__name__ for a in args)))

    def isinstance_(self, v, t, node):
        if isinstance(t, tuple) and t and t[0] == 'builtin':
            want = {'list': list, 'str': str, 'int': int, 'dict': dict, 'tuple': tuple, 'bool': bool, 'float': float}.get(t[1])
            if t[1] == 'set':
                return isinstance(v, SetList)
            if want is None:
                self.fail(node, 'isinstance with ' + t[1])
            return isinstance(v, want) and not (want is list and isinstance(v, SetList))
        if isinstance(t, ClassRef):
            if isinstance(v, Obj) and v.cls is not None and hasattr(v.cls, 'methods'):
                return t.cls in self.idx.mro(v.cls)
            return False
        if isinstance(t, (list, tuple)):
            return any(self.isinstance_(v, x, node) for x in t)
        self.fail(node, 'isinstance target %r' % (t,))


def native(fn):
    fn._ointerp_native = True
    return fn
