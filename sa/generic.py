"""Cross-cutting deviant-behaviour rules (Engler-style: every instance on the pinned tree obeys them, a site that
does not is a contradiction with the established idiom).  Each is a necessary condition for "an entity the
extractors found is not silently dropped / duplicated", which every recognition property presupposes."""
import ast


def _names(e):
    return {n.id for n in ast.walk(e) if isinstance(n, ast.Name)}


def filter_predicates(fn):
    """yield (node, bound names, predicate expr, description) for every element filter in fn:
    comprehension `if`, filter(lambda x: ..., xs), next((x for x in xs if ...), default)"""
    for n in ast.walk(fn):
        if isinstance(n, (ast.ListComp, ast.GeneratorExp, ast.SetComp, ast.DictComp)):
            for g in n.generators:
                tv = _names(g.target)
                for c in g.ifs:
                    yield n, tv, c, 'comprehension filter'
        elif isinstance(n, ast.Call) and isinstance(n.func, ast.Name) and n.func.id == 'filter' and n.args \
                and isinstance(n.args[0], ast.Lambda):
            lam = n.args[0]
            yield n, {a.arg for a in lam.args.args}, lam.body, 'filter(lambda ...)'


def rule_filter_predicates(chk, idx, rid, mod_prefix, floor=1):
    """every filter predicate over extraction results depends on the element it filters.  A predicate that does not
    mention its own element keeps or drops *all* elements at once - the refactoring slip of using an outer loop
    variable inside a comprehension"""
    chk.rule(rid, 'every filter predicate (comprehension if / filter lambda) depends on the element it filters', floor=floor,
             control=True)
    for mod, cls, fn in idx.functions():
        if not mod.name.startswith(mod_prefix) or '.resources.' in mod.name:
            continue
        q = (cls.name + '.' if cls else '') + fn.name
        seen = {}
        for node, bound, pred, what in filter_predicates(fn):
            k = (what, ast.unparse(pred)[:80])
            seen[k] = seen.get(k, 0) + 1
            ok = bool(_names(pred) & bound)
            chk.judge(ok, rid, mod.path, '%s: %s #%d' % (q, what, seen[k]),
                      'predicate %s mentions %s' % (ast.unparse(pred)[:100], sorted(bound)) if ok else
                      'predicate %s does not mention %s' % (ast.unparse(pred)[:100], sorted(bound)),
                      '%s: the %s `%s` does not depend on the element it filters (%s): it keeps or drops every element at '
                      'once, so correct entities vanish (or wrong ones survive) together'
                      % (q, what, ast.unparse(pred)[:100], ', '.join(sorted(bound))), node.lineno)
    ctl = ast.parse('def f(ers, bad):\n    for b in bad:\n        ers = [e for e in ers if not overlaps(b, bad)]\n    return ers\n').body[0]
    fired = any(not (_names(p) & bnd) for _, bnd, p, _ in filter_predicates(ctl))
    chk.control(rid, fired)
