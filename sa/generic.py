"""Cross-cutting deviant-behaviour rules (Engler-style: every instance on the pinned tree obeys them, a site that
does not is a contradiction with the established idiom).  Each is a necessary condition for "an entity the
extractors found is not silently dropped / duplicated", which every recognition property presupposes."""
import ast


def _names(e):
    return {n.id for n in ast.walk(e) if isinstance(n, ast.Name)}


def filter_predicates(fn):
    """yield (node, bound names, predicate expr, description) for every element filter in fn:
    comprehension `if`, filter(lambda x: ..., xs), next((x for x in xs if ...), default)"""
    for n in ast.walk(fn):
        if isinstance(n, (ast.ListComp, ast.GeneratorExp, ast.SetComp, ast.DictComp)):
            for g in n.generators:
                tv = _names(g.target)
                for c in g.ifs:
                    yield n, tv, c, 'comprehension filter'
        elif isinstance(n, ast.Call) and isinstance(n.func, ast.Name) and n.func.id == 'filter' and n.args \
                and isinstance(n.args[0], ast.Lambda):
            lam = n.args[0]
            yield n, {a.arg for a in lam.args.args}, lam.body, 'filter(lambda ...)'


def rule_filter_predicates(chk, idx, rid, mod_prefix, floor=1):
    """every filter predicate over extraction results depends on the element it filters.  A predicate that does not
    mention its own element keeps or drops *all* elements at once - the refactoring slip of using an outer loop
    variable inside a comprehension"""
    chk.rule(rid, 'every filter predicate (comprehension if / filter lambda) depends on the element it filters', floor=floor,
             control=True)
    for mod, cls, fn in idx.functions():
        if not mod.name.startswith(mod_prefix) or '.resources.' in mod.name:
            continue
        q = (cls.name + '.' if cls else '') + fn.name
        seen = {}
        for node, bound, pred, what in filter_predicates(fn):
            k = (what, ast.unparse(pred)[:80])
            seen[k] = seen.get(k, 0) + 1
            ok = bool(_names(pred) & bound)
            chk.judge(ok, rid, mod.path, '%s: %s #%d' % (q, what, seen[k]),
                      'predicate %s mentions %s' % (ast.unparse(pred)[:100], sorted(bound)) if ok else
                      'predicate %s does not mention %s' % (ast.unparse(pred)[:100], sorted(bound)),
                      '%s: the %s `%s` does not depend on the element it filters (%s): it keeps or drops every element at '
                      'once, so correct entities vanish (or wrong ones survive) together'
                      % (q, what, ast.unparse(pred)[:100], ', '.join(sorted(bound))), node.lineno)
    ctl = ast.parse('def f(ers, bad):\n    for b in bad:\n        ers = [e for e in ers if not overlaps(b, bad)]\n    return ers\n').body[0]
    fired = any(not (_names(p) & bnd) for _, bnd, p, _ in filter_predicates(ctl))
    chk.control(rid, fired)


# ---------------------------------------------------------------------------------------------------------------
# regex group names read by the code exist in the patterns

import re as _re

_LANGS = ('english', 'spanish', 'french', 'portuguese', 'german', 'italian', 'dutch', 'chinese', 'japanese', 'korean',
          'turkish', 'hindi', 'arabic', 'swedish')

GROUP_EXEMPT = {
    # (package, group): reason - read by hand, re-validated: the exemption only applies while the name is undefined
    ('recognizers_date_time', 'heures'): "FrenchTimeParserConfiguration.adjust_by_suffix reads 'heures' where the pattern names "
                                         "the group 'oclock'; the .NET source has the same slip and the branch it guards only "
                                         "skips the am/pm adjustment, which is a no-op for an o'clock suffix",
}


def defined_groups(idx, R, pkg):
    """{language or 'base': set(group names)} over the generated resource classes of one package"""
    out = {}
    for m in idx.mods.values():
        if not m.name.startswith(pkg + '.resources.'):
            continue
        lang = m.name.rsplit('.', 1)[-1].split('_')[0]
        for c in m.classes.values():
            for k, v in R.values(c).items():
                texts = []
                if isinstance(v, str):
                    texts.append(v)
                elif hasattr(v, 'fill') and hasattr(v, 'params'):
                    try:
                        texts.append(v.fill(*(['X'] * len(v.params))))
                    except Exception:
                        pass
                for t in texts:
                    for g in _re.findall(r'\(\?P?<([A-Za-z_][A-Za-z0-9_]*)>', t):
                        out.setdefault(lang, set()).add(g)
    return out


def _constants(idx, pkg):
    consts = {}
    for m in idx.mods.values():
        if m.name.startswith(pkg + '.') and m.name.endswith('.constants'):
            for c in m.classes.values():
                for k, v in c.attrs.items():
                    if isinstance(v, ast.Constant) and isinstance(v.value, str):
                        consts[(c.name, k)] = v.value
    return consts


def rule_group_names(chk, idx, R, rid, pkg, module_filter=None, floor=1):
    """every group name the hand-written code reads from a match (get_group / group / captures / start / end with a
    literal or Constants.* name) is defined by at least one pattern of the package - of the module's own language (or a
    Base* class) for per-language modules.  A misspelt or renamed group silently reads as '' and the field decodes to
    nothing."""
    chk.rule(rid, 'regex group names read by the code are defined by the patterns of the package / language', floor=floor,
             control=True)
    defined = defined_groups(idx, R, pkg)
    if not defined:
        from .core import AnalysisError
        raise AnalysisError('no resource classes found for %s' % pkg)
    everything = set().union(*defined.values())
    consts = _constants(idx, pkg)
    for mod, cls, fn in idx.functions():
        if not mod.name.startswith(pkg + '.') or '.resources.' in mod.name:
            continue
        if module_filter is not None and not module_filter(mod.name):
            continue
        lang = next((l for l in _LANGS if ('.%s.' % l) in mod.name + '.'), None)
        pool = (defined.get(lang, set()) | defined.get('base', set())) if lang else everything
        q = (cls.name + '.' if cls else '') + fn.name
        seen = set()
        for n in ast.walk(fn):
            if not isinstance(n, ast.Call) or not isinstance(n.func, ast.Attribute):
                continue
            f = n.func
            arg = None
            if f.attr in ('get_group', 'get_group_list') and len(n.args) >= 2:
                arg = n.args[1]
            elif f.attr in ('group', 'captures') and len(n.args) == 1:
                arg = n.args[0]
            if arg is None:
                continue
            val = None
            if isinstance(arg, ast.Constant) and isinstance(arg.value, str):
                val = arg.value
            elif isinstance(arg, ast.Attribute) and isinstance(arg.value, ast.Name):
                val = consts.get((arg.value.id, arg.attr))
            if val is None or not _re.fullmatch(r'[A-Za-z_][A-Za-z0-9_]*', val) or (q, val) in seen:
                continue
            seen.add((q, val))
            construct = '%s reads group %r' % (q, val)
            if val in pool:
                chk.ok(rid, mod.path, construct, 'defined', n.lineno)
            elif (pkg, val) in GROUP_EXEMPT:
                chk.exempt(rid, mod.path, construct, GROUP_EXEMPT[(pkg, val)], 'undefined', n.lineno)
            else:
                chk.bad(rid, mod.path, construct, 'undefined in %s' % (lang or 'any language'),
                        '%s reads the regex group %r, which no pattern of %s defines: the read always yields the empty '
                        'string and the field it decodes is silently lost'
                        % (q, val, ('the %s resources' % lang) if lang else 'the package'), n.lineno)
    chk.control(rid, 'no_such_group_name' not in everything)


# ---------------------------------------------------------------------------------------------------------------
# index guards are tight

def _split_const(e):
    """expression -> (text of the non-constant part, integer offset); None when not base (+|-) int"""
    if isinstance(e, ast.BinOp) and isinstance(e.op, (ast.Add, ast.Sub)):
        if isinstance(e.right, ast.Constant) and isinstance(e.right.value, int) and not isinstance(e.right.value, bool):
            b = _split_const(e.left)
            if b:
                return b[0], b[1] + (e.right.value if isinstance(e.op, ast.Add) else -e.right.value)
        if isinstance(e.op, ast.Add) and isinstance(e.left, ast.Constant) and isinstance(e.left.value, int) \
                and not isinstance(e.left.value, bool):
            b = _split_const(e.right)
            if b:
                return b[0], b[1] + e.left.value
    if isinstance(e, ast.Constant) and isinstance(e.value, int) and not isinstance(e.value, bool):
        return '', e.value
    return ast.unparse(e), 0


def _len_side(e):
    """`len(S) + c` -> (text of S, c)"""
    sc = None
    if isinstance(e, ast.BinOp) and isinstance(e.op, (ast.Add, ast.Sub)) and isinstance(e.right, ast.Constant) \
            and isinstance(e.right.value, int):
        inner = _len_side(e.left)
        if inner:
            return inner[0], inner[1] + (e.right.value if isinstance(e.op, ast.Add) else -e.right.value)
    if isinstance(e, ast.Call) and isinstance(e.func, ast.Name) and e.func.id == 'len' and len(e.args) == 1:
        return ast.unparse(e.args[0]), 0
    return sc


def index_guards(fn):
    """yield (compare node, S, slack, [(subscript node, b0)]) for guards `base + a0 < len(S) + c` followed - in the same
    `and` chain or in the body they guard - by subscripts S[base + b0]; slack = c - a0 + b0 (0 = tight)"""
    for n in ast.walk(fn):
        scopes = []
        if isinstance(n, ast.BoolOp) and isinstance(n.op, ast.And):
            for i, v in enumerate(n.values):
                scopes.append((v, n.values[i + 1:]))
        # only the short-circuit idiom `i < len(S) and ... S[i] ...` is judged: a bound in a loop header or an enclosing
        # `if` is routinely stricter than the accesses below it for reasons of meaning (pairs, look-ahead), not bounds
        for cmp_, rest in scopes:
            if not (isinstance(cmp_, ast.Compare) and len(cmp_.ops) == 1):
                continue
            op = cmp_.ops[0]
            l, r = cmp_.left, cmp_.comparators[0]
            # normalise to  idx  <  len(S) + c
            if isinstance(op, ast.Lt):
                idx_e, len_e, adj = l, r, 0
            elif isinstance(op, ast.LtE):
                idx_e, len_e, adj = l, r, 1
            elif isinstance(op, ast.Gt):
                idx_e, len_e, adj = r, l, 0
            elif isinstance(op, ast.GtE):
                idx_e, len_e, adj = r, l, 1
            else:
                continue
            ls = _len_side(len_e)
            if not ls:
                continue
            S, c = ls
            c += adj
            base = _split_const(idx_e)
            if base is None or base[0] == '':
                continue
            subs = []
            for sc in rest:
                for m in ast.walk(sc):
                    if isinstance(m, ast.Subscript) and not isinstance(m.slice, ast.Slice) and ast.unparse(m.value) == S:
                        b = _split_const(m.slice)
                        if b and b[0] == base[0]:
                            subs.append((m, b[1]))
            if subs:
                yield cmp_, S, [(m, c - base[1] + b0) for m, b0 in subs]


def lower_guards(fn):
    """yield (compare node, slack, [(subscript node, offset)]) for lower-bound tests `base + a0 > c` / `>= c` (c an integer)
    that guard - in the same `and` chain or as the test of a conditional expression - subscripts X[base + b] with b < 0.
    slack = (smallest base admitted) + (most negative b): 0 = exactly the non-negative indices, > 0 = a valid position
    is never looked at, < 0 = a negative index (Python wraps around to the end) can be read"""
    for n in ast.walk(fn):
        scopes = []
        if isinstance(n, ast.BoolOp) and isinstance(n.op, ast.And):
            for i, v in enumerate(n.values):
                scopes.append((v, n.values[i + 1:]))
        if isinstance(n, ast.IfExp):
            tests = n.test.values if isinstance(n.test, ast.BoolOp) and isinstance(n.test.op, ast.And) else [n.test]
            for v in tests:
                scopes.append((v, [n.body]))
        for cmp_, rest in scopes:
            if not (isinstance(cmp_, ast.Compare) and len(cmp_.ops) == 1):
                continue
            op, l, r = cmp_.ops[0], cmp_.left, cmp_.comparators[0]
            if isinstance(op, (ast.Lt, ast.LtE)):       # c < base  ==  base > c
                op = ast.Gt() if isinstance(op, ast.Lt) else ast.GtE()
                l, r = r, l
            if not isinstance(op, (ast.Gt, ast.GtE)):
                continue
            c = _split_const(r)
            base = _split_const(l)
            if c is None or c[0] != '' or base is None or base[0] == '':
                continue
            least = c[1] - base[1] + (1 if isinstance(op, ast.Gt) else 0)
            subs = []
            for sc in rest:
                for m in ast.walk(sc):
                    if isinstance(m, ast.Subscript) and not isinstance(m.slice, ast.Slice):
                        b = _split_const(m.slice)
                        if b and b[0] == base[0] and b[1] < 0:
                            subs.append((m, b[1]))
            if subs:
                yield cmp_, least + min(b for _, b in subs), subs


def rule_index_guards(chk, idx, rid, mod_prefix, floor=1, exempt=None):
    """a bound test `i < len(S) (+c)` that guards an access S[i (+d)] admits exactly the valid positions: looser lets an
    IndexError happen (swallowed by the models - entities vanish), tighter silently skips the last position"""
    chk.rule(rid, 'index guards admit exactly the valid positions of the sequence they protect', floor=floor, control=True)
    for mod, cls, fn in idx.functions():
        if not mod.name.startswith(mod_prefix) or '.resources.' in mod.name:
            continue
        q = (cls.name + '.' if cls else '') + fn.name
        seen = {}
        for cmp_, S, subs in index_guards(fn):
            worst = max(subs, key=lambda x: x[1])       # the largest index reached decides
            key = ast.unparse(cmp_)
            seen[key] = seen.get(key, 0) + 1
            if seen[key] > 1:
                continue
            construct = '%s: guard `%s` for %s[...]' % (q, key, S)
            slack = worst[1]
            if slack_of(subs) == 0:
                chk.ok(rid, mod.path, construct, 'tight', cmp_.lineno)
            elif exempt and (q, key) in exempt:
                chk.exempt(rid, mod.path, construct, exempt[(q, key)], cmp_.lineno)
            else:
                chk.bad(rid, mod.path, construct, 'slack %+d for %s' % (slack, ast.unparse(worst[0])),
                        '%s: the bound test `%s` does not match the access %s it guards: %s' % (
                            q, key, ast.unparse(worst[0]),
                            'the last valid position is never looked at, so what stands there (e.g. a closing bracket at the '
                            'end of the input) is silently ignored' if slack < 0 else
                            'an index one past the end can be read; the IndexError is swallowed by the model and entities vanish'),
                        cmp_.lineno)
        seen_lo = set()
        for cmp_, slack, subs in lower_guards(fn):
            key = ast.unparse(cmp_)
            worst = min(subs, key=lambda x: x[1])
            construct = '%s: guard `%s` for %s' % (q, key, ast.unparse(worst[0]))
            if construct in seen_lo:
                continue
            seen_lo.add(construct)
            if slack == 0:
                chk.ok(rid, mod.path, construct, 'tight (lower bound)', cmp_.lineno)
            elif exempt and (q, key) in exempt:
                chk.exempt(rid, mod.path, construct, exempt[(q, key)], cmp_.lineno)
            else:
                chk.bad(rid, mod.path, construct, 'slack %+d (lower bound)' % slack,
                        '%s: the lower-bound test `%s` does not match the access %s it guards: %s' % (
                            q, key, ast.unparse(worst[0]),
                            'the first position it could look at is skipped (the character right after the start of the text '
                            'is never examined)' if slack > 0 else
                            'a negative index can be read, which in Python silently wraps around to the end of the sequence'),
                        cmp_.lineno)
    ctl = ast.parse('def f(source, m):\n    if m.end < len(source) - 1 and source[m.end] == ")":\n        return True\n').body[0]
    chk.control(rid, any(slack_of(subs) != 0 for _, _, subs in index_guards(ctl)))


def slack_of(subs):
    return max(s for _, s in subs)


# ---------------------------------------------------------------------------------------------------------------
# kind contradictions: a local that the function itself only ever binds to offsets (sums and differences of .start / .length /
# len() / match positions / integer literals) is an integer; one it only binds to pieces of text (slices and .strip() / .lower()
# of a str, .group(), string literals) is a string.  Using an integer local as a sized or subscripted thing, calling a string
# method on it, or adding it to a string raises TypeError whenever the statement is reached - and the date-time model answers
# an exception anywhere below it with an empty result for the whole query.  Inference is deliberately local and unanimous
# (every binding of the name must agree, parameters count only through an `int` / `str` annotation), so a flagged site is a
# contradiction inside one function, not a guess about a callee.

_INT_ATTR = {'start', 'length', 'end'}
_STR_PRODUCING = {'strip', 'lstrip', 'rstrip', 'lower', 'upper', 'casefold', 'replace', 'title', 'format', 'join'}
_STR_ONLY = _STR_PRODUCING | {'startswith', 'endswith', 'split', 'isspace', 'isdigit', 'isalpha', 'encode'}


def _ann_kind(a):
    if isinstance(a, ast.Name) and a.id in ('int', 'str'):
        return a.id
    return None


def _kind(e, env):
    if isinstance(e, ast.Constant):
        if isinstance(e.value, bool):
            return None
        if isinstance(e.value, int):
            return 'int'
        if isinstance(e.value, str):
            return 'str'
        return None
    if isinstance(e, ast.JoinedStr):
        return 'str'
    if isinstance(e, ast.Name):
        return env.get(e.id)
    if isinstance(e, ast.Attribute):
        return 'int' if e.attr in _INT_ATTR else None
    if isinstance(e, ast.BinOp):
        l, r = _kind(e.left, env), _kind(e.right, env)
        if isinstance(e.op, (ast.Add, ast.Sub, ast.Mult, ast.FloorDiv, ast.Mod)) and l == 'int' and r == 'int':
            return 'int'
        if isinstance(e.op, ast.Add) and l == 'str' and r == 'str':
            return 'str'
        return None
    if isinstance(e, ast.BoolOp) and isinstance(e.op, ast.Or):
        ks = {_kind(v, env) for v in e.values}
        return ks.pop() if len(ks) == 1 else None
    if isinstance(e, ast.IfExp):
        ks = {_kind(e.body, env), _kind(e.orelse, env)}
        return ks.pop() if len(ks) == 1 else None
    if isinstance(e, ast.Call):
        f = e.func
        if isinstance(f, ast.Name):
            if f.id == 'len':
                return 'int'
            if f.id == 'str':
                return 'str'
            return None
        if isinstance(f, ast.Attribute):
            recv = _kind(f.value, env)
            if f.attr in ('index', 'find', 'rfind', 'rindex', 'count') and recv == 'str':
                return 'int'
            if f.attr in _STR_PRODUCING and recv == 'str':
                return 'str'
        return None
    if isinstance(e, ast.Subscript) and _kind(e.value, env) == 'str':
        return 'str'
    return None


def local_kinds(fn):
    """{local name: 'int' | 'str'} where every binding of the name in fn agrees (see above)"""
    binds = {}

    def add(n, v):
        binds.setdefault(n, []).append(v)
    for x in ast.walk(fn):
        if isinstance(x, ast.Assign):
            for t in x.targets:
                if isinstance(t, ast.Name):
                    add(t.id, x.value)
                else:
                    for el in ast.walk(t):
                        if isinstance(el, ast.Name) and isinstance(el.ctx, ast.Store):
                            add(el.id, None)
        elif isinstance(x, ast.AnnAssign) and isinstance(x.target, ast.Name):
            add(x.target.id, x.value)
        elif isinstance(x, ast.AugAssign) and isinstance(x.target, ast.Name):
            add(x.target.id, ast.BinOp(left=ast.Name(id=x.target.id, ctx=ast.Load()), op=x.op, right=x.value))
        elif isinstance(x, ast.NamedExpr):
            add(x.target.id, x.value)
        elif isinstance(x, (ast.For, ast.AsyncFor, ast.comprehension)):
            for el in ast.walk(x.target):
                if isinstance(el, ast.Name):
                    add(el.id, None)
        elif isinstance(x, (ast.With, ast.AsyncWith)):
            for it in x.items:
                if it.optional_vars is not None:
                    for el in ast.walk(it.optional_vars):
                        if isinstance(el, ast.Name):
                            add(el.id, None)
        elif isinstance(x, ast.ExceptHandler) and x.name:
            add(x.name, None)
        elif isinstance(x, (ast.Global, ast.Nonlocal)):
            for n in x.names:
                add(n, None)
        elif isinstance(x, (ast.FunctionDef, ast.AsyncFunctionDef, ast.Lambda)) and x is not fn:
            for a in ast.walk(x.args):
                if isinstance(a, ast.arg):
                    add(a.arg, None)
        elif isinstance(x, (ast.Import, ast.ImportFrom)):
            for a in x.names:
                add((a.asname or a.name).split('.')[0], None)
    env = {}
    for a in list(fn.args.posonlyargs) + list(fn.args.args) + list(fn.args.kwonlyargs):
        k = _ann_kind(a.annotation)
        if k and a.arg not in binds:
            env[a.arg] = k
        elif a.arg not in binds:
            binds[a.arg] = [None]
        else:
            binds[a.arg].append(None)
    for a in (fn.args.vararg, fn.args.kwarg):
        if a is not None:
            binds.setdefault(a.arg, []).append(None)
    changed = True
    while changed:
        changed = False
        for n, vs in binds.items():
            if n in env or any(v is None for v in vs):
                continue
            for K in ('int', 'str'):
                env2 = dict(env)
                env2[n] = K
                if all(_kind(v, env2) == K for v in vs) and any(_kind(v, env) == K for v in vs):
                    env[n] = K
                    changed = True
                    break
    return env


def kind_uses(fn):
    """[(node, name, kind, use, ok)] for the uses of kinded locals that only one kind supports"""
    env = local_kinds(fn)
    out = []
    if not env:
        return out
    for x in ast.walk(fn):
        if isinstance(x, ast.Call) and isinstance(x.func, ast.Name) and x.func.id == 'len' and len(x.args) == 1 \
                and isinstance(x.args[0], ast.Name) and x.args[0].id in env:
            k = env[x.args[0].id]
            out.append((x, x.args[0].id, k, 'len()', k == 'str'))
        elif isinstance(x, ast.Subscript) and isinstance(x.value, ast.Name) and x.value.id in env and isinstance(x.ctx, ast.Load):
            k = env[x.value.id]
            out.append((x, x.value.id, k, 'subscript', k == 'str'))
        elif isinstance(x, ast.Attribute) and isinstance(x.value, ast.Name) and x.value.id in env and x.attr in _STR_ONLY:
            k = env[x.value.id]
            out.append((x, x.value.id, k, '.%s' % x.attr, k == 'str'))
        elif isinstance(x, ast.BinOp) and isinstance(x.op, (ast.Add, ast.Sub)):
            l, r = _kind(x.left, env), _kind(x.right, env)
            if l and r and (isinstance(x.left, ast.Name) or isinstance(x.right, ast.Name)):
                nm = x.left.id if isinstance(x.left, ast.Name) else x.right.id
                if isinstance(x.op, ast.Sub):
                    out.append((x, nm, '%s-%s' % (l, r), 'difference', l == 'int' and r == 'int'))
                else:
                    out.append((x, nm, '%s+%s' % (l, r), 'sum', l == r))
        elif isinstance(x, ast.Subscript) and isinstance(x.slice, ast.Slice):
            for b in (x.slice.lower, x.slice.upper):
                if isinstance(b, ast.Name) and b.id in env:
                    out.append((x, b.id, env[b.id], 'slice bound', env[b.id] == 'int'))
    return out


KIND_CONTROL = '''
def f(self, source: str, ers, i, j):
    middle_begin = ers[i].start + ers[i].length
    middle_end = ers[j].start
    middle_str = source[middle_begin:middle_end].strip()
    return middle_str[0:len(middle_end)]
'''


def rule_kind_contradictions(chk, idx, rid, mod_prefix, floor=1):
    chk.rule(rid, 'a local the function only ever binds to offsets is not used as a sized / subscripted / text value, and a '
                  'local it only binds to text is not used as an offset (either raises TypeError when reached, which the model '
                  'answers with an empty result for the whole query)', floor=floor, control=True)
    ctl = kind_uses(ast.parse(KIND_CONTROL).body[0])
    chk.control(rid, any(not ok and use == 'len()' and name == 'middle_end' for _, name, _, use, ok in ctl)
                and any(ok and name == 'middle_str' for _, name, _, use, ok in ctl))
    for mod, cls, fn in idx.functions():
        if not mod.name.startswith(mod_prefix) or '.resources.' in mod.name:
            continue
        q = (cls.name + '.' if cls else '') + fn.name
        agg = {}
        for node, name, kind, use, ok in kind_uses(fn):
            agg.setdefault((name, kind, use, ok), []).append(node)
        for (name, kind, use, ok), nodes in sorted(agg.items(), key=lambda kv: (kv[0][0], kv[0][2], kv[0][3])):
            chk.consulted(mod.path)
            chk.judge(ok, rid, mod.path, '%s::%s' % (q, name), '%s of %s local%s' % (use, kind, '' if ok else ' (contradiction)'),
                      '%s: `%s` is only ever bound to %s values in this function, yet line %d uses it as `%s` - that raises '
                      'TypeError whenever the statement is reached' % (q, name, 'offset (int)' if kind.startswith('int') else kind,
                                                                      nodes[0].lineno, ast.unparse(nodes[0])[:80]),
                      nodes[0].lineno)
