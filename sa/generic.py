"""Cross-cutting deviant-behaviour rules (Engler-style: every instance on the pinned tree obeys them, a site that
does not is a contradiction with the established idiom).  Each is a necessary condition for "an entity the
extractors found is not silently dropped / duplicated", which every recognition property presupposes."""
import ast


def _names(e):
    return {n.id for n in ast.walk(e) if isinstance(n, ast.Name)}


def filter_predicates(fn):
    """yield (node, bound names, predicate expr, description) for every element filter in fn:
    comprehension `if`, filter(lambda x: ..., xs), next((x for x in xs if ...), default)"""
    for n in ast.walk(fn):
        if isinstance(n, (ast.ListComp, ast.GeneratorExp, ast.SetComp, ast.DictComp)):
            for g in n.generators:
                tv = _names(g.target)
                for c in g.ifs:
                    yield n, tv, c, 'comprehension filter'
        elif isinstance(n, ast.Call) and isinstance(n.func, ast.Name) and n.func.id == 'filter' and n.args \
                and isinstance(n.args[0], ast.Lambda):
            lam = n.args[0]
            yield n, {a.arg for a in lam.args.args}, lam.body, 'filter(lambda ...)'


def rule_filter_predicates(chk, idx, rid, mod_prefix, floor=1):
    """every filter predicate over extraction results depends on the element it filters.  A predicate that does not
    mention its own element keeps or drops *all* elements at once - the refactoring slip of using an outer loop
    variable inside a comprehension"""
    chk.rule(rid, 'every filter predicate (comprehension if / filter lambda) depends on the element it filters', floor=floor,
             control=True)
    for mod, cls, fn in idx.functions():
        if not mod.name.startswith(mod_prefix) or '.resources.' in mod.name:
            continue
        q = (cls.name + '.' if cls else '') + fn.name
        seen = {}
        for node, bound, pred, what in filter_predicates(fn):
            k = (what, ast.unparse(pred)[:80])
            seen[k] = seen.get(k, 0) + 1
            ok = bool(_names(pred) & bound)
            chk.judge(ok, rid, mod.path, '%s: %s #%d' % (q, what, seen[k]),
                      'predicate %s mentions %s' % (ast.unparse(pred)[:100], sorted(bound)) if ok else
                      'predicate %s does not mention %s' % (ast.unparse(pred)[:100], sorted(bound)),
                      '%s: the %s `%s` does not depend on the element it filters (%s): it keeps or drops every element at '
                      'once, so correct entities vanish (or wrong ones survive) together'
                      % (q, what, ast.unparse(pred)[:100], ', '.join(sorted(bound))), node.lineno)
    ctl = ast.parse('def f(ers, bad):\n    for b in bad:\n        ers = [e for e in ers if not overlaps(b, bad)]\n    return ers\n').body[0]
    fired = any(not (_names(p) & bnd) for _, bnd, p, _ in filter_predicates(ctl))
    chk.control(rid, fired)


# ---------------------------------------------------------------------------------------------------------------
# regex group names read by the code exist in the patterns

import re as _re

_LANGS = ('english', 'spanish', 'french', 'portuguese', 'german', 'italian', 'dutch', 'chinese', 'japanese', 'korean',
          'turkish', 'hindi', 'arabic', 'swedish')

GROUP_EXEMPT = {
    # (package, group): reason - read by hand, re-validated: the exemption only applies while the name is undefined
    ('recognizers_date_time', 'heures'): "FrenchTimeParserConfiguration.adjust_by_suffix reads 'heures' where the pattern names "
                                         "the group 'oclock'; the .NET source has the same slip and the branch it guards only "
                                         "skips the am/pm adjustment, which is a no-op for an o'clock suffix",
}


def defined_groups(idx, R, pkg):
    """{language or 'base': set(group names)} over the generated resource classes of one package"""
    out = {}
    for m in idx.mods.values():
        if not m.name.startswith(pkg + '.resources.'):
            continue
        lang = m.name.rsplit('.', 1)[-1].split('_')[0]
        for c in m.classes.values():
            for k, v in R.values(c).items():
                texts = []
                if isinstance(v, str):
                    texts.append(v)
                elif hasattr(v, 'fill') and hasattr(v, 'params'):
                    try:
                        texts.append(v.fill(*(['X'] * len(v.params))))
                    except Exception:
                        pass
                for t in texts:
                    for g in _re.findall(r'\(\?P?<([A-Za-z_][A-Za-z0-9_]*)>', t):
                        out.setdefault(lang, set()).add(g)
    return out


def _constants(idx, pkg):
    consts = {}
    for m in idx.mods.values():
        if m.name.startswith(pkg + '.') and m.name.endswith('.constants'):
            for c in m.classes.values():
                for k, v in c.attrs.items():
                    if isinstance(v, ast.Constant) and isinstance(v.value, str):
                        consts[(c.name, k)] = v.value
    return consts


def rule_group_names(chk, idx, R, rid, pkg, module_filter=None, floor=1):
    """every group name the hand-written code reads from a match (get_group / group / captures / start / end with a
    literal or Constants.* name) is defined by at least one pattern of the package - of the module's own language (or a
    Base* class) for per-language modules.  A misspelt or renamed group silently reads as '' and the field decodes to
    nothing."""
    chk.rule(rid, 'regex group names read by the code are defined by the patterns of the package / language', floor=floor,
             control=True)
    defined = defined_groups(idx, R, pkg)
    if not defined:
        from .core import AnalysisError
        raise AnalysisError('no resource classes found for %s' % pkg)
    everything = set().union(*defined.values())
    consts = _constants(idx, pkg)
    for mod, cls, fn in idx.functions():
        if not mod.name.startswith(pkg + '.') or '.resources.' in mod.name:
            continue
        if module_filter is not None and not module_filter(mod.name):
            continue
        lang = next((l for l in _LANGS if ('.%s.' % l) in mod.name + '.'), None)
        pool = (defined.get(lang, set()) | defined.get('base', set())) if lang else everything
        q = (cls.name + '.' if cls else '') + fn.name
        seen = set()
        for n in ast.walk(fn):
            if not isinstance(n, ast.Call) or not isinstance(n.func, ast.Attribute):
                continue
            f = n.func
            arg = None
            if f.attr in ('get_group', 'get_group_list') and len(n.args) >= 2:
                arg = n.args[1]
            elif f.attr in ('group', 'captures') and len(n.args) == 1:
                arg = n.args[0]
            if arg is None:
                continue
            val = None
            if isinstance(arg, ast.Constant) and isinstance(arg.value, str):
                val = arg.value
            elif isinstance(arg, ast.Attribute) and isinstance(arg.value, ast.Name):
                val = consts.get((arg.value.id, arg.attr))
            if val is None or not _re.fullmatch(r'[A-Za-z_][A-Za-z0-9_]*', val) or (q, val) in seen:
                continue
            seen.add((q, val))
            construct = '%s reads group %r' % (q, val)
            if val in pool:
                chk.ok(rid, mod.path, construct, 'defined', n.lineno)
            elif (pkg, val) in GROUP_EXEMPT:
                chk.exempt(rid, mod.path, construct, GROUP_EXEMPT[(pkg, val)], 'undefined', n.lineno)
            else:
                chk.bad(rid, mod.path, construct, 'undefined in %s' % (lang or 'any language'),
                        '%s reads the regex group %r, which no pattern of %s defines: the read always yields the empty '
                        'string and the field it decodes is silently lost'
                        % (q, val, ('the %s resources' % lang) if lang else 'the package'), n.lineno)
    chk.control(rid, 'no_such_group_name' not in everything)
