"""C05 - every listed unit spelling maps to its canonical unit (table agreement, wiring, currency code tables).

Everything is evaluated from the resource constants (sa.consteval.Resources) and from the ASTs of the
configuration classes' __init__ / property bodies, replayed along the MRO (super().__init__ chains).
Nothing under the repository is imported or executed.
"""
import ast
import copy
import re

from ..consteval import Resources
from ..core import AnalysisError, rel
from ..index import get_index

LEVEL = 'other'
DESIGN_REF = 'DESIGN.md#c05'

NWU = 'recognizers_number_with_unit.number_with_unit'
OPAQUE = object()      # value the evaluator does not model (extractor objects, culture infos, ...)
MISSING = object()     # read of a resource attribute that does not exist


# ======================================================================================================
# symbolic values and expression evaluation
# ======================================================================================================

class Val:
    """value: python object | OPAQUE | MISSING; prov: [(resource class qual, attr)] leaves the value was read from;
    parts: for {**A, **B} merges the ordered (Val) operands"""
    __slots__ = ('value', 'prov', 'parts', 'line', 'path', 'fresh', 'origin')

    def __init__(self, value, prov=(), parts=None, line=None, path=None):
        self.fresh = None        # True: object created for this instance; False: shared object; None: not determined
        self.origin = ''
        self.value = value
        self.prov = list(prov)
        self.parts = parts
        self.line = line
        self.path = path

    @property
    def known(self):
        return self.value is not OPAQUE and self.value is not MISSING


def is_resource_class(c):
    return 'resources' in c.mod.name.split('.')


class Ctx:
    """evaluation context: module for name resolution, instance state, locals of the running method"""

    def __init__(self, an, mod, state, local=None):
        self.an = an
        self.mod = mod
        self.state = state
        self.local = local if local is not None else {}


def ev(node, cx):
    """evaluate an expression of a configuration class to a Val (never raises for unmodelled shapes: OPAQUE)"""
    an = cx.an
    line = getattr(node, 'lineno', None)
    if isinstance(node, ast.Constant):
        return Val(node.value, line=line)
    if isinstance(node, ast.Name):
        if node.id in cx.local:
            return cx.local[node.id]
        return Val(OPAQUE, line=line)
    if isinstance(node, ast.Attribute) and isinstance(node.value, ast.Name):
        base = node.value.id
        if base == 'self':
            v = cx.state.attrs.get(node.attr)
            if v is None:
                # a property of the same object, or a class-level attribute
                pv = an.prop(cx.state.cls, node.attr, cx.state)
                return pv if pv is not None else Val(OPAQUE, line=line)
            return v
        if base in cx.local:
            return Val(OPAQUE, line=line)
        r = an.idx.resolve(cx.mod, base)
        if r and r[0] == 'class':
            k = r[1]
            if is_resource_class(k):
                vals = an.R.values(k)
                if node.attr not in vals:
                    return Val(MISSING, [(k.qual, node.attr)], line=line, path=cx.mod.path)
                return Val(vals[node.attr], [(k.qual, node.attr)], line=line, path=cx.mod.path)
            kk, anode = an.idx.class_attr(k, node.attr)
            if anode is not None:
                return ev(anode, Ctx(an, kk.mod, cx.state))
        return Val(OPAQUE, line=line)
    if isinstance(node, ast.Call):
        f = node.func
        fname = f.id if isinstance(f, ast.Name) else (f.attr if isinstance(f, ast.Attribute) else None)
        if fname in ('dict', 'list') and not node.keywords:
            if not node.args:
                return Val({} if fname == 'dict' else [], line=line)
            if len(node.args) == 1:
                a = ev(node.args[0], cx)
                if a.known and isinstance(a.value, (dict, list)):
                    return Val(dict(a.value) if fname == 'dict' and isinstance(a.value, dict) else
                               (list(a.value) if fname == 'list' else a.value), a.prov, a.parts, line, a.path)
            return Val(OPAQUE, line=line)
        if _self_attr(f) and not node.args and not node.keywords:
            # argument-less helper of the same object with a single return
            kk, hfn = an.idx.find_method(cx.state.cls, f.attr)
            rets = [r for r in ast.walk(hfn) if isinstance(r, ast.Return)] if isinstance(hfn, ast.FunctionDef) else []
            if len(rets) == 1 and rets[0].value is not None and not isinstance(rets[0].value, ast.Call):
                return ev(rets[0].value, Ctx(an, kk.mod, cx.state))
            if len(rets) == 1 and isinstance(rets[0].value, ast.Call) and not _self_attr(rets[0].value.func):
                return ev(rets[0].value, Ctx(an, kk.mod, cx.state))
            return Val(OPAQUE, line=line)
        if fname in ('get_safe_reg_exp', 'load_ambiguity_filters') and node.args:
            a = ev(node.args[0], cx)
            return Val(a.value, a.prov, None, line, a.path)
        return Val(OPAQUE, line=line)
    if isinstance(node, ast.Dict):
        if node.keys and all(k is None for k in node.keys):
            parts = [ev(v, cx) for v in node.values]
            if all(p.known and isinstance(p.value, dict) for p in parts):
                merged = {}
                for p in parts:
                    merged.update(p.value)
                return Val(merged, [x for p in parts for x in p.prov], parts, line)
            if any(p.value is MISSING for p in parts):
                return Val(MISSING, [x for p in parts for x in p.prov if p.value is MISSING], parts, line)
            return Val(OPAQUE, line=line)
        if not node.keys:
            return Val({}, line=line)
        return Val(OPAQUE, line=line)
    if isinstance(node, (ast.List, ast.Tuple)):
        el = [ev(e, cx) for e in node.elts]
        if all(e.known for e in el):
            return Val([e.value for e in el], [x for e in el for x in e.prov], None, line)
        return Val(OPAQUE, line=line)
    if isinstance(node, ast.BinOp) and isinstance(node.op, ast.Add):
        a, b = ev(node.left, cx), ev(node.right, cx)
        if a.value is MISSING or b.value is MISSING:
            return Val(MISSING, [x for p in (a, b) for x in p.prov if p.value is MISSING], None, line)
        if a.known and b.known and type(a.value) is type(b.value) and isinstance(a.value, (list, str)):
            return Val(a.value + b.value, a.prov + b.prov, None, line)
        return Val(OPAQUE, line=line)
    return Val(OPAQUE, line=line)


# ======================================================================================================
# configuration classes: replay of __init__ along the MRO
# ======================================================================================================

class State:
    def __init__(self, cls):
        self.cls = cls
        self.attrs = {}          # self.X -> Val
        self.unit_calls = []     # [(Val, line, path)] add_dict_to_unit_map replay, in execution order
        self.unit_targets = []   # the Val held by the bound-into attribute at each of those calls (None: not set per instance)


def _is_super_init(call):
    f = call.func
    return (isinstance(f, ast.Attribute) and f.attr == '__init__' and isinstance(f.value, ast.Call)
            and isinstance(f.value.func, ast.Name) and f.value.func.id == 'super')


def _self_attr(node):
    return isinstance(node, ast.Attribute) and isinstance(node.value, ast.Name) and node.value.id == 'self'


def _touches_self_state(st):
    for n in ast.walk(st):
        if isinstance(n, (ast.Assign, ast.AnnAssign, ast.AugAssign)):
            tg = n.targets if isinstance(n, ast.Assign) else [n.target]
            if any(_self_attr(t) for t in tg):
                return True
        if isinstance(n, ast.Call) and _self_attr(n.func):
            return True
    return False


class Analysis:
    def __init__(self, idx):
        self.idx = idx
        self.R = Resources(idx)
        self._states = {}

    # ---- instance state
    def state(self, cls):
        if cls.qual not in self._states:
            st = State(cls)
            self._states[cls.qual] = st
            self._run_init(st, self.idx.mro(cls), 0)
        return self._states[cls.qual]

    def _run_init(self, st, mro, start):
        for i in range(start, len(mro)):
            k = mro[i]
            fn = k.methods.get('__init__')
            if fn is None:
                continue
            cx = Ctx(self, k.mod, st, {})
            for s in fn.body:
                self._stmt(s, cx, st, mro, i, k)
            return

    def _stmt(self, s, cx, st, mro, i, k, depth=0):
        where = '%s:%d %s.__init__' % (k.mod.rel, s.lineno, k.name)
        if isinstance(s, ast.Expr) and isinstance(s.value, ast.Constant):
            return
        if isinstance(s, ast.Pass):
            return
        if isinstance(s, ast.Expr) and isinstance(s.value, ast.Call):
            c = s.value
            if _is_super_init(c):
                self._run_init(st, mro, i + 1)
                return
            if _self_attr(c.func):
                if c.func.attr == 'add_dict_to_unit_map' and len(c.args) == 1 and not c.keywords:
                    st.unit_calls.append((ev(c.args[0], cx), s.lineno, k.mod.path))
                    st.unit_targets.append(st.attrs.get(self.map_attr))
                    return
                kk, hfn = self.idx.find_method(st.cls, c.func.attr)
                if hfn is not None and isinstance(hfn, ast.FunctionDef) and depth < 4 and not hfn.args.vararg and not hfn.args.kwarg:
                    # a helper of the same object called from the constructor: replay its body
                    names = [a.arg for a in hfn.args.args][1:]
                    loc = {}
                    for nm, a in zip(names, c.args):
                        loc[nm] = ev(a, cx)
                    for kw in c.keywords:
                        if kw.arg:
                            loc[kw.arg] = ev(kw.value, cx)
                    hcx = Ctx(self, kk.mod, st, loc)
                    for hs in hfn.body:
                        if isinstance(hs, ast.Return):
                            break
                        if isinstance(hs, ast.Expr) and isinstance(hs.value, ast.Call) and _is_super_init(hs.value):
                            raise AnalysisError('%s: helper %s calls super().__init__' % (where, c.func.attr))
                        self._stmt(hs, hcx, st, mro, i, kk, depth + 1)
                    return
                raise AnalysisError('%s: call self.%s(...) in a configuration constructor is not modelled' % (where, c.func.attr))
            if _touches_self_state(s):
                raise AnalysisError('%s: statement writes configuration state in a shape the replay does not model' % where)
            return
        if isinstance(s, (ast.Assign, ast.AnnAssign)):
            targets = s.targets if isinstance(s, ast.Assign) else [s.target]
            if s.value is None:
                return
            v = ev(s.value, cx)
            fresh, origin = self.freshness(s.value, cx, st)
            for t in targets:
                if _self_attr(t):
                    vv = Val(v.value, v.prov, v.parts, s.lineno, k.mod.path)
                    vv.fresh, vv.origin = fresh, origin
                    st.attrs[t.attr] = vv
                elif isinstance(t, ast.Name):
                    v = Val(v.value, v.prov, v.parts, v.line, v.path)
                    v.fresh, v.origin = fresh, origin
                    cx.local[t.id] = v
                else:
                    raise AnalysisError('%s: assignment target not modelled (%s)' % (where, ast.unparse(t)))
            return
        if isinstance(s, ast.If):
            if _touches_self_state(s):
                raise AnalysisError('%s: conditional wiring of configuration state is not modelled' % where)
            return          # e.g. "if culture_info is None: culture_info = CultureInfo(...)"
        if _touches_self_state(s):
            raise AnalysisError('%s: %s writes configuration state in a shape the replay does not model'
                                % (where, type(s).__name__))

    map_attr = 'unit_map'     # attribute add_dict_to_unit_map binds into (re-read from its AST by check_mechanisms)

    def freshness(self, node, cx, st, depth=0):
        """is the object this expression yields created for this configuration instance (True), an object shared by
        several instances (False), or undetermined (None)?  + a description of where it lives"""
        if isinstance(node, ast.Constant):
            return True, 'constant'
        if isinstance(node, (ast.Dict, ast.DictComp, ast.List, ast.ListComp, ast.Set, ast.SetComp)):
            return True, 'literal'
        if isinstance(node, ast.Call):
            f = node.func
            if isinstance(f, ast.Name) and f.id in ('dict', 'list', 'set', 'OrderedDict', 'defaultdict', 'deepcopy'):
                return True, f.id + '()'
            if isinstance(f, ast.Attribute) and f.attr in ('copy', 'deepcopy'):
                return True, 'copy'
            if _self_attr(f) and depth < 4:
                kk, hfn = self.idx.find_method(st.cls, f.attr)
                rets = [r for r in ast.walk(hfn) if isinstance(r, ast.Return)] if hfn is not None else []
                if len(rets) == 1 and rets[0].value is not None:
                    return self.freshness(rets[0].value, Ctx(self, kk.mod, st), st, depth + 1)
            return None, 'result of ' + ast.unparse(f)
        if isinstance(node, ast.Name):
            if node.id in cx.local:
                return cx.local[node.id].fresh, cx.local[node.id].origin
            r = self.idx.resolve(cx.mod, node.id)
            if r and r[0] == 'const':
                return False, 'module-level object %s.%s' % (r[1].name, node.id)
            return None, 'name ' + node.id
        if isinstance(node, ast.Attribute) and isinstance(node.value, ast.Name):
            if node.value.id == 'self':
                v = st.attrs.get(node.attr)
                if v is not None:
                    return v.fresh, v.origin
                kk, anode = self.idx.class_attr(st.cls, node.attr)
                if anode is not None:
                    return False, 'class-level attribute %s.%s' % (kk.name, node.attr)
                return None, ast.unparse(node)
            r = self.idx.resolve(cx.mod, node.value.id)
            if r and r[0] == 'class':
                return False, 'class-level object %s.%s' % (r[1].name, node.attr)
        return None, ast.unparse(node)[:60]

    def attr(self, cls, name, st=None):
        """what `config.<name>` yields: the per-instance value the constructors stored, else the class-level attribute"""
        st = st or self.state(cls)
        v = st.attrs.get(name)
        if v is not None:
            return v
        kk, anode = self.idx.class_attr(cls, name)
        if anode is None:
            return None
        v = ev(anode, Ctx(self, kk.mod, st))
        vv = Val(v.value, v.prov, v.parts, getattr(anode, 'lineno', None), kk.mod.path)
        vv.fresh = False
        vv.origin = 'class-level attribute %s.%s = %s' % (kk.name, name, ast.unparse(anode)[:40])
        return vv

    # ---- properties / attributes as the base code reads them (config.<name>)
    def prop(self, cls, name, st=None):
        st = st or self.state(cls)
        k, fn = self.idx.find_method(cls, name)
        if fn is None:
            return self.attr(cls, name, st)
        body = [b for b in fn.body if not (isinstance(b, ast.Expr) and isinstance(b.value, ast.Constant))]
        if len(body) == 1 and isinstance(body[0], ast.Return):
            if body[0].value is None:
                return Val(None, line=fn.lineno, path=k.mod.path)
            v = ev(body[0].value, Ctx(self, k.mod, st))
            if v.path is None:
                v = Val(v.value, v.prov, v.parts, v.line or fn.lineno, k.mod.path)
            return v
        if len(body) == 1 and isinstance(body[0], (ast.Raise, ast.Pass)):
            return Val(MISSING if isinstance(body[0], ast.Raise) else None, line=fn.lineno, path=k.mod.path)
        raise AnalysisError('%s:%d %s.%s: property body is not a single return' % (k.mod.rel, fn.lineno, k.name, name))


# ======================================================================================================
# pure detectors (also run on embedded violating inputs as positive controls)
# ======================================================================================================

def split_spellings(s):
    """what both bind_units_string and _build_matcher_from_set do with a table value"""
    return [t for t in str(s).strip().split('|') if t]


_CASE_METHODS = {'lower': str.lower, 'upper': str.upper, 'casefold': str.casefold}
_STRIP_METHODS = {'strip': str.strip, 'lstrip': str.lstrip, 'rstrip': str.rstrip}


class BindTf:
    """the string transformations bind_dictionary / bind_units_string apply before a spelling becomes a key of the map:
    value: on the whole 'a|b|c' value (bind_dictionary argument + the chain before .split('|')); token: on each token
    (subscript of the store); key: on the unit name.  Only argument-less case/strip methods are understood."""

    def __init__(self, value=('strip',), token=(), key=()):
        self.value, self.token, self.key = list(value), list(token), list(key)

    @staticmethod
    def _apply(s, names, only=None):
        for n in names:
            f = _CASE_METHODS.get(n) or _STRIP_METHODS.get(n)
            if only is not None and n not in only:
                continue
            s = f(s)
        return s

    def bkey(self, tok):
        """map key under which the listed spelling `tok` is bound"""
        return self._apply(self._apply(tok, self.value, _CASE_METHODS), self.token)

    def unit(self, u):
        return self._apply(u, self.key)

    def describe(self):
        return 'value%s token%s unit-name%s' % tuple(''.join('.%s()' % n for n in x) or ' as is' for x in (self.value, self.token, self.key))


PINNED_TF = BindTf()


PINNED_HYP = {'value_case': None, 'value_strip': True, 'token_case': None, 'token_strip': False, 'key_case': None,
              'first_wins': True, 'empty_token': False, 'empty_key': False}

BIND_TABLES = (
    [{'U1': 'a|b', 'U2': 'b|c'}],                       # a spelling listed under two units of one table
    [{'A': 't|u'}, {'B': 't|v'}],                       # ... of two tables bound one after the other
    [{'': 'x|y', 'U': 'a||b'}],                         # empty unit name; empty spelling inside a value
    [{'U': ''}, {'V': '|a'}, {'W': 'a|'}],              # empty value; empty spelling at either end
    [{'U': ' a|b '}, {'V': 'a |b'}],                    # blanks at the ends of the value / inside it
    [{'Ub': 'Gb|gb'}, {'UB': 'GB|gB'}],                 # spellings that differ by case only
    [{'Key Name': 'x'}],                                # unit name with capitals and a blank
    [{}],                                               # empty table
    [{'U': 'a'}, {'U': 'b|a'}, {'V': 'c'}],             # same unit in two tables; insertion order
)


def predict_binding(tables, h):
    """the map (ordered pairs) a hypothesis about the helpers' semantics yields for a sequence of tables"""
    m = {}
    cm = {None: (lambda x: x), 'lower': str.lower, 'upper': str.upper}
    for tab in tables:
        for key, value in tab.items():
            if not key and not h['empty_key']:
                continue
            k = cm[h['key_case']](key)
            v = cm[h['value_case']](value)
            if h['value_strip']:
                v = v.strip()
            for tok in v.split('|'):
                tok = cm[h['token_case']](tok)
                if h['token_strip']:
                    tok = tok.strip()
                if not tok and not h['empty_token']:
                    continue
                if tok in m and h['first_wins']:
                    continue
                m[tok] = k
    return list(m.items())


def hyp_tf(h):
    return BindTf(([h['value_case']] if h['value_case'] else []) + (['strip'] if h['value_strip'] else []),
                  ([h['token_case']] if h['token_case'] else []) + (['strip'] if h['token_strip'] else []),
                  [h['key_case']] if h['key_case'] else [])


def fit_binding(observe, extra=()):
    """observe(tables) -> ordered pairs.  Returns (hypothesis that reproduces every observation | pinned, differences from
    the PINNED semantics [(tables, got, want)], n)"""
    import itertools
    obs = [(t, observe(t)) for t in list(BIND_TABLES) + list(extra)]
    diffs = [(t, o, predict_binding(t, PINNED_HYP)) for t, o in obs if o != predict_binding(t, PINNED_HYP)]
    if not diffs:
        return dict(PINNED_HYP, _matched=True), [], len(obs)
    keys = ['value_case', 'value_strip', 'token_case', 'token_strip', 'key_case', 'first_wins', 'empty_token', 'empty_key']
    dom = {'value_case': (None, 'lower', 'upper'), 'token_case': (None, 'lower', 'upper'), 'key_case': (None, 'lower', 'upper')}
    cands = []
    for combo in itertools.product(*[dom.get(k, (PINNED_HYP[k], not PINNED_HYP[k])) for k in keys]):
        h = dict(zip(keys, combo))
        if all(predict_binding(t, h) == o for t, o in obs):
            cands.append(h)
    if cands:
        best = min(cands, key=lambda h: sum(1 for k in keys if h[k] != PINNED_HYP[k]))
        return dict(best, _matched=True), diffs, len(obs)
    return dict(PINNED_HYP, _matched=False), diffs, len(obs)


def tabulate_binding(idx, cls, fn, map_attr, extra=()):
    """interpret add_dict_to_unit_map (and whatever it calls) with sa/ointerp.py on the BIND_TABLES sequences"""
    from ..ointerp import Interp, FuncRef, Obj, PyExc
    it = Interp(idx, where='C05.bind', budget=400000)

    def observe(tables):
        it.budget = 400000
        o = Obj(cls, {map_attr: {}})
        try:
            for t in tables:
                it.call_function(FuncRef(cls.mod, fn, cls), [{k: (k, v) for k, v in t.items()}], {}, None, selfobj=o)
        except PyExc as ex:
            return [('<raises>', str(ex))]
        m = o.attrs.get(map_attr)
        if not isinstance(m, dict):
            raise AnalysisError('C05.bind: self.%s is not a dict after add_dict_to_unit_map' % map_attr)
        return [kv for kv in m.values()]       # ointerp dicts hold key -> (key, value), in insertion order
    return fit_binding(observe, extra)


def str_chain(e, roots):
    """x.m1().m2() over a root name in `roots` -> (root, [m1, m2]); None when e is anything else"""
    names = []
    while isinstance(e, ast.Call) and isinstance(e.func, ast.Attribute) and not e.args and not e.keywords:
        names.append(e.func.attr)
        e = e.func.value
    if isinstance(e, ast.Name) and e.id in roots:
        return e.id, names[::-1]
    return None


def replay_unit_map(tables, first_wins=True, tf=None):
    """tables: ordered [(table name, {unit: 'a|b|c'})] -> (unit_map, bound_by, shadows); keys of both maps are the
    BOUND keys (tf.bkey(spelling)); shadows: [(listed spelling, listed-under unit, table, bound unit, binding table)]"""
    tf = tf or PINNED_TF
    um, by, shadows = {}, {}, []
    for tname, tab in tables:
        for unit, forms in tab.items():
            if not unit:
                continue
            ub = tf.unit(unit)
            for tok in split_spellings(forms):
                k = tf.bkey(tok)
                if not k:
                    continue
                if k in um:
                    if um[k] != ub:
                        shadows.append((tok, unit, tname, um[k], by[k]))
                        if not first_wins:
                            um[k], by[k] = ub, tname
                    continue
                um[k], by[k] = ub, tname
    return um, by, shadows


def merge_collisions(parts):
    """parts: ordered [(name, dict)] of a {**A, **B} merge -> [(key, first name, later name)] with differing values"""
    seen, out = {}, []
    for name, d in parts:
        for k, v in d.items():
            if k in seen and seen[k][1] != v:
                out.append((k, seen[k][0], name))
            seen.setdefault(k, (name, v))
    return out


def strip_brackets(u):
    for a, b in ('()', '[]', '{}', '<>'):
        if u.startswith(a) and u.endswith(b):
            return u[1:len(u) - 1]
    return u


class TokExpr:
    """a string expression over the configuration's connector token, read from the parser's AST: parts are literal
    strings or the token itself (TOKEN); evaluated per configuration"""
    TOKEN = object()

    def __init__(self, parts, src):
        self.parts, self.src = parts, src

    def __call__(self, token):
        return ''.join((token or '') if p is TokExpr.TOKEN else p for p in self.parts)


def tok_expr(e, aliases):
    """AST -> TokExpr | None (not an expression over the connector token this reader understands)"""
    if isinstance(e, ast.Constant) and isinstance(e.value, str):
        return TokExpr([e.value], ast.unparse(e))
    if ast.unparse(e) == 'self.config.connector_token' or (isinstance(e, ast.Name) and e.id in aliases):
        return TokExpr([TokExpr.TOKEN], ast.unparse(e))
    if isinstance(e, ast.BinOp) and isinstance(e.op, ast.Add):
        a, b = tok_expr(e.left, aliases), tok_expr(e.right, aliases)
        if a and b:
            return TokExpr(a.parts + b.parts, ast.unparse(e))
        return None
    if isinstance(e, ast.JoinedStr):
        parts = []
        for v in e.values:
            if isinstance(v, ast.FormattedValue):
                if v.conversion != -1 or v.format_spec is not None:
                    return None
                t = tok_expr(v.value, aliases)
            else:
                t = tok_expr(v, aliases)
            if t is None:
                return None
            parts += t.parts
        return TokExpr(parts, ast.unparse(e))
    return None


def read_connector_guard(fn, exact_name, low_name):
    """the leading-connector strip of NumberWithUnitParser.parse as written:
    if [T and] <lowered key>.startswith(E): <lowered> = <lowered>[len(L):].strip(); <exact> = <exact>[len(L):].strip()
    -> dict(prefix=TokExpr E, cut=TokExpr L, needs_token=bool); AnalysisError for shapes that cannot be evaluated"""
    W = 'NumberWithUnitParser.parse'
    aliases = {t.id for a in ast.walk(fn) if isinstance(a, ast.Assign) and ast.unparse(a.value) == 'self.config.connector_token'
               for t in a.targets if isinstance(t, ast.Name)}
    for al in aliases:
        if sum(1 for a in ast.walk(fn) if isinstance(a, (ast.Assign, ast.AugAssign)) for t in (a.targets if isinstance(a, ast.Assign) else [a.target])
               if isinstance(t, ast.Name) and t.id == al) != 1:
            raise AnalysisError('%s: local %s (connector token) is assigned more than once' % (W, al))

    def mentions_token(n):
        return 'self.config.connector_token' in ast.unparse(n) or any(isinstance(x, ast.Name) and x.id in aliases for x in ast.walk(n))
    conn = [n for n in ast.walk(fn) if isinstance(n, ast.If) and mentions_token(n.test)]
    if len(conn) != 1:
        raise AnalysisError('%s: connector-token guard not recognised (%d candidate if-statements)' % (W, len(conn)))
    g = conn[0]
    t = g.test
    conj = t.values if isinstance(t, ast.BoolOp) and isinstance(t.op, ast.And) else [t]
    sw = [v for v in conj if isinstance(v, ast.Call) and isinstance(v.func, ast.Attribute) and v.func.attr == 'startswith'
          and isinstance(v.func.value, ast.Name) and v.func.value.id == low_name and len(v.args) == 1 and not v.keywords]
    rest = [v for v in conj if v not in sw]
    needs = False
    for v in rest:
        te = tok_expr(v, aliases)
        if te is None or te.parts != [TokExpr.TOKEN]:
            raise AnalysisError('%s: connector-token guard has a condition this reader cannot evaluate (%s)' % (W, ast.unparse(v)))
        needs = True
    if len(sw) != 1 or g.orelse:
        raise AnalysisError('%s: connector-token guard is not `[token and] %s.startswith(E)` (%s)' % (W, low_name, ast.unparse(t)))
    prefix = tok_expr(sw[0].args[0], aliases)
    if prefix is None:
        raise AnalysisError('%s: cannot evaluate the prefix %s of the connector-token guard' % (W, ast.unparse(sw[0].args[0])))
    cuts = {}
    for st in g.body:
        ok = False
        if isinstance(st, ast.Assign) and len(st.targets) == 1 and isinstance(st.targets[0], ast.Name) \
                and st.targets[0].id in (exact_name, low_name):
            v = st.value
            if isinstance(v, ast.Call) and isinstance(v.func, ast.Attribute) and v.func.attr == 'strip' and not v.args:
                sub = v.func.value
                if isinstance(sub, ast.Subscript) and isinstance(sub.value, ast.Name) and sub.value.id == st.targets[0].id \
                        and isinstance(sub.slice, ast.Slice) and sub.slice.upper is None and sub.slice.step is None \
                        and isinstance(sub.slice.lower, ast.Call) and isinstance(sub.slice.lower.func, ast.Name) \
                        and sub.slice.lower.func.id == 'len' and len(sub.slice.lower.args) == 1:
                    le = tok_expr(sub.slice.lower.args[0], aliases)
                    if le is not None:
                        cuts[st.targets[0].id] = le
                        ok = True
        if not ok:
            raise AnalysisError('%s:%d statement in the connector-token strip is not `k = k[len(L):].strip()`' % (W, st.lineno))
    if set(cuts) != {exact_name, low_name} or cuts[exact_name].parts != cuts[low_name].parts:
        raise AnalysisError('%s: connector-token strip does not cut the exact and the lowered key alike' % W)
    return {'prefix': prefix, 'cut': cuts[low_name], 'needs_token': needs,
            'prefix_src': prefix.src, 'cut_src': cuts[low_name].src}


def parser_lookup(unit_map, text, connector, guard=None):
    """NumberWithUnitParser.parse key normalisation for a unit text that stands alone next to the number;
    guard: what read_connector_guard found (default: the pinned `token and key.startswith(token + ' ')`)"""
    last = text.strip()
    norm = last.lower()
    if guard is None:
        guard = {'prefix': TokExpr([TokExpr.TOKEN, ' '], ''), 'cut': TokExpr([TokExpr.TOKEN], ''), 'needs_token': True}
    if (connector or not guard['needs_token']) and norm.startswith(guard['prefix'](connector)):
        n = len(guard['cut'](connector))
        norm = norm[n:].strip()
        last = last[n:].strip()
    last, norm = strip_brackets(last), strip_brackets(norm)
    if last in unit_map:
        return unit_map[last], last
    if norm in unit_map:
        return unit_map[norm], norm
    return None, last


def nows(s):
    return ''.join(s.split())


def case_problem(tok, unit, q, listed_nows, unit_map, side):
    """q: what the query normalisation turns the typed spelling `tok` into (q != tok)"""
    if nows(q) not in listed_nows:
        return "'%s' (%s): typed form becomes '%s' which is not a listed %s spelling" % (tok, unit, q, side)
    if unit_map.get(q) != unit:
        return "'%s' (%s): typed form becomes '%s' which is bound to '%s'" % (tok, unit, q, unit_map.get(q))
    return None


def langs_of_module(modname, langs):
    out = set()
    for p in modname.split('.'):
        w = p.split('_')[0]
        if w in langs:
            out.add(w)
    return out


def foreign_language(own, modname, langs):
    """language-purity detector: languages a module name carries other than `own`"""
    return sorted(langs_of_module(modname, langs) - {own})


def ratio_hazard(frac_name, ratios):
    r = ratios.get(frac_name)
    return r is None or r == 0


# ======================================================================================================
# anchors in the culture-independent code (fail closed: the rules below re-state these mechanisms)
# ======================================================================================================

def _calls(fn, attr):
    return [n for n in ast.walk(fn) if isinstance(n, ast.Call) and isinstance(n.func, ast.Attribute) and n.func.attr == attr]


def _src(n):
    return ast.unparse(n)


def _own(idx, qual, name):
    c = idx.cls(qual)
    if name not in c.methods:
        raise AnalysisError('anchor vanished: %s.%s' % (qual, name))
    return c, c.methods[name]


def check_mechanisms(chk, idx, an=None):
    """returns dict(first_wins=bool, preprocess=callable)"""
    R = 'C05.mech'
    out = {}
    # -- add_dict_to_unit_map and the helpers below it: decided by interpretation (rule C05.bind), not by shape
    c, fn = _own(idx, NWU + '.parsers.NumberWithUnitParserConfiguration', 'add_dict_to_unit_map')
    chk.consulted(c.mod.path)
    chk.consulted(idx.cls(NWU + '.utilities.DictionaryUtility').mod.path)
    attrs = sorted({n.attr for n in ast.walk(fn) if _self_attr(n) and isinstance(n.ctx, ast.Load)
                    } -
                   {n.func.attr for n in ast.walk(fn) if isinstance(n, ast.Call) and _self_attr(n.func)})
    if len(attrs) != 1 or len(fn.args.args) != 2:
        raise AnalysisError('NumberWithUnitParserConfiguration.add_dict_to_unit_map(self, d): the map attribute it binds into is '
                            'not a single self.<attr> (%s)' % attrs)
    out['map_attr'] = attrs[0]
    reads = [n for m2 in (idx.cls(NWU + '.parsers.NumberWithUnitParser').methods.values()) for n in ast.walk(m2)
             if isinstance(n, ast.Attribute) and _src(n) == 'self.config.' + out['map_attr']]
    if not reads:
        raise AnalysisError('NumberWithUnitParser never reads config.%s, the map add_dict_to_unit_map binds into' % out['map_attr'])
    # probe tables: one spelling / one unit name per character that occurs anywhere in the unit tables, so that a
    # character-level transformation (replace, translate, normalisation ...) of values or names is observed
    chars = set()
    if an is not None:
        for q, k in sorted((k.qual, k) for k in idx.all_classes()):
            if k.mod.name.startswith('recognizers_number_with_unit.resources.'):
                for v in an.R.values(k).values():
                    if isinstance(v, dict):
                        for a, b in v.items():
                            if isinstance(a, str) and isinstance(b, str):
                                chars.update(a)
                                chars.update(b)
    chars.discard('|')
    chars = sorted(chars)
    probes = []
    if chars:
        probes.append([{'P': '|'.join('q%sq' % ch for ch in chars)}])
        probes.append([{'q' + ''.join(chars) + 'q': 'p'}])
    hyp, diffs, ntab = tabulate_binding(idx, c, fn, out['map_attr'], probes)
    out['first_wins'] = hyp['first_wins']
    out['bind_tf'] = hyp_tf(hyp)
    construct = 'NumberWithUnitParserConfiguration.add_dict_to_unit_map -> DictionaryUtility.bind_dictionary / bind_units_string'
    if not diffs:
        chk.ok('C05.bind', c.mod.path, construct, 'reference binding semantics on %d tabulated table sequences' % ntab, fn.lineno)
    else:
        changed = sorted(k for k in PINNED_HYP if hyp[k] != PINNED_HYP[k]) if hyp.get('_matched') else ['outside the modelled family']
        tabs, got, want = diffs[0]
        chk.bad('C05.bind', c.mod.path, construct, 'differs: ' + ', '.join(changed),
                'binding %s yields the map %s, the reference semantics (unit name as is; value stripped and split on |; empty '
                'unit names and empty spellings skipped; first binding of a spelling wins) yields %s; %d of %d tabulated '
                'sequences differ; changed aspect(s): %s. The table rules replay the binding %s.'
                % (tabs, got, want, len(diffs), ntab, ', '.join(changed),
                   'as the code now performs it' if hyp.get('_matched') else 'with the reference semantics (the new behaviour is outside the modelled family)'),
                fn.lineno)
    chk.ok(R, c.mod.path, 'NumberWithUnitParserConfiguration.add_dict_to_unit_map',
           'binds into self.%s; behaviour tabulated by interpretation: %s' % (out['map_attr'], out['bind_tf'].describe()), fn.lineno)
    # -- parser key normalisation
    c, fn = _own(idx, NWU + '.parsers.NumberWithUnitParser', 'parse')
    looked = []
    for n in ast.walk(fn):
        if isinstance(n, ast.Compare) and len(n.ops) == 1 and isinstance(n.ops[0], ast.In) \
                and _src(n.comparators[0]) == 'self.config.unit_map' and isinstance(n.left, ast.Name):
            looked.append(n.left.id)
    lowered = {t.id: _src(s.value.func.value) for s in ast.walk(fn) if isinstance(s, ast.Assign)
               and isinstance(s.value, ast.Call) and isinstance(s.value.func, ast.Attribute) and s.value.func.attr == 'lower'
               and not s.value.args for t in s.targets if isinstance(t, ast.Name)}
    exact = [x for x in looked if x not in lowered]
    low = [x for x in looked if x in lowered]
    if len(exact) != 1 or len(low) != 1 or lowered[low[0]] != exact[0]:
        raise AnalysisError('NumberWithUnitParser.parse: "exact key, then lower-cased key in unit_map" idiom not recognised (%s)' % looked)
    out['connector'] = read_connector_guard(fn, exact[0], low[0])
    # which helper normalises both keys before the lookup (bracket stripping)? decided by tabulation in C05.brackets
    helpers = {}
    for a in ast.walk(fn):
        if isinstance(a, ast.Assign) and len(a.targets) == 1 and isinstance(a.targets[0], ast.Name) \
                and a.targets[0].id in (exact[0], low[0]) and isinstance(a.value, ast.Call) and _self_attr(a.value.func) \
                and len(a.value.args) == 1 and isinstance(a.value.args[0], ast.Name) and a.value.args[0].id == a.targets[0].id:
            helpers.setdefault(a.value.func.attr, set()).add(a.targets[0].id)
    both = [m for m, names in helpers.items() if names == {exact[0], low[0]}]
    if len(helpers) > 1 or (helpers and not both):
        raise AnalysisError('NumberWithUnitParser.parse: key helpers %s are not applied to the exact and the lowered key alike'
                            % sorted(helpers))
    out['bracket_helper'] = both[0] if both else None
    chk.ok(R, c.mod.path, 'NumberWithUnitParser.parse',
           'key: strip; lower; when the lowered key starts with %s cut len(%s) and strip; strip one bracket pair; '
           'exact then lowered lookup' % (out['connector']['prefix_src'], out['connector']['cut_src']), fn.lineno)
    # -- extractor builds both matchers and the separate regex from suffix_list / prefix_list values split on '|'
    c, fn = _own(idx, NWU + '.extractors.NumberWithUnitExtractor', '__init__')
    chk.consulted(c.mod.path)
    s = _src(fn)
    if 'self.config.suffix_list' not in s or 'self.config.prefix_list' not in s or not _calls(fn, '_build_matcher_from_set'):
        raise AnalysisError('NumberWithUnitExtractor.__init__: matcher construction from suffix_list/prefix_list not recognised')
    c2, fn2 = _own(idx, NWU + '.extractors.NumberWithUnitExtractor', '_build_matcher_from_set')
    if not [n for n in _calls(fn2, 'split') if n.args and isinstance(n.args[0], ast.Constant) and n.args[0].value == '|']:
        raise AnalysisError("NumberWithUnitExtractor._build_matcher_from_set: split('|') not recognised")
    chk.ok(R, c.mod.path, 'NumberWithUnitExtractor.__init__', "suffix/prefix matchers from the '|'-split table values", fn.lineno)
    # -- merged extractor / parser dispatch on the currency type
    for q, m in ((NWU + '.extractors.BaseMergedUnitExtractor', 'extract'), (NWU + '.parsers.BaseMergedUnitParser', 'parse')):
        c, fn = _own(idx, q, m)
        if 'Constants.SYS_UNIT_CURRENCY' not in _src(fn):
            raise AnalysisError('%s.%s: dispatch on Constants.SYS_UNIT_CURRENCY not recognised' % (q, m))
        chk.ok(R, c.mod.path, '%s.%s' % (c.name, m), 'currency handling is selected by extract_type/source.type == SYS_UNIT_CURRENCY', fn.lineno)
    # -- compound merge: 1 / ratio with ratio = currency_fraction_num_map.get(..), mapping string from currency_fraction_mapping.get(..)
    c, fn = _own(idx, NWU + '.parsers.BaseCurrencyParser', '__merge_compound_unit')
    out['merge'] = analyse_merge(c, fn)
    tests = out['merge']['named_tests']
    rname = out['merge']['named'].get('div_name')
    out['ratio_none_guard'] = bool(rname and re.search(
        r'\b%s\s+is\s+not\s+None\b|\band\s+%s\s+and\b|^%s\s+and\b' % (rname, rname, rname), tests))
    cc = [n for n in _calls(fn, '__check_units_string_contains')]
    if len(cc) != 1 or len(cc[0].args) != 2 or not isinstance(cc[0].args[1], ast.Name):
        raise AnalysisError('BaseCurrencyParser.__merge_compound_unit: __check_units_string_contains call not recognised')
    fus = cc[0].args[1].id
    fus_src = [a for a in ast.walk(fn) if isinstance(a, ast.Assign) and isinstance(a.value, ast.Call)
               and 'self.config.currency_fraction_mapping.get(' in _src(a.value)]
    if not fus_src:
        raise AnalysisError('BaseCurrencyParser.__merge_compound_unit: currency_fraction_mapping.get(..) not found')
    c3, fn3 = _own(idx, NWU + '.parsers.BaseCurrencyParser', '__check_units_string_contains')
    if not _calls(fn3, 'bind_units_string') or len(fn3.args.args) != 3:
        raise AnalysisError('BaseCurrencyParser.__check_units_string_contains: shape changed; rule C05.fracmap must be revisited')
    p2 = fn3.args.args[2].arg
    bind_line = _calls(fn3, 'bind_units_string')[0].lineno
    out['fracmap_none_guard'] = any(
        isinstance(n, ast.If) and n.lineno < bind_line and any(isinstance(b, ast.Return) for b in n.body)
        and _src(n.test) in ('not ' + p2, p2 + ' is None') for n in ast.walk(fn3)) or bool(
        re.search(r'\b%s\s+(and|is\s+not\s+None)\b' % fus, tests))
    chk.ok(R, c.mod.path, 'BaseCurrencyParser.__merge_compound_unit',
           'accumulator additions located (named fraction unit / bare trailing number; judged by C05.ratio-use) [ratio None '
           'guard: %s]; membership of the fraction code tested by bind_units_string over '
           'currency_fraction_mapping.get(main code) [None guard: %s]'
           % (out['ratio_none_guard'], out['fracmap_none_guard']), fn.lineno)
    # -- isoCurrency producers
    c, fn = _own(idx, NWU + '.parsers.BaseCurrencyParser', 'parse')
    prod = [n for cn in (c,) for m in cn.methods.values() for n in ast.walk(m)
            if isinstance(n, ast.Call) and isinstance(n.func, ast.Name) and n.func.id == 'CurrencyUnitValue']
    if not prod:
        raise AnalysisError('BaseCurrencyParser: no CurrencyUnitValue producer found')
    others = [k.qual for k in idx.all_classes() if k.mod.name.startswith(NWU) and k is not c
              for m in k.methods.values() for n in ast.walk(m)
              if isinstance(n, ast.Call) and isinstance(n.func, ast.Name) and n.func.id == 'CurrencyUnitValue']
    if others:
        raise AnalysisError('CurrencyUnitValue is produced outside BaseCurrencyParser: %s' % sorted(set(others)))
    chk.ok(R, c.mod.path, 'BaseCurrencyParser', 'CurrencyUnitValue is produced only inside BaseCurrencyParser (%d producers); '
           'which code it carries is decided by C05.iso-value' % len(prod), fn.lineno)
    # -- the model lower-cases term-sensitively before extraction
    c, fn = _own(idx, NWU + '.models.AbstractNumberWithUnitModel', 'parse')
    chk.consulted(c.mod.path)
    pp = _calls(fn, 'preprocess')
    if len(pp) != 1 or len(pp[0].args) != 2 or not (isinstance(pp[0].args[1], ast.Constant) and pp[0].args[1].value is True):
        raise AnalysisError('AbstractNumberWithUnitModel.parse: QueryProcessor.preprocess(query, True) not recognised')
    out['preprocess'] = load_preprocess(chk, idx)
    chk.ok(R, c.mod.path, 'AbstractNumberWithUnitModel.parse', 'query = QueryProcessor.preprocess(query, case_sensitive=True)', fn.lineno)
    return out


# ---- dataflow over BaseCurrencyParser.__merge_compound_unit -------------------------------------------

def _parents(root):
    par = {}
    for n in ast.walk(root):
        for ch in ast.iter_child_nodes(n):
            par[ch] = n
    return par


def _in_field(par, node, anc, field):
    """is `node` below the statement list `field` of ancestor `anc`?"""
    cur = node
    while cur in par and par[cur] is not anc:
        cur = par[cur]
    return par.get(cur) is anc and cur in getattr(anc, field, [])


def _split_div(e):
    """addend -> (numerator expr, divisor expr | None): x * (1 / D) | (1 / D) * x | x / D, through `.. if c else ..`"""
    if isinstance(e, ast.IfExp):
        return _split_div(e.body)
    if isinstance(e, ast.BinOp) and isinstance(e.op, ast.Div):
        return e.left, e.right
    if isinstance(e, ast.BinOp) and isinstance(e.op, ast.Mult):
        for a, b in ((e.left, e.right), (e.right, e.left)):
            if isinstance(b, ast.BinOp) and isinstance(b.op, ast.Div) and isinstance(b.left, ast.Constant) and b.left.value == 1:
                return a, b.right
    return e, None


def analyse_merge(cls, fn):
    """locate the two additions to the amount accumulator and describe the provenance of their divisors.
    AnalysisError only when the function cannot be read; a divisor of another provenance is data for C05.ratio-use."""
    W = 'BaseCurrencyParser.__merge_compound_unit'
    par = _parents(fn)
    cr = _calls(fn, '__create_currency_result')
    accs = {c.args[2].id for c in cr if len(c.args) == 4 and isinstance(c.args[2], ast.Name)}
    if len(accs) != 1:
        raise AnalysisError('%s: amount accumulator (3rd argument of __create_currency_result) not recognised' % W)
    acc = accs.pop()
    loops = [n for n in fn.body if isinstance(n, (ast.While, ast.For))]
    if len(loops) != 1:
        raise AnalysisError('%s: element loop not recognised' % W)
    loop = loops[0]
    adds = []
    for n in ast.walk(loop):
        if isinstance(n, ast.Assign) and len(n.targets) == 1 and isinstance(n.targets[0], ast.Name) and n.targets[0].id == acc \
                and isinstance(n.value, ast.BinOp) and isinstance(n.value.op, ast.Add) \
                and isinstance(n.value.left, ast.Name) and n.value.left.id == acc:
            adds.append((n, n.value.right))
        elif isinstance(n, ast.AugAssign) and isinstance(n.op, ast.Add) and isinstance(n.target, ast.Name) and n.target.id == acc:
            adds.append((n, n.value))

    def enclosing_ifs(n):
        res = []
        cur = n
        while cur in par and cur is not loop:
            p = par[cur]
            if isinstance(p, ast.If):
                res.append((p, 'body' if _in_field(par, n, p, 'body') else 'orelse'))
            cur = p
        return res

    named, bare = [], []
    for st, addend in adds:
        ifs = enclosing_ifs(st)
        if any('Constants.SYS_NUM' in _src(i.test) and f == 'body' for i, f in ifs):
            bare.append((st, addend, ifs))
        elif any('__check_units_string_contains' in _src(i.test) and f == 'body' for i, f in ifs):
            named.append((st, addend, ifs))
        else:
            raise AnalysisError('%s:%d addition to %s in a branch that is neither the bare-number nor the fraction-unit branch'
                                % (W, st.lineno, acc))
    if len(named) != 1 or len(bare) > 1:
        raise AnalysisError('%s: expected one addition for a named fraction unit (found %d) and at most one for a bare number '
                            '(found %d)' % (W, len(named), len(bare)))
    # the branch that initialises a group from its MAIN unit: the If whose orelse holds the named addition
    main_ifs = [i for i, f in named[0][2] if f == 'orelse']
    if not main_ifs:
        raise AnalysisError('%s: main-unit branch (if count == 0) not recognised' % W)
    main_if = main_ifs[-1]
    defs = {}
    for n in ast.walk(fn):
        if isinstance(n, ast.Assign) and len(n.targets) == 1 and isinstance(n.targets[0], ast.Name):
            defs.setdefault(n.targets[0].id, []).append(n)
    in_loop = set(ast.walk(loop))
    main_carried = set()
    for name, ds in defs.items():
        inl = [d for d in ds if d in in_loop]
        if inl and all(_in_field(par, d, main_if, 'body') for d in inl):
            main_carried.add(name)

    def sources(e, depth=0, seen=()):
        """expand local names to the expressions they may hold (flow-insensitive); main-carried names stay opaque"""
        if depth > 8:
            return [e]
        if isinstance(e, ast.IfExp):
            return sources(e.body, depth + 1, seen) + sources(e.orelse, depth + 1, seen)
        if isinstance(e, ast.Name):
            if e.id in main_carried:
                return [ast.Name(id='<main-unit group>.' + e.id, ctx=ast.Load())]
            if e.id in defs and e.id not in seen:
                res = []
                for d in defs[e.id]:
                    res += sources(d.value, depth + 1, seen + (e.id,))
                return res
            return [e]
        if isinstance(e, ast.Attribute):
            return [ast.Attribute(value=v, attr=e.attr, ctx=ast.Load()) for v in sources(e.value, depth + 1, seen)]
        return [e]

    def describe(div):
        """divisor expr -> dict(kind, text, lookups=[(slot, [key source strings])], consts, others, carried)"""
        d = {'text': _src(div) if div is not None else None, 'lookups': [], 'consts': [], 'others': [],
             'carried': isinstance(div, ast.Name) and div.id in main_carried,
             'div_name': div.id if isinstance(div, ast.Name) else None}
        if div is None:
            return d
        exprs = []
        if isinstance(div, ast.Name) and div.id in defs:
            for a in defs[div.id]:
                exprs += sources(a.value, seen=(div.id,))
        else:
            exprs = sources(div)
        for e in exprs:
            if isinstance(e, ast.Constant):
                d['consts'].append(e.value)
            elif isinstance(e, ast.Attribute) and isinstance(e.value, ast.Name) and e.value.id == 'self' and e.attr in cls.attrs \
                    and isinstance(cls.attrs[e.attr], ast.Constant):
                d['consts'].append(cls.attrs[e.attr].value)
            elif isinstance(e, ast.Name) and e.id not in defs and hasattr(cls, 'mod') \
                    and isinstance(cls.mod.assigns.get(e.id), ast.Constant):
                d['consts'].append(cls.mod.assigns[e.id].value)        # module-level constant
            elif isinstance(e, ast.Call) and isinstance(e.func, ast.Attribute) and e.func.attr == 'get' and e.args \
                    and _src(e.func.value).startswith('self.config.'):
                slot = _src(e.func.value)[len('self.config.'):]
                d['lookups'].append((slot, sorted({_src(k) for k in sources(e.args[0]) if not isinstance(k, ast.Constant)}), _src(e)))
            elif isinstance(e, ast.Subscript) and _src(e.value).startswith('self.config.'):
                slot = _src(e.value)[len('self.config.'):]
                d['lookups'].append((slot, sorted({_src(k) for k in sources(e.slice) if not isinstance(k, ast.Constant)}), _src(e)))
            else:
                d['others'].append(_src(e))
        return d

    iso_args = [cc.args[1] for cc in cr if len(cc.args) == 4]
    iso_desc = [describe(a) for a in iso_args]
    res = {'acc': acc, 'main_carried': sorted(main_carried), 'iso_args': iso_desc,
           'named_tests': ' '.join(_src(i.test) for i, f in named[0][2])}
    num, div = _split_div(named[0][1])
    res['named'] = describe(div)
    res['named'].update(line=named[0][0].lineno, addend=_src(named[0][1]),
                        numerator=sorted({_src(x) for x in (sources(a) for a in ast.walk(num) if isinstance(a, (ast.Name, ast.Attribute))
                                                                   ) for x in x} if num is not None else []))
    if bare:
        num, div = _split_div(bare[0][1])
        res['bare'] = describe(div)
        res['bare'].update(line=bare[0][0].lineno, addend=_src(bare[0][1]))
    else:
        res['bare'] = None
    return res


def ratio_use_problem(d):
    """C05.ratio-use detector on the description of the named-fraction divisor: None when the amount added is
    number / R with R looked up in currency_fraction_num_map under the name of THAT fraction unit"""
    if d['text'] is None:
        return 'the amount added for a named fraction unit (%s) is not divided by anything' % d.get('addend')
    if d['carried']:
        return ('the divisor `%s` is assigned only while the MAIN unit of the group is processed (%s): it does not depend on '
                'which fraction unit follows' % (d['text'], '; '.join(l[2] for l in d['lookups']) or ', '.join(map(str, d['consts']))))
    if d['others']:
        return 'the divisor `%s` may hold %s, which is not a CurrencyFractionalRatios lookup' % (d['text'], '; '.join(d['others'][:3]))
    if not d['lookups']:
        return 'the divisor `%s` is the constant %s for every fraction unit' % (d['text'], d['consts'])
    for slot, keys, text in d['lookups']:
        if slot != 'currency_fraction_num_map':
            return 'the divisor `%s` is looked up in config.%s (%s), not in config.currency_fraction_num_map' % (d['text'], slot, text)
        badk = [k for k in keys if '<main-unit group>' in k or not k.endswith('.unit')]
        if badk or not keys:
            return ('the divisor `%s` is currency_fraction_num_map looked up under %s, not under the name of the fraction unit '
                    'being merged' % (d['text'], badk or text))
    return None


def _const_str(node, env):
    if isinstance(node, ast.Constant) and isinstance(node.value, str):
        return node.value
    if isinstance(node, ast.JoinedStr):
        return ''.join(_const_str(p if not isinstance(p, ast.FormattedValue) else p.value, env) for p in node.values)
    if isinstance(node, ast.Name) and node.id in env:
        return env[node.id]
    if isinstance(node, ast.BinOp) and isinstance(node.op, ast.Add):
        return _const_str(node.left, env) + _const_str(node.right, env)
    raise AnalysisError('QueryProcessor: cannot evaluate %s' % ast.unparse(node)[:60])


def load_preprocess(chk, idx):
    """re-statement of QueryProcessor.preprocess(.., case_sensitive=True) from its AST: recode table + term-sensitive lowering"""
    c = idx.cls('recognizers_text.utilities.QueryProcessor')
    chk.consulted(c.mod.path)
    for m in ('preprocess', 'to_lower_term_sensitive', 'apply_reverse'):
        if m not in c.methods:
            raise AnalysisError('anchor vanished: QueryProcessor.%s' % m)
    pre = c.methods['preprocess']
    repl = []
    for n in sorted(_calls(pre, 'replace'), key=lambda n: (n.lineno, n.col_offset)):
        if len(n.args) == 2 and all(isinstance(a, ast.Constant) and isinstance(a.value, str) for a in n.args):
            repl.append((n.args[0].value, n.args[1].value))
        else:
            raise AnalysisError('QueryProcessor.preprocess: replace() with non-constant arguments')
    br = [n for n in ast.walk(pre) if isinstance(n, ast.If) and _src(n.test) == 'not case_sensitive']
    if len(br) != 1 or 'to_lower_term_sensitive' not in _src(br[0].orelse[0] if br[0].orelse else ast.Pass()) \
            or not ('.lower()' in _src(br[0].body[0]) or 'to_lower_preserving_length(' in _src(br[0].body[0])):
        raise AnalysisError('QueryProcessor.preprocess: case_sensitive branch not recognised')
    tl = c.methods['to_lower_term_sensitive']
    s = _src(tl)
    arg = tl.args.args[0].arg
    lowered = ('list(%s.lower())' % arg) in s or ('list(QueryProcessor.to_lower_preserving_length(%s))' % arg) in s
    if not lowered or ('special_tokens_regex.finditer(%s)' % arg) not in s or 'apply_reverse' not in s \
            or 'match.start()' not in s or 'match.group()' not in s:
        raise AnalysisError('QueryProcessor.to_lower_term_sensitive: lower-then-restore idiom not recognised')
    env = {}
    for name in ('tokens', 'expression'):
        if name not in c.attrs:
            raise AnalysisError('anchor vanished: QueryProcessor.%s' % name)
        env[name] = _const_str(c.attrs[name], env)
    sp = c.attrs.get('special_tokens_regex')
    if sp is None or not (isinstance(sp, ast.Call) and sp.args and isinstance(sp.args[0], ast.Name) and sp.args[0].id == 'expression'):
        raise AnalysisError('QueryProcessor.special_tokens_regex: not compiled from `expression`')
    flags = re.S
    if len(sp.args) > 1 and 'I' in re.findall(r'\.([A-Z]+)\b', _src(sp.args[1])):
        flags |= re.I
    try:
        rx_special = re.compile(env['expression'], flags)
    except re.error as e:
        raise AnalysisError('QueryProcessor.expression does not compile with re: %s' % e)

    def preprocess(text):
        for a, b in repl:
            text = text.replace(a, b)
        chars = [ch.lower() if len(ch.lower()) == 1 else ch for ch in text]   # per-character lower-casing (C01 decides
        # whether the library's own lower-casing keeps the length; the unit tables are compared modulo that)
        for m in rx_special.finditer(text):
            chars[m.start():m.end()] = list(m.group())
        return ''.join(chars)
    preprocess.expression = env['expression']
    return preprocess


# ======================================================================================================
# registrations
# ======================================================================================================

class Pair:
    def __init__(self, reg, n, ewrap, ecfg, eargs, pwrap, pcfg, pargs, line):
        self.reg, self.n = reg, n
        self.ewrap, self.ecfg, self.eargs = ewrap, ecfg, eargs
        self.pwrap, self.pcfg, self.pargs = pwrap, pcfg, pargs
        self.line = line


class Reg:
    def __init__(self, name, culture, model, line):
        self.name, self.culture, self.model, self.line = name, culture, model, line
        self.pairs = []

    @property
    def construct(self):
        return "register_model('%s', Culture.%s)" % (self.name, self.culture)


def _cfg_call(idx, mod, node, what, where):
    """Wrapper(Config(args)) -> (wrapper Cls, config Cls, config Call)"""
    if not (isinstance(node, ast.Call) and len(node.args) == 1 and not node.keywords and isinstance(node.args[0], ast.Call)):
        raise AnalysisError('%s: %s is not Wrapper(Configuration(...))' % (where, what))
    w = idx.resolve_class(mod, node.func)
    k = idx.resolve_class(mod, node.args[0].func)
    if w is None or k is None:
        raise AnalysisError('%s: cannot resolve %s' % (where, ast.unparse(node)[:80]))
    return w, k, node.args[0]


def read_registrations(idx):
    rec = idx.cls(NWU + '.number_with_unit_recognizer.NumberWithUnitRecognizer')
    fn = rec.methods.get('initialize_configuration')
    if fn is None:
        raise AnalysisError('anchor vanished: NumberWithUnitRecognizer.initialize_configuration')
    mod = rec.mod
    regs = []
    local = {}

    class _Subst(ast.NodeTransformer):
        def visit_Lambda(self, node):
            shadow = {a.arg for a in node.args.args}
            saved = {k: local.pop(k) for k in list(local) if k in shadow}
            try:
                return self.generic_visit(node)
            finally:
                local.update(saved)

        def visit_Name(self, node):
            if isinstance(node.ctx, ast.Load) and node.id in local:
                return ast.copy_location(copy.deepcopy(local[node.id]), node)
            return node

    for st in fn.body:
        if isinstance(st, ast.Expr) and isinstance(st.value, ast.Constant):
            continue
        where = '%s:%d' % (mod.rel, st.lineno)
        if isinstance(st, (ast.Assign, ast.AnnAssign)):
            tg = st.targets if isinstance(st, ast.Assign) else [st.target]
            val = st.value
            pure = isinstance(val, ast.Constant) or (
                isinstance(val, ast.Call) and isinstance(val.func, (ast.Name, ast.Attribute)) and not any(
                    isinstance(n, (ast.Lambda, ast.Await, ast.Yield, ast.NamedExpr)) or
                    (isinstance(n, ast.Name) and n.id == 'self') for n in ast.walk(val))) or (
                isinstance(val, ast.Attribute) and isinstance(val.value, ast.Name) and val.value.id != 'self')
            if len(tg) == 1 and isinstance(tg[0], ast.Name) and val is not None and pure:
                # name = constant | Constructor(...) | Enum.Member : substituted at its uses below
                local[tg[0].id] = _Subst().visit(copy.deepcopy(val))
                continue
            raise AnalysisError('%s: local statement in initialize_configuration is not `name = constant | Constructor(...)`' % where)
        if isinstance(st, ast.Expr):
            st = ast.fix_missing_locations(_Subst().visit(copy.deepcopy(st)))
        c = st.value if isinstance(st, ast.Expr) else None
        if not (isinstance(c, ast.Call) and isinstance(c.func, ast.Attribute) and c.func.attr == 'register_model'
                and isinstance(c.func.value, ast.Name) and c.func.value.id == 'self'):
            raise AnalysisError('%s: statement in initialize_configuration is not self.register_model(...)' % where)
        if len(c.args) != 3 or c.keywords:
            raise AnalysisError('%s: register_model(name, culture, factory) expected' % where)
        a0, a1, a2 = c.args
        if not (isinstance(a0, ast.Constant) and isinstance(a0.value, str)):
            raise AnalysisError('%s: model name is not a string literal' % where)
        if not (isinstance(a1, ast.Attribute) and isinstance(a1.value, ast.Name) and a1.value.id == 'Culture'):
            raise AnalysisError('%s: culture is not Culture.<X>' % where)
        if not (isinstance(a2, ast.Lambda) and isinstance(a2.body, ast.Call) and len(a2.body.args) == 1
                and isinstance(a2.body.args[0], (ast.List, ast.Tuple))):
            raise AnalysisError('%s: factory is not lambda options: Model([ExtractorParserModel(...), ...])' % where)
        model = idx.resolve_class(mod, a2.body.func)
        if model is None:
            raise AnalysisError('%s: cannot resolve model class %s' % (where, ast.unparse(a2.body.func)))
        reg = Reg(a0.value, a1.attr, model, st.lineno)
        for n, e in enumerate(a2.body.args[0].elts):
            k = idx.resolve_class(mod, e.func) if isinstance(e, ast.Call) else None
            if k is None or k.name != 'ExtractorParserModel' or len(e.args) != 2 or e.keywords:
                raise AnalysisError('%s: list element %d is not ExtractorParserModel(extractor, parser)' % (where, n))
            ew, ek, ecall = _cfg_call(idx, mod, e.args[0], 'extractor', where)
            pw, pk, pcall = _cfg_call(idx, mod, e.args[1], 'parser', where)
            reg.pairs.append(Pair(reg, n, ew, ek, ecall, pw, pk, pcall, e.lineno))
        if not reg.pairs:
            raise AnalysisError('%s: registration without extractor/parser pairs' % where)
        regs.append(reg)
    return rec, regs


def culture_args(call):
    """Culture.<X> names passed (anywhere) in the arguments of a configuration constructor call"""
    out = []
    for a in list(call.args) + [k.value for k in call.keywords]:
        for n in ast.walk(a):
            if isinstance(n, ast.Attribute) and isinstance(n.value, ast.Name) and n.value.id == 'Culture':
                out.append(n.attr)
    return out


def model_type(an, model):
    k, fn = an.idx.find_method(model, 'model_type_name')
    if fn is None:
        raise AnalysisError('%s has no model_type_name' % model.qual)
    r = [b for b in fn.body if isinstance(b, ast.Return)]
    if len(r) != 1 or not (isinstance(r[0].value, ast.Constant) and isinstance(r[0].value.value, str)):
        raise AnalysisError('%s.model_type_name does not return a string literal' % k.qual)
    return r[0].value.value


def short(s, n=60):
    s = str(s)
    return s if len(s) <= n else s[:n] + '...'


def tabname(prov):
    return '+'.join('%s.%s' % (q.rpartition('.')[2], a) for q, a in prov) or '<literal>'


# ======================================================================================================
# the check
# ======================================================================================================

def run(chk):
    chk.explanation = (
        'table agreement and wiring for the number-with-unit models: every ExtractorParserModel registration is read '
        'from NumberWithUnitRecognizer.initialize_configuration; the extractor and parser configuration objects are '
        'rebuilt by replaying their __init__ chains over the evaluated resource constants; the unit map is rebuilt with '
        'the binding rule of bind_units_string; every listed spelling is pushed through the re-stated query '
        'normalisation and parser key normalisation; currency ratio / fraction / ISO tables are compared with what '
        '__merge_compound_unit dereferences. All spellings of all registered tables are enumerated (exhaustive).')
    idx = get_index()
    an = Analysis(idx)
    chk.rule('C05.mech', 'the culture-independent mechanisms the other rules re-state still have the recognised shape', floor=7)
    chk.rule('C05.pair', 'every registered ExtractorParserModel pairs an extractor and a parser configuration of the same '
             'language and entity type; model class = registered name; merged extractor with merged parser; culture matches',
             floor=28, control=True)
    chk.rule('C05.culture', 'the effective culture of every configuration a registration builds (explicit CultureInfo(Culture.X) '
             'argument, a local holding one, or the `None -> CultureInfo(Culture.Y)` default of its constructor chain) is the '
             'registered culture', floor=50, control=True)
    chk.rule('C05.entry', 'recognize_<type> reaches the model registered under the name whose type name is <type>', floor=4)
    chk.rule('C05.tables', 'spellings the extractor configuration matches = spellings the parser configuration binds '
             '(suffix_list + prefix_list values vs unit_map keys); tables non-empty', floor=22, control=True)
    chk.rule('C05.merge', '{**A, **B} table merges have no unit key with differing spelling lists', floor=4, control=True)
    chk.rule('C05.side', '*PrefixList tables are wired into prefix_list and *SuffixList tables into suffix_list', floor=35, control=True)
    chk.rule('C05.one-entity', "NumberWithUnitExtractor.extract, interpreted with stub matchers AND a separate-unit pattern that "
             'matches the unit character, returns exactly one entity per number + adjacent listed unit (none inside it)',
             floor=2, control=True)
    chk.rule('C05.compound-order', "BaseMergedUnitExtractor.extract (currency), interpreted over candidate lists in the order "
             "NumberWithUnitExtractor.extract hands them over (read by interpreting it on a probe: number-less units come behind "
             "the amounts), returns 'N main and M fraction' as ONE entity with the two amounts as its parts, whatever number-less "
             'currency words stand earlier or later in the text', floor=5, control=True)
    chk.rule('C05.format-once', "on BaseCurrencyParser.parse's single-amount path the emitted number is the unit parser's "
             'culture-formatted string, with culture_info.format() applied no further time', floor=3, control=True)
    chk.rule('C05.iso-value', "the value a currency amount is emitted with follows CurrencyNameToIsoCodeMap[unit name]: real code -> "
             'CurrencyUnitValue(iso), placeholder _X -> UnitValue, no code -> CurrencyUnitValue(None) (single path interpreted; '
             'compound path by provenance of the ISO argument)', floor=4, control=True)
    chk.rule('C05.bind', 'add_dict_to_unit_map and the helpers it calls bind a table the way the table rules assume (unit name as '
             'is, value stripped and split on |, empty names/spellings skipped, first binding wins, insertion order) - interpreted '
             'on small table sequences', floor=1, control=True)
    chk.rule('C05.brackets', "the helper parse applies to the unit key strips exactly one enclosing bracket pair of () [] {} <> "
             '(interpreted on every key of length <= 3 over ()[]{}<>k and blank, plus longer ones)', floor=1, control=True)
    chk.rule('C05.prefix-pick', 'the prefix unit chosen left of a number is the left-most (longest) prefix match that reaches up '
             'to the number - tabulated by interpreting the selection statements of NumberWithUnitExtractor.extract on '
             'abstract match lists (all token-suffix subsets, with/without gap, decoys before and behind the number)',
             floor=1, control=True)
    chk.rule('C05.fresh', 'the map add_dict_to_unit_map binds into is a fresh per-instance dict when the constructors fill it '
             '(not a class-level / module-level object shared by all configurations)', floor=1, control=True)
    chk.rule('C05.shadow', 'replaying add_dict_to_unit_map in order, every spelling is bound to the unit whose entry lists it',
             floor=9000, control=True)
    chk.rule('C05.key', "every bound spelling is found again by the parser's own key normalisation (connector-token strip, "
             'bracket strip, whitespace strip, exact-then-lowered lookup) and yields its unit', floor=40, control=True)
    chk.rule('C05.blank', 'a spelling listed with a leading/trailing blank (inside a |-list) is still found by the parser, '
             'whose key is the stripped unit text', floor=40, control=True)
    chk.rule('C05.case', 'a listed spelling that the term-sensitive lower-casing of the query changes is still in the '
             "extractor's matcher and bound to the same unit in its changed form", floor=40, control=True)
    chk.rule('C05.ratio', 'every fraction unit that can follow a main unit of the same culture (code listed in '
             'CurrencyFractionMapping[main code]) has a non-zero ratio in CurrencyFractionalRatios (else the pair is never merged)',
             floor=200, control=True)
    chk.rule('C05.ratio-use', 'in __merge_compound_unit the amount added for a NAMED fraction unit is number / R with R = '
             "config.currency_fraction_num_map[that fraction unit's name]; the bare trailing number is a separate instance "
             '(constant 100)', floor=2, control=True)
    chk.rule('C05.fracmap', 'every main-unit ISO code a culture can produce has a CurrencyFractionMapping entry '
             '(else bind_units_string(None) when a fraction unit follows)', floor=6, control=True)
    chk.rule('C05.iso', "a currency parser configuration's iso/fraction-code maps are its own resource class's "
             'CurrencyNameToIsoCodeMap / FractionalUnitNameToCodeMap; ratio and fraction mapping are BaseCurrency\'s',
             floor=24, control=True)
    chk.rule('C05.purity', 'a configuration class of language L references only L\'s (or language-neutral) resource, '
             'number-extractor/parser classes and Culture.L*', floor=100, control=True)
    chk.rule('C05.dangling', 'every resource / Constants attribute read by registered configuration classes and by the '
             'base number-with-unit code exists', floor=150, control=True)

    mech = check_mechanisms(chk, idx, an)
    an.map_attr = mech['map_attr']
    rec, regs = read_registrations(idx)
    chk.consulted(rec.mod.path)
    langs = sorted(m[len(NWU) + 1:].split('.')[0] for m in idx.mods
                   if m.startswith(NWU + '.') and m.endswith('.extractors') and m.count('.') == NWU.count('.') + 2)
    if len(langs) < 6:
        raise AnalysisError('expected at least 6 language packages under %s, found %s' % (NWU, langs))
    ebase = idx.cls(NWU + '.extractors.NumberWithUnitExtractorConfiguration')
    pbase = idx.cls(NWU + '.parsers.NumberWithUnitParserConfiguration')
    consts = idx.cls(NWU + '.constants.Constants')
    ctx = dict(chk=chk, idx=idx, an=an, mech=mech, regs=regs, rec=rec, langs=langs, ebase=ebase, pbase=pbase, consts=consts)

    rule_pair(ctx)
    rule_culture(ctx)
    rule_entry(ctx)
    pairs = {}
    for r in regs:
        for p in r.pairs:
            pairs.setdefault((p.ecfg.qual, p.pcfg.qual), p)
    ctx['pairs'] = pairs
    for p in pairs.values():
        chk.consulted(p.ecfg.mod.path)
        chk.consulted(p.pcfg.mod.path)
    nforms = 0
    done_p = set()
    for (eq, pq), p in sorted(pairs.items()):
        ex = extractor_tables(ctx, p.ecfg)
        pa = parser_tables(ctx, p.pcfg)
        rule_tables(ctx, p, ex, pa)
        if pq not in done_p:
            done_p.add(pq)
            nforms += rule_shadow_key_case(ctx, p, ex, pa)
    rule_fresh(ctx)
    rule_one_entity(ctx)
    rule_compound_order(ctx)
    rule_format_once(ctx)
    rule_brackets(ctx)
    rule_prefix_pick(ctx)
    rule_ratio_use(ctx)
    rule_currency(ctx)
    rule_purity_dangling(ctx)
    controls(chk, mech)
    chk.extra['surface_forms'] = nforms
    chk.extra['registrations'] = len(regs)
    chk.extra['languages'] = langs
    chk.exhaustive = True
    chk.assume('unit texts reach the parser exactly as typed after QueryProcessor.preprocess(query, True); trie '
               'tokenisation is abstracted by whitespace-insensitive comparison (over-approximates a match)')


def lang_of(ctx, cls):
    ls = langs_of_module(cls.mod.name, ctx['langs'])
    return sorted(ls)[0] if len(ls) == 1 else None


def rule_pair(ctx):
    chk, idx, an = ctx['chk'], ctx['idx'], ctx['an']
    rec = ctx['rec']
    merged_e = idx.cls(NWU + '.extractors.BaseMergedUnitExtractor')
    merged_p = idx.cls(NWU + '.parsers.BaseMergedUnitParser')
    cur_p = idx.cls(NWU + '.parsers.BaseCurrencyParser')
    seen = set()
    for r in ctx['regs']:
        if (r.name, r.culture) in seen:
            chk.bad('C05.pair', rec.mod.path, r.construct, 'registered twice', 'the same (model name, culture) is registered twice', r.line)
        seen.add((r.name, r.culture))
        mtype = model_type(an, r.model)
        cattr = 'SYS_UNIT_' + mtype.upper()
        _, cnode = idx.class_attr(ctx['consts'], cattr)
        if cnode is None or not isinstance(cnode, ast.Constant):
            raise AnalysisError('Constants.%s (type constant of %s) not found' % (cattr, r.model.name))
        for p in r.pairs:
            problems = pair_problems(ctx, r, p, mtype, cnode.value, merged_e, merged_p, cur_p)
            el, pl = lang_of(ctx, p.ecfg), lang_of(ctx, p.pcfg)
            et = an.prop(p.ecfg, 'extract_type')
            detail = 'model=%s type=%s culture=%s pair=%d E=%s(%s:%s:%s) P=%s(%s:%s)' % (
                r.model.name, mtype, r.culture, p.n, p.ewrap.name, p.ecfg.name, el,
                et.value if et is not None and et.known else '?', p.pwrap.name, p.pcfg.name, pl)
            construct = '%s pair %d' % (r.construct, p.n)
            if problems:
                chk.bad('C05.pair', rec.mod.path, construct, detail, '; '.join(problems), p.line)
            else:
                chk.ok('C05.pair', rec.mod.path, construct, detail, p.line)


def pair_problems(ctx, r, p, mtype, type_const, merged_e, merged_p, cur_p):
    idx, an = ctx['idx'], ctx['an']
    out = []
    if r.model.name != r.name:
        out.append("registered as '%s' but the factory builds %s" % (r.name, r.model.name))
    if ctx['ebase'] not in idx.mro(p.ecfg):
        out.append('%s is not an extractor configuration' % p.ecfg.name)
        return out
    if ctx['pbase'] not in idx.mro(p.pcfg):
        out.append('%s is not a parser configuration' % p.pcfg.name)
        return out
    et = an.prop(p.ecfg, 'extract_type')
    if et is None or not et.known:
        raise AnalysisError('%s.extract_type cannot be evaluated' % p.ecfg.qual)
    if et.value != type_const:
        out.append("%s extracts type '%s' but the model is %s ('%s' expected)" % (p.ecfg.name, et.value, r.model.name, type_const))
    el, pl = lang_of(ctx, p.ecfg), lang_of(ctx, p.pcfg)
    if el is None or pl is None:
        raise AnalysisError('cannot tell the language of %s / %s from their modules' % (p.ecfg.qual, p.pcfg.qual))
    if el != pl:
        out.append('extractor configuration is %s, parser configuration is %s' % (el, pl))
    if p.n == 0 and not r.culture.lower().startswith(el):
        out.append('primary pair is %s but the culture is Culture.%s' % (el, r.culture))
    em, pm = merged_e in idx.mro(p.ewrap), (merged_p in idx.mro(p.pwrap) or cur_p in idx.mro(p.pwrap))
    if em and not pm:
        out.append('%s yields compound (list) results that %s does not handle' % (p.ewrap.name, p.pwrap.name))
    if mtype == 'currency' and p.n == 0 and not (em and pm):
        out.append('primary currency pair is not BaseMergedUnitExtractor/BaseMergedUnitParser: no compound amounts, no isoCurrency')
    return out


# ---- effective culture of a configuration object ------------------------------------------------------

ABSENT = object()


def _culture_of(expr, cur, cp):
    """CultureInfo(Culture.X) -> 'X'; None -> None; the culture parameter itself -> cur; anything else -> OPAQUE"""
    if isinstance(expr, ast.Constant) and expr.value is None:
        return None
    if isinstance(expr, ast.Name) and expr.id == cp:
        return cur
    if isinstance(expr, ast.Call) and isinstance(expr.func, ast.Name) and expr.func.id == 'CultureInfo' and len(expr.args) == 1 \
            and not expr.keywords:
        a = expr.args[0]
        if isinstance(a, ast.Attribute) and isinstance(a.value, ast.Name) and a.value.id == 'Culture':
            return a.attr
    if isinstance(expr, ast.Attribute) and isinstance(expr.value, ast.Name) and expr.value.id == 'Culture':
        return expr.attr       # the bare culture code (a str, not a CultureInfo): same culture identity
    return OPAQUE


def _culture_param(fn):
    for a in fn.args.args[1:]:
        if a.arg == 'culture_info' or (a.annotation is not None and ast.unparse(a.annotation).endswith('CultureInfo')):
            return a.arg
    return None


def _pick_arg(fn, cp, args, keywords):
    """argument expression bound to parameter cp by a call, the parameter's default, or ABSENT"""
    names = [a.arg for a in fn.args.args][1:]
    i = names.index(cp)
    if i < len(args):
        return args[i]
    for k in keywords:
        if k.arg == cp:
            return k.value
    nd = len(fn.args.defaults)
    j = i - (len(names) - nd)
    if j >= 0:
        return fn.args.defaults[j]
    return ABSENT


def effective_culture(mro, call_args, call_keywords, start=0, cur_in=None, cp_in=None):
    """('culture', name | None, trail) | ('none', reason); AnalysisError when the constructor chain cannot be read.
    mro: list of objects with .name, .methods; trail: how the value was obtained"""
    for j in range(start, len(mro)):
        fn = mro[j].methods.get('__init__')
        if fn is not None:
            break
    else:
        return ('none', 'no constructor takes a culture')
    k = mro[j]
    cp = _culture_param(fn)
    if cp is None:
        return ('none', '%s.__init__ has no culture parameter' % k.name)
    e = _pick_arg(fn, cp, call_args, call_keywords)
    if e is ABSENT:
        raise AnalysisError('%s.__init__: culture argument is required but not passed' % k.name)
    cur = _culture_of(e, cur_in, cp_in)
    trail = ['argument' if (e in call_args or any(e is kw.value for kw in call_keywords)) else 'parameter default']
    if cur is OPAQUE:
        raise AnalysisError('%s(...): culture argument %s is not CultureInfo(Culture.X) / None' % (k.name, ast.unparse(e)[:60]))
    for st in fn.body:
        if isinstance(st, ast.If):
            t = st.test
            isnone = (isinstance(t, ast.Compare) and isinstance(t.left, ast.Name) and t.left.id == cp and len(t.ops) == 1
                      and isinstance(t.ops[0], ast.Is) and isinstance(t.comparators[0], ast.Constant) and t.comparators[0].value is None) \
                or (isinstance(t, ast.UnaryOp) and isinstance(t.op, ast.Not) and isinstance(t.operand, ast.Name) and t.operand.id == cp)
            writes = [a for a in ast.walk(st) if isinstance(a, ast.Assign) and any(isinstance(x, ast.Name) and x.id == cp for x in a.targets)]
            if not writes:
                continue
            if not isnone or st.orelse or len(writes) != 1 or writes[0] not in st.body:
                raise AnalysisError('%s.__init__:%d conditional culture default not understood' % (k.name, st.lineno))
            if cur is None:
                cur = _culture_of(writes[0].value, cur, cp)
                if cur is OPAQUE:
                    raise AnalysisError('%s.__init__:%d culture default is not CultureInfo(Culture.X)' % (k.name, st.lineno))
                trail.append('default of %s.__init__' % k.name)
            continue
        if isinstance(st, ast.Assign) and any(isinstance(x, ast.Name) and x.id == cp for x in st.targets):
            cur = _culture_of(st.value, cur, cp)
            if cur is OPAQUE:
                raise AnalysisError('%s.__init__:%d culture reassigned from %s' % (k.name, st.lineno, ast.unparse(st.value)[:60]))
            trail.append('overwritten in %s.__init__' % k.name)
            continue
        if isinstance(st, ast.Expr) and isinstance(st.value, ast.Call) and _is_super_init(st.value):
            r = effective_culture(mro, st.value.args, st.value.keywords, j + 1, cur, cp)
            if r[0] == 'culture':
                return ('culture', r[1], trail + [x for x in r[2] if x not in ('argument', 'parameter default')])
            continue
        if isinstance(st, (ast.Assign, ast.AnnAssign)):
            tg = st.targets if isinstance(st, ast.Assign) else [st.target]
            if any(_self_attr(x) and x.attr.lstrip('_') == 'culture_info' for x in tg) and st.value is not None:
                v = _culture_of(st.value, cur, cp)
                if v is OPAQUE:
                    raise AnalysisError('%s.__init__:%d culture_info stored from %s' % (k.name, st.lineno, ast.unparse(st.value)[:60]))
                return ('culture', v, trail)
    return ('culture', cur, trail)


def culture_problem(eff, registered, secondary, lang):
    """C05.culture detector: eff = effective Culture member name (or None)"""
    if eff is None:
        return 'no culture at all (None)'
    if eff == registered:
        return None
    if secondary and eff.lower().startswith(lang):
        return None     # fallback pair of another language keeps that language's culture
    return 'Culture.%s' % eff


def rule_culture(ctx):
    chk, idx, rec = ctx['chk'], ctx['idx'], ctx['rec']
    # does any extractor read its configuration's culture?
    reads = []
    for mname, mod in idx.mods.items():
        if mname.startswith(NWU + '.') and mname.endswith('extractors'):
            for n in ast.walk(mod.tree):
                if isinstance(n, ast.Attribute) and n.attr == 'culture_info' and isinstance(n.ctx, ast.Load) \
                        and not (isinstance(n.value, ast.Name) and n.value.id == 'self'):
                    reads.append('%s:%d' % (mod.rel, n.lineno))
    for r in ctx['regs']:
        for p in r.pairs:
            for side, cfg, call in (('extractor', p.ecfg, p.eargs), ('parser', p.pcfg, p.pargs)):
                construct = '%s pair %d %s %s' % (r.construct, p.n, side, cfg.name)
                res = effective_culture(idx.mro(cfg), call.args, call.keywords)
                if res[0] == 'none':
                    chk.exempt('C05.culture', rec.mod.path, construct, res[1], '', p.line)
                    continue
                eff, trail = res[1], ' <- '.join(res[2])
                lang = lang_of(ctx, cfg) or ''
                prob = culture_problem(eff, r.culture, p.n > 0, lang)
                detail = 'effective=%s registered=%s' % (eff, r.culture)
                if prob is None:
                    chk.ok('C05.culture', rec.mod.path, construct, detail, p.line)
                elif side == 'extractor' and not reads:
                    chk.exempt('C05.culture', rec.mod.path, construct, 'effective culture is %s, but no extractor reads '
                               'config.culture_info (it only matters on the parser side)' % prob, detail, p.line)
                else:
                    chk.bad('C05.culture', rec.mod.path, construct, detail,
                            "%s is built with %s (%s) inside the Culture.%s registration: numbers of Culture.%s input are parsed "
                            'and formatted with the other culture\'s decimal/thousands marks' % (cfg.name, prob, trail, r.culture, r.culture),
                            p.line)


def rule_entry(ctx):
    chk, idx, an, rec = ctx['chk'], ctx['idx'], ctx['an'], ctx['rec']
    by_name = {}
    for r in ctx['regs']:
        by_name.setdefault(r.name, set()).add(model_type(an, r.model))
    n = 0
    for fname, fn in sorted(rec.mod.funcs.items()):
        if not fname.startswith('recognize_'):
            continue
        t = fname[len('recognize_'):]
        getters = [c.func.attr for c in ast.walk(fn) if isinstance(c, ast.Call) and isinstance(c.func, ast.Attribute)
                   and c.func.attr.startswith('get_') and c.func.attr.endswith('_model')]
        if len(getters) != 1 or getters[0] not in rec.methods:
            raise AnalysisError('%s: getter call not recognised (%s)' % (fname, getters))
        g = rec.methods[getters[0]]
        names = [c.args[0].value for c in ast.walk(g) if isinstance(c, ast.Call) and isinstance(c.func, ast.Attribute)
                 and c.func.attr == 'get_model' and c.args and isinstance(c.args[0], ast.Constant)]
        if len(names) != 1:
            raise AnalysisError('%s.%s: get_model(<literal>) not recognised' % (rec.name, getters[0]))
        types = sorted(by_name.get(names[0], ()))
        n += 1
        chk.judge(types == [t], 'C05.entry', rec.mod.path, fname, '%s -> %s -> %s' % (getters[0], names[0], types),
                  "%s() obtains model '%s' whose type name is %s, not '%s'" % (fname, names[0], types or 'unregistered', t), fn.lineno)
    return n


# ---- tables of one configuration --------------------------------------------------------------------

def _parts(v):
    return v.parts if v.parts else [v]


def res_loc(ctx, prov):
    """(path, line) of the first resource table a value was read from"""
    for q, a in prov:
        try:
            c = ctx['idx'].cls(q)
        except AnalysisError:
            continue
        n = c.attrs.get(a)
        return c.mod.path, getattr(n, 'lineno', c.node.lineno)
    return None, None


def extractor_tables(ctx, ecfg):
    """{'suffix'|'prefix': [(table name, dict, Val)]}, or a string describing why it cannot be built; emits C05.merge / C05.side once"""
    cache = ctx.setdefault('_etabs', {})
    if ecfg.qual in cache:
        return cache[ecfg.qual]
    chk, an = ctx['chk'], ctx['an']
    out = {}
    for side, pname in (('suffix', 'suffix_list'), ('prefix', 'prefix_list')):
        v = an.prop(ecfg, pname)
        if v is None or v.value is OPAQUE:
            raise AnalysisError('%s.%s: wiring expression not understood' % (ecfg.qual, pname))
        if v.value is MISSING:
            out = '%s.%s reads undefined %s' % (ecfg.name, pname, tabname(v.prov) if v.prov else 'abstract property')
            break
        if v.value is None:
            v = Val({}, line=v.line, path=v.path)
        if not isinstance(v.value, dict):
            raise AnalysisError('%s.%s does not evaluate to a dict' % (ecfg.qual, pname))
        tabs = []
        for part in _parts(v):
            if not all(isinstance(x, str) for kv in part.value.items() for x in kv):
                raise AnalysisError('%s.%s: table %s is not str -> str' % (ecfg.qual, pname, tabname(part.prov)))
            tabs.append((tabname(part.prov), part.value, part))
        out[side] = tabs
        path = v.path or ecfg.mod.path
        if v.parts:
            col = merge_collisions([(n, d) for n, d, _ in tabs])
            construct = '%s.%s {**...}' % (ecfg.name, pname)
            if col:
                for k, a, b in col:
                    chk.bad('C05.merge', path, construct, "key '%s': %s vs %s" % (k, a, b),
                            "unit key '%s' is in both %s and %s with different spellings; the merge keeps only the later list, "
                            'the parser binds both' % (k, a, b), v.line)
            else:
                chk.ok('C05.merge', path, construct, ' | '.join(n for n, _, _ in tabs), v.line)
        for n, d, part in tabs:
            for q, a in part.prov:
                wrong = ('Prefix' in a and side == 'suffix') or ('Suffix' in a and side == 'prefix')
                construct = '%s.%s <- %s' % (ecfg.name, pname, n)
                if 'Prefix' not in a and 'Suffix' not in a:
                    chk.exempt('C05.side', path, construct, 'table name carries no side', line=part.line or v.line)
                else:
                    chk.judge(not wrong, 'C05.side', path, construct, side,
                              '%s is wired into %s: its units are looked for on the wrong side of the number' % (n, pname),
                              part.line or v.line)
    cache[ecfg.qual] = out
    return out


def map_origin(ctx, pcfg):
    """('fresh' | 'shared', Val) for the map add_dict_to_unit_map binds into while pcfg's constructors run"""
    cache = ctx.setdefault('_origins', {})
    if pcfg.qual in cache:
        return cache[pcfg.qual]
    an = ctx['an']
    st = an.state(pcfg)
    name = an.map_attr
    tg = st.unit_targets
    if tg and any(t is not tg[0] for t in tg):
        raise AnalysisError('%s: %s is re-assigned between add_dict_to_unit_map calls' % (pcfg.qual, name))
    v = tg[0] if tg and tg[0] is not None else an.attr(pcfg, name, st)
    if v is None:
        raise AnalysisError('%s: no attribute %s on the instance or its classes when add_dict_to_unit_map runs' % (pcfg.qual, name))
    if tg and tg[0] is None and st.attrs.get(name) is not None:
        raise AnalysisError('%s: %s is assigned only after add_dict_to_unit_map has run' % (pcfg.qual, name))
    if v.fresh is True:
        if not v.known or v.value != {}:
            raise AnalysisError('%s: %s starts from a non-empty or unknown value (%s)' % (pcfg.qual, name, v.origin))
        res = ('fresh', v)
    elif v.fresh is False:
        res = ('shared', v)
    else:
        raise AnalysisError('%s: cannot tell whether %s (%s) is created per instance' % (pcfg.qual, name, v.origin))
    cache[pcfg.qual] = res
    return res


def cross_bindings(tables_by_cfg, tf=None):
    """{cfg: ordered [(table, dict)]} bound into ONE map -> spellings that different configurations bind to different units"""
    seen, out = {}, {}
    for cfg, tabs in tables_by_cfg.items():
        um, _, _ = replay_unit_map(tabs, True, tf)
        for tok, unit in um.items():
            if tok in seen and seen[tok][1] != unit:
                out.setdefault(tok, {seen[tok]}).add((cfg, unit))
            seen.setdefault(tok, (cfg, unit))
    return out


def rule_fresh(ctx):
    chk, an = ctx['chk'], ctx['an']
    shared = {}
    pcfgs = {}
    for p in ctx['pairs'].values():
        pcfgs[p.pcfg.qual] = p.pcfg
    for q, pcfg in sorted(pcfgs.items()):
        kind, v = map_origin(ctx, pcfg)
        if kind == 'fresh':
            chk.ok('C05.fresh', v.path or pcfg.mod.path, '%s.%s' % (pcfg.name, an.map_attr), 'per-instance ' + v.origin, v.line)
        else:
            shared.setdefault((v.path, v.line, v.origin), []).append(pcfg)
    for (path, line, origin), cfgs in sorted(shared.items(), key=lambda kv: str(kv[0])):
        tabs = {}
        for c in cfgs:
            pa = parser_tables(ctx, c)
            if not isinstance(pa, str):
                tabs[c.name] = [(n, d) for n, d, _, _, _ in pa]
        cross = cross_bindings(tabs, ctx['mech']['bind_tf'])
        ex = ['%r: %s' % (tok, ' / '.join("'%s' (%s)" % (u, c) for c, u in sorted(v))) for tok, v in sorted(cross.items())[:4]]
        chk.bad('C05.fresh', path or cfgs[0].mod.path, '%s shared by %d configurations' % (an.map_attr, len(cfgs)),
                origin,
                "add_dict_to_unit_map binds into %s, one object shared by %s: the tables of every configuration built in the "
                'process end up in ONE map under first-binding-wins, so the unit of a spelling depends on which model was built '
                'first; %d spelling(s) are listed under different units by different configurations, e.g. %s'
                % (origin, ', '.join(c.name for c in cfgs[:4]) + (' ...' if len(cfgs) > 4 else ''), len(cross), '; '.join(ex)), line)


def parser_tables(ctx, pcfg):
    """ordered [(table name, dict, line, path, prov)] or a string describing why it cannot be built"""
    cache = ctx.setdefault('_ptabs', {})
    if pcfg.qual in cache:
        return cache[pcfg.qual]
    st = ctx['an'].state(pcfg)
    map_origin(ctx, pcfg)       # AnalysisError when the bound-into map cannot be classified
    out = []
    for v, line, path in st.unit_calls:
        if v.value is OPAQUE:
            raise AnalysisError('%s:%d add_dict_to_unit_map argument not understood' % (rel(path), line))
        if v.value is MISSING:
            out = '%s binds undefined %s' % (pcfg.name, tabname(v.prov))
            break
        if v.value is None:
            continue
        if not isinstance(v.value, dict) or not all(isinstance(x, str) for kv in v.value.items() for x in kv):
            raise AnalysisError('%s:%d add_dict_to_unit_map argument is not a str -> str table' % (rel(path), line))
        for part in _parts(v):
            out.append((tabname(part.prov), part.value, line, path, part.prov))
    cache[pcfg.qual] = out
    return out


def rule_tables(ctx, p, ex, pa):
    chk = ctx['chk']
    construct = '%s ~ %s' % (p.ecfg.name, p.pcfg.name)
    path = p.pcfg.mod.path
    line = ctx['an'].idx.find_method(p.pcfg, '__init__')[1].lineno
    for side in (ex, pa):
        if isinstance(side, str):
            chk.bad('C05.tables', path, construct, side, side + ' (AttributeError when the model is built)', line)
            return
    e_sp = {}
    for side in ('suffix', 'prefix'):
        for n, d, _ in ex[side]:
            for unit, forms in d.items():
                for t in split_spellings(forms):
                    if not t.isspace():
                        e_sp.setdefault(t, n)
    tf = ctx['mech']['bind_tf']
    um, by, _ = replay_unit_map([(n, d) for n, d, _, _, _ in pa], ctx['mech']['first_wins'], tf)
    et = sorted({n for s in ('suffix', 'prefix') for n, _, _ in ex[s]})
    pt = sorted({n for n, _, _, _, _ in pa})
    e_keys = {tf.bkey(t) for t in e_sp}
    only_e = sorted(t for t in e_sp if tf.bkey(t) not in um)
    only_p = sorted(t for t in um if t not in e_keys)
    if not e_sp or not um:
        chk.bad('C05.tables', path, construct, 'empty', 'registered configuration pair has %d extractor spellings and %d bound '
                'spellings' % (len(e_sp), len(um)), line)
        return
    if only_e or only_p:
        tdiff = 'extractor-only tables %s, parser-only tables %s' % (sorted(set(et) - set(pt)), sorted(set(pt) - set(et)))
        detail = 'matched-not-bound=%s bound-not-matched=%s' % (only_e[:40], only_p[:40])
        msg = ('%d spelling(s) matched by the extractor are never bound by the parser (entity dropped) e.g. %s [%s]; '
               '%d bound spelling(s) are never matched e.g. %s [%s]; %s'
               % (len(only_e), only_e[:3], e_sp.get(only_e[0]) if only_e else '', len(only_p), only_p[:3],
                  by.get(only_p[0]) if only_p else '', tdiff))
        chk.bad('C05.tables', path, construct, detail, msg, line)
    else:
        chk.ok('C05.tables', path, construct, 'tables: ' + ' | '.join(pt), line)


def rule_shadow_key_case(ctx, p, ex, pa):
    """per parser configuration: C05.shadow per spelling, C05.key / C05.case per bound table; returns #surface forms"""
    chk, an, mech = ctx['chk'], ctx['an'], ctx['mech']
    if isinstance(ex, str) or isinstance(pa, str):
        return 0
    pcfg = p.pcfg
    tf = mech['bind_tf']
    um, by, shadows = replay_unit_map([(n, d) for n, d, _, _, _ in pa], mech['first_wins'], tf)
    shadowed = {(tok, unit, tname): (bound, btab) for tok, unit, tname, bound, btab in shadows}
    conn = an.prop(pcfg, 'connector_token')
    if conn is None or not conn.known or not (conn.value is None or isinstance(conn.value, str)):
        raise AnalysisError('%s.connector_token cannot be evaluated' % pcfg.qual)
    conn = conn.value
    side_of, e_nows = {}, {'suffix': set(), 'prefix': set()}
    for side in ('suffix', 'prefix'):
        for n, d, _ in ex[side]:
            side_of.setdefault(n, set()).add(side)
            for forms in d.values():
                e_nows[side].update(nows(t) for t in split_spellings(forms))
    pre = mech['preprocess']
    nforms = 0
    for tname, tab, line, path, prov in pa:
        rpath, rline = res_loc(ctx, prov)
        rpath = rpath or path
        construct = '%s as bound by %s' % (tname, pcfg.name)
        key_fail, case_fail, blank_fail = [], [], []
        for unit, forms in tab.items():
            if not unit:
                continue
            for tok in split_spellings(forms):
                nforms += 1
                sh = shadowed.get((tok, unit, tname))
                sc = "%s['%s'] '%s'" % (tname, unit, tok)
                if sh:
                    chk.bad('C05.shadow', rpath, '%s in %s' % (sc, pcfg.name), "bound to '%s' by %s" % sh,
                            "'%s' is listed under '%s' in %s but %s already bound it to '%s' (first binding wins): '<n> %s' "
                            "resolves to unit '%s'" % (tok, unit, tname, sh[1], sh[0], tok, sh[0]), rline)
                    continue
                chk.ok('C05.shadow', rpath, '%s in %s' % (sc, pcfg.name), '', rline)
                if by.get(tf.bkey(tok)) != tname:
                    continue       # duplicate listing of the same unit in a later table
                # -- the parser finds its own key
                got, k = parser_lookup(um, tok, conn, mech['connector'])
                if got != unit:
                    why = ("key '%s' unbound" % k) if got is None else ("key '%s' -> '%s'" % (k, got))
                    (blank_fail if tok != tok.strip() else key_fail).append("'%s' (%s): %s" % (tok, unit, why))
                # -- the spelling as it looks after query normalisation
                for side in sorted(side_of.get(tname, ())):
                    text = ('5 ' + tok + ' ') if side == 'suffix' else (' ' + tok + ' 5')
                    off = 2 if side == 'suffix' else 1
                    q = pre(text)
                    if q is None:
                        chk.observe('%s: lower-casing changes the length of %r (not analysed here)' % (construct, tok))
                        continue
                    q = q[off:off + len(tok)]
                    if q == tok:
                        continue
                    prob = case_problem(tok, unit, q, e_nows[side], um, side)
                    if prob:
                        case_fail.append(prob)
        for rule, fails, what in (
                ('C05.key', key_fail, "the parser's key normalisation (connector token %r) does not find the unit" % conn),
                ('C05.blank', blank_fail, 'bind_units_string keeps blanks around a |-separated spelling, the parser strips the unit text'),
                ('C05.case', case_fail, 'QueryProcessor lower-cases the query except /%s/' % pre.expression)):
            if fails:
                fails = sorted(set(fails))
                chk.bad(rule, rpath, construct, '; '.join(fails),
                        "%d spelling(s) of %s cannot resolve to their unit: %s [%s]" % (len(fails), tname, '; '.join(fails[:4]), what), rline)
            else:
                chk.ok(rule, rpath, construct, 'connector=%r' % conn if rule == 'C05.key' else '', rline)
    return nforms


def rule_ratio_use(ctx):
    chk, idx = ctx['chk'], ctx['idx']
    c = idx.cls(NWU + '.parsers.BaseCurrencyParser')
    m = ctx['mech']['merge']
    d = m['named']
    prob = ratio_use_problem(d)
    construct = 'BaseCurrencyParser.__merge_compound_unit: amount of a named fraction unit'
    norm = 'divisor=%s lookups=%s consts=%s others=%s carried=%s' % (
        d['text'], [(sl, k) for sl, k, _ in d['lookups']], sorted(set(map(str, d['consts']))), d['others'], d['carried'])
    if prob:
        chk.bad('C05.ratio-use', c.mod.path, construct, norm,
                "%s += %s: %s. 'N <main> and M <fraction>' must resolve to N + M/ratio[<fraction>] "
                '(CurrencyFractionalRatios of the fraction unit named in the text, e.g. jiao 10, fen 100, fils 1000)'
                % (m['acc'], d.get('addend'), prob), d['line'])
    else:
        chk.ok('C05.ratio-use', c.mod.path, construct, norm, d['line'])
    b = m['bare']
    construct = 'BaseCurrencyParser.__merge_compound_unit: amount of a bare trailing number'
    if b is None:
        chk.exempt('C05.ratio-use', c.mod.path, construct, 'no bare-number branch', '')
    elif b['text'] is not None and not b['lookups'] and not b['others'] and not b['carried'] and set(b['consts']) == {100}:
        chk.ok('C05.ratio-use', c.mod.path, construct, 'divisor constant 100', b['line'])
    else:
        why = 'divisor `%s` <- %s' % (b['text'], [l[2] for l in b['lookups']] + list(map(str, b['consts'])) + b['others'])
        chk.exempt('C05.ratio-use', c.mod.path, construct,
                   'a trailing number without a unit is outside the property\'s quantifier (named fraction units); ' + why,
                   why, b['line'])
        chk.observe("C05.ratio-use: bare trailing number in 'N <main> and M' is no longer divided by the constant 100 (%s)" % why)


# ---- bracket stripping of the unit key (tabulated with sa/ointerp.py) --------------------------------------

BRACKET_PAIRS = (('(', ')'), ('[', ']'), ('{', '}'), ('<', '>'))


def bracket_strings():
    import itertools
    alpha = '()[]{}<>k '
    out = ['']
    for n in (1, 2, 3):
        out += [''.join(t) for t in itertools.product(alpha, repeat=n)]
    out += ['(km)', '[km]', '{km}', '<km>', '(km]', '<km)', 'k(m)', '((k))', '(k m)', '[ km ]', '(km) ', 'km', '(km', 'km)', '{k}m', '<<k>']
    return out


def bracket_mismatches(f):
    """f: str -> str (the code under analysis) vs the reference strip_brackets on every tabulated string"""
    bad = []
    for s_ in bracket_strings():
        got, want = f(s_), strip_brackets(s_)
        if got != want:
            bad.append((s_, got, want))
    return bad


def rule_brackets(ctx):
    from ..ointerp import Interp, FuncRef, Obj, PyExc
    chk, idx = ctx['chk'], ctx['idx']
    c = idx.cls(NWU + '.parsers.NumberWithUnitParser')
    name = ctx['mech']['bracket_helper']
    construct = 'NumberWithUnitParser.parse: bracket stripping of the unit key'
    if name is None:
        bad = bracket_mismatches(lambda x: x)
        line = c.methods['parse'].lineno
        what = 'parse applies no helper to the unit key'
    else:
        k, fn = idx.find_method(c, name)
        if fn is None:
            raise AnalysisError('NumberWithUnitParser.%s (called by parse) not found' % name)
        it = Interp(idx, where='C05.brackets', budget=20000)
        selfo = Obj(c, {})

        def f(x):
            it.budget = 20000
            try:
                r = it.call_function(FuncRef(k.mod, fn, k), [x], {}, None, selfobj=selfo)
            except PyExc as ex:
                return 'raises %s' % ex
            return r
        bad = bracket_mismatches(f)
        line = fn.lineno
        what = '%s.%s' % (k.name, name)
        construct = '%s.%s' % (k.name, name)
    n = len(bracket_strings())
    if bad:
        ex = '; '.join('%r -> %r (reference %r)' % b for b in bad[:4])
        chk.bad('C05.brackets', c.mod.path, construct, 'differs on ' + ', '.join(repr(b[0]) for b in bad[:12]),
                "%s differs from 'strip one leading and one trailing character iff the key is enclosed by one of () [] {} <>' on "
                '%d of %d tabulated keys: %s. The extractor accepts a unit written in such brackets after the number '
                "('5 (km)'), so those forms are no longer found in the unit map" % (what, len(bad), n, ex), line)
    else:
        chk.ok('C05.brackets', c.mod.path, construct, 'equals the four-pair reference on %d keys' % n, line)


# ---- number + listed unit is ONE entity (NumberWithUnitExtractor.extract interpreted with a separate-unit pattern) -----

def one_entity_texts():
    """(text, prefix chars, suffix chars, expected spans): '1' = digit, '$' = unit character"""
    out = []
    for num in ('1', '11'):
        for gap in ('', ' '):
            for unit in ('$', '$$'):
                t = num + gap + unit
                out.append((t, '', '$', [(0, len(t) - 1)]))
                out.append((t, '$', '$', [(0, len(t) - 1)]))
                t = unit + gap + num
                out.append((t, '$', '', [(0, len(t) - 1)]))
    out.append(('1$ 1$', '', '$', [(0, 1), (3, 4)]))
    out.append(('1 $ 11 $', '', '$', [(0, 2), (4, 7)]))
    out.append(('$1 $1', '$', '', [(0, 1), (3, 4)]))
    return out


def one_entity_problem(text, res, want):
    """res: [(start, inclusive end, text)] returned for `text`; want: the number+unit spans"""
    spans = sorted((s, e) for s, e, _ in res)
    if spans == sorted(want):
        return None
    inner = [(s, e) for s, e in spans if any(ws <= s and e <= we and (s, e) != (ws, we) for ws, we in want)]
    if inner:
        return 'returns %s: %s lie(s) inside a number+unit entity (%r extracted a second time as a stand-alone unit)' % (
            spans, inner, text[inner[0][0]:inner[0][1] + 1])
    return 'returns %s, expected exactly %s' % (spans, sorted(want))


def rule_one_entity(ctx):
    from ..ointerp import PyExc
    from .c12 import unitcand_run, _char_runs
    chk, idx = ctx['chk'], ctx['idx']
    cls = idx.cls(NWU + '.extractors.NumberWithUnitExtractor')
    er_cls = idx.cls('recognizers_text.extractor.ExtractResult')
    mr_cls = idx.cls('recognizers_text.matcher.match_result.MatchResult')
    fn = cls.methods.get('extract')
    if fn is None:
        raise AnalysisError('anchor vanished: NumberWithUnitExtractor.extract')
    types = []
    for nm in ('SYS_UNIT_CURRENCY', 'SYS_UNIT_DIMENSION'):
        _, node = idx.class_attr(ctx['consts'], nm)
        if not isinstance(node, ast.Constant):
            raise AnalysisError('Constants.%s not found' % nm)
        types.append((nm, node.value))
    for nm, tv in types:
        bad, n = [], 0
        for text, pre, suf, want in one_entity_texts():
            n += 1
            try:
                res = unitcand_run(idx, cls, fn, cls, text, pre, suf, er_cls, mr_cls, tv, separate=lambda src: _char_runs(src, '$'))
                prob = one_entity_problem(text, res, want)
            except PyExc as ex:
                prob = 'raises %s' % ex
            if prob:
                bad.append((text, pre, suf, prob))
        construct = 'NumberWithUnitExtractor.extract [%s]: number next to a listed unit' % nm
        if bad:
            t, pre, suf, prob = bad[0]
            chk.bad('C05.one-entity', cls.mod.path, construct, '%r (prefix units %r, suffix units %r): %s' % (t, pre, suf, prob),
                    "on the text %r (1 = digit, $ = a listed unit spelling that the separate-unit pattern also matches; prefix "
                    'matcher finds %r, suffix matcher %r) extract %s; %d of %d tabulated texts differ. A number next to a listed '
                    'spelling must come back as ONE entity covering both' % (t, pre, suf, prob, len(bad), n), fn.lineno)
        else:
            chk.ok('C05.one-entity', cls.mod.path, construct, 'one entity per number+unit on %d texts' % n, fn.lineno)


# ---- 'N main and M fraction' is ONE entity whatever else the text holds (BaseMergedUnitExtractor.extract interpreted over
# candidate lists in the order NumberWithUnitExtractor.extract hands them over) -------------------------------------------
# The grouping of BaseMergedUnitExtractor walks NEIGHBOURS OF THE LIST; NumberWithUnitExtractor.extract appends number-less
# ('separate') units behind the amounts wherever they stand in the text.  Which order the list has is read from the source
# (probe below), never assumed; the merged extractor is then interpreted with stubs that deliver exactly that order.

COMPOUND_ITEMS = {'C': ('3', ' dd'), 'E': ('3', ' ee'), 'U': ('', 'ee'), 'V': ('', 'dd')}     # number part, unit part
COMPOUND_SEPS = {'&': ' and ', ',': ', ', ';': ' xx '}
COMPOUND_CONNECTOR = 'and'
# (context name, kinds, separators); the amount under test is the last C, with the E that follows it
COMPOUND_SCENARIOS = (
    ('alone', 'CE', '&'),
    ('single amount, a number-less main unit earlier in the text', 'VC', ','),
    ('single amount, a number-less fraction unit earlier in the text', 'UC', ';'),
    ('a number-less fraction unit earlier in the text', 'UCE', ',&'),
    ('a number-less main unit earlier in the text', 'VCE', ';&'),
    ('number-less units earlier and later in the text', 'UCEV', ';&,'),
    ('two number-less units earlier in the text', 'VUCE', ',;&'),
    ('a number-less unit later in the text', 'CEU', '&,'),
    ('another amount and a number-less unit earlier in the text', 'UCCE', ',,&'),
)


def compound_layout(kinds, seps):
    """text, items [(start, end exclusive, number end exclusive, kind)]"""
    text, items = '', []
    for i, k in enumerate(kinds):
        num, unit = COMPOUND_ITEMS[k]
        s = len(text)
        text += num + unit
        items.append((s, len(text), s + len(num), k))
        if i < len(seps):
            text += COMPOUND_SEPS[seps[i]]
    return text, items


def candidate_order(items, bare_last):
    """the list order the unit extractor hands over: text order, or amounts in text order followed by the number-less units"""
    if not bare_last:
        return list(items)
    return [i for i in items if i[2] > i[0]] + [i for i in items if i[2] == i[0]]


def compound_run(idx, cls, fn, owner, text, items, order, er_cls, cur_type, num_type):
    """interpret BaseMergedUnitExtractor.extract on `text`; the unit extractor, the number extractor and the connector
    pattern are stubs of the checker.  Returns [(start, end inclusive, text, [(start, end inclusive) of each part])]"""
    from ..ointerp import Interp, FuncRef, Obj, Native, PyExc, native
    from .c12 import _stub_match, _regex_hooks

    def mk(s, e, typ, data, src=text):
        o = Obj(er_cls, {})
        o.attrs.update({'start': s, 'length': e - s, 'text': src[s:e], 'type': typ, 'data': data, 'meta_data': None})
        return o

    def numbers(it, a, k):
        if a[-1] != text:
            it.fail(None, 'the number extractor is asked about something that is not the source text')
        return [mk(s, ne, num_type, 'IntegerNum') for s, e, ne, kd in items if ne > s]

    def units(it, a, k):
        if a[-1] != text:
            it.fail(None, 'the unit extractor is asked about something that is not the source text')
        return [mk(s, e, cur_type, mk(0, ne - s, num_type, 'IntegerNum', text[s:e]) if ne > s else None) for s, e, ne, kd in order]

    def connector_match(it, a, k):
        s = a[0]
        if not isinstance(s, str):
            raise PyExc('TypeError: expected string')
        if not s.startswith(COMPOUND_CONNECTOR):
            return None
        m = _stub_match(s, 0, len(COMPOUND_CONNECTOR))
        m.table.update({'string': s, 'pos': 0, 'endpos': len(s)})
        return m
    cfg = Native({'extract_type': cur_type, 'unit_num_extractor': Native({'extract': native(numbers)}, 'number extractor'),
                  'compound_unit_connector_regex': Native({'match': native(connector_match)}, 'pattern<connector>')}, 'config')
    hooks = dict(_regex_hooks())
    hooks['NumberWithUnitExtractor'] = lambda it, a, k: Native({'extract': native(units)}, 'unit extractor')
    it = Interp(idx, hooks=hooks, where='C05.compound-order %s.%s' % (cls.name, fn.name), budget=400000)
    out = it.call_function(FuncRef(cls.mod, fn, owner), [text], {}, None, selfobj=Obj(cls, {'config': cfg}))
    if not isinstance(out, list):
        raise AnalysisError('%s.%s does not return a list of results' % (cls.name, fn.name))

    def span(o, what):
        s, l = (o.attrs.get('start'), o.attrs.get('length')) if isinstance(o, Obj) else (None, None)
        if not isinstance(s, int) or not isinstance(l, int):
            raise AnalysisError('%s.%s returns %s without integer start/length' % (cls.name, fn.name, what))
        return s, s + l - 1
    res = []
    for o in out:
        s, e = span(o, 'a result')
        t, d = o.attrs.get('text'), o.attrs.get('data')
        if not isinstance(t, str):
            raise AnalysisError('%s.%s returns a result without str text' % (cls.name, fn.name))
        res.append((s, e, t, [span(p, 'a compound part') for p in d] if isinstance(d, list) else None))
    return res


def compound_problem(text, items, res):
    """the amount under test - the last main amount C of `items` with the fraction amount E that follows it, if one does -
    must come back as one entity [start of C, end of E] carrying its slice of the text and, for a pair, the two amounts, main
    amount first, as its parts; nothing else returned may overlap it"""
    c = [i for i, it_ in enumerate(items) if it_[3] == 'C']
    if not c:
        raise AnalysisError('C05.compound-order: scenario without a main amount')
    main = items[c[-1]]
    frac = items[c[-1] + 1] if c[-1] + 1 < len(items) and items[c[-1] + 1][3] == 'E' else None
    ws, we = main[0], (frac or main)[1] - 1
    whole = [r for r in res if (r[0], r[1]) == (ws, we)]
    spans = [(r[0], r[1]) for r in res]
    if not whole:
        return 'the amount %r [%d,%d] is not returned as one entity; returned spans %s (texts %s)' % (
            text[ws:we + 1], ws, we, spans, [r[2] for r in res])
    if len(whole) > 1:
        return 'the amount %r [%d,%d] is returned %d times' % (text[ws:we + 1], ws, we, len(whole))
    s, e, t, parts = whole[0]
    if t != text[ws:we + 1]:
        return 'the entity [%d,%d] has text %r, its span addresses %r' % (s, e, t, text[ws:we + 1])
    want = [(main[0], main[1] - 1)] + ([(frac[0], frac[1] - 1)] if frac else [])
    if parts != want and (frac or parts is not None):
        return 'the entity %r [%d,%d] carries the parts %s, expected %s %s' % (
            t, s, e, parts, 'the main amount then the fraction amount' if frac else 'the amount alone', want)
    for r in res:
        if r is not whole[0] and r[0] <= we and ws <= r[1]:
            return 'the entity %r [%d,%d] overlaps the amount %r [%d,%d]' % (r[2], r[0], r[1], t, ws, we)
    return None


def probe_candidate_order(ctx):
    """does NumberWithUnitExtractor.extract hand a number-less unit that stands BEFORE an amount over behind it?
    -> True / False / None (the probe does not deliver both candidates: C05.one-entity's business)"""
    from ..ointerp import PyExc
    from .c12 import unitcand_run, _char_runs
    idx = ctx['idx']
    cls = idx.cls(NWU + '.extractors.NumberWithUnitExtractor')
    er_cls = idx.cls('recognizers_text.extractor.ExtractResult')
    mr_cls = idx.cls('recognizers_text.matcher.match_result.MatchResult')
    fn = cls.methods.get('extract')
    if fn is None:
        raise AnalysisError('anchor vanished: NumberWithUnitExtractor.extract')
    _, node = idx.class_attr(ctx['consts'], 'SYS_UNIT_CURRENCY')
    if not isinstance(node, ast.Constant):
        raise AnalysisError('Constants.SYS_UNIT_CURRENCY not found')
    verdicts = set()
    for text, bare, amount in (('$ x 1$', (0, 0), (4, 5)), ('$ x 1 $ x 1$', (0, 0), (4, 6))):
        try:
            res = unitcand_run(idx, cls, fn, cls, text, '', '$', er_cls, mr_cls, node.value, separate=lambda src: _char_runs(src, '$'))
        except PyExc:
            return None
        spans = [(s, e) for s, e, _ in res]
        if bare not in spans or amount not in spans:
            return None
        verdicts.add(spans.index(bare) > spans.index(amount))
    if len(verdicts) != 1:
        raise AnalysisError('C05.compound-order: NumberWithUnitExtractor.extract orders its candidates differently on the two probe texts')
    return verdicts.pop()


def rule_compound_order(ctx):
    from ..ointerp import PyExc
    chk, idx = ctx['chk'], ctx['idx']
    rid = 'C05.compound-order'
    cls = idx.cls(NWU + '.extractors.BaseMergedUnitExtractor')
    er_cls = idx.cls('recognizers_text.extractor.ExtractResult')
    owner, fn = idx.find_method(cls, 'extract')
    if fn is None:
        raise AnalysisError('anchor vanished: BaseMergedUnitExtractor.extract')
    vals = []
    for nm in ('SYS_UNIT_CURRENCY', 'SYS_NUM'):
        _, node = idx.class_attr(ctx['consts'], nm)
        if not isinstance(node, ast.Constant) or not isinstance(node.value, str):
            raise AnalysisError('Constants.%s not found' % nm)
        vals.append(node.value)
    cur, num = vals
    bare_last = probe_candidate_order(ctx)
    if bare_last is None:
        chk.observe('C05.compound-order: the probe of NumberWithUnitExtractor.extract does not return a number-less unit next to '
                    'an amount; only text-ordered candidate lists are tabulated')
    orders = [('text order', False)] + ([('amounts first, number-less units behind them (what NumberWithUnitExtractor.extract '
                                          'returns)', True)] if bare_last else [])
    line = fn.lineno
    for nm_ in ('__merge_pure_number', '__merged_compound_units'):
        if nm_ in cls.methods:
            line = cls.methods[nm_].lineno
            break
    joined = 0
    for name, kinds, seps in COMPOUND_SCENARIOS:
        text, items = compound_layout(kinds, seps)
        probs = []
        for oname, bl in orders:
            order = candidate_order(items, bl)
            if bl and order == items:
                continue
            try:
                res = compound_run(idx, cls, fn, owner, text, items, order, er_cls, cur, num)
                prob = compound_problem(text, items, res)
                joined += prob is None and 'E' in kinds
            except PyExc as ex:
                prob = 'raises %s' % ex
            if prob:
                probs.append((oname, [text[s:e] for s, e, _, _ in order], prob))
        construct = "BaseMergedUnitExtractor.extract [currency]: %s%s" % ("'N main and M fraction', " if 'E' in kinds else '', name)
        if probs:
            oname, lst, prob = probs[0]
            chk.bad(rid, cls.mod.path, construct, '%r, candidates %s: %s' % (text, lst, prob),
                    'on the text %r (dd = a main unit, ee = its fraction unit, %r = the compound connector) with the candidate list '
                    '%s in %s: %s. The grouping walks neighbours of the LIST, so the list has to be in text order on every path '
                    'before it is grouped; the amount must come back as one entity with the main and the fraction amount as its '
                    "parts ('how many cents are 5 dollars and 30 cents')" % (text, COMPOUND_CONNECTOR, lst, oname, prob), line)
        else:
            chk.ok(rid, cls.mod.path, construct, 'one entity with parts (main, fraction) on %r' % text, line)
    if not joined:
        raise AnalysisError('BaseMergedUnitExtractor.extract (currency) joins the main and the fraction amount on none of the %d '
                            'scenarios: the tabulation does not reach the grouping step' % len(COMPOUND_SCENARIOS))
    chk.observe('C05.compound-order: candidate order read from NumberWithUnitExtractor.extract: number-less units %s'
                % ('behind the amounts' if bare_last else 'in text order' if bare_last is False else 'not delivered by the probe'))


# ---- the emitted value is the number parser's string, culture-formatted no further time (BaseCurrencyParser.parse) ----

def iso_value_problem(has_iso_field, iso_out, iso_in):
    """C05.iso-value detector: what the single-amount path must emit for a unit whose table code is iso_in
    (None: unit not in CurrencyNameToIsoCodeMap; '_X': internal placeholder code)"""
    if iso_in is not None and iso_in.startswith('_'):
        if has_iso_field:
            return 'a unit with the placeholder code %r comes out as CurrencyUnitValue with iso_currency %r (placeholder codes must ' \
                   'never be emitted: UnitValue expected)' % (iso_in, iso_out)
        return None
    if not has_iso_field:
        return 'a unit with table code %r comes out as UnitValue (no isoCurrency in the resolution)' % (iso_in,)
    if iso_out != iso_in:
        return 'a unit with table code %r comes out with iso_currency %r' % (iso_in, iso_out)
    return None


def iso_provenance_problem(d):
    """compound path: description (analyse_merge.describe) of the ISO argument handed to __create_currency_result"""
    if d['others']:
        return 'may hold %s' % '; '.join(d['others'][:3])
    if not d['lookups']:
        return 'is never looked up in a table (%s)' % d['consts']
    for slot, keys, text in d['lookups']:
        if slot != 'currency_name_to_iso_code_map':
            return 'is looked up in config.%s (%s)' % (slot, text)
        badk = [k for k in keys if not k.endswith('.unit')]
        if badk or not keys:
            return 'is looked up under %s, not under the unit name' % (badk or text)
    return None


def format_tag_problem(number, sent):
    """number: what the currency parser emits for the unit parser's number `sent` when culture_info.format tags its argument"""
    if number == sent:
        return None
    if isinstance(number, str) and sent in number:
        return 'the number %r comes out as %r: culture_info.format() was applied %d more time(s)' % (sent, number, number.count('fmt('))
    return 'the number %r comes out as %r' % (sent, number)


def rule_format_once(ctx):
    from ..ointerp import Interp, FuncRef, Obj, Native, PyExc, native
    chk, idx = ctx['chk'], ctx['idx']
    # compound path: the ISO argument of every __create_currency_result call in __merge_compound_unit
    mc = idx.cls(NWU + '.parsers.BaseCurrencyParser')
    for n_, d_ in enumerate(ctx['mech']['merge']['iso_args']):
        pr = iso_provenance_problem(d_)
        cons = 'BaseCurrencyParser.__merge_compound_unit: ISO code handed to __create_currency_result (#%d)' % n_
        det = 'arg=%s lookups=%s others=%s' % (d_['text'], [(sl, k) for sl, k, _ in d_['lookups']], d_['others'])
        if pr:
            chk.bad('C05.iso-value', mc.mod.path, cons, det, 'the ISO code `%s` of a compound amount %s; it must be '
                    'config.currency_name_to_iso_code_map[unit name of the main unit]' % (d_['text'], pr), mc.methods['__merge_compound_unit'].lineno)
        else:
            chk.ok('C05.iso-value', mc.mod.path, cons, det, mc.methods['__merge_compound_unit'].lineno)
    c = idx.cls(NWU + '.parsers.BaseCurrencyParser')
    fn = c.methods.get('parse')
    if fn is None:
        raise AnalysisError('anchor vanished: BaseCurrencyParser.parse')
    er_cls = idx.cls('recognizers_text.extractor.ExtractResult')
    pr_cls = idx.cls('recognizers_text.parser.ParseResult')
    _, cur = idx.class_attr(ctx['consts'], 'SYS_UNIT_CURRENCY')
    SENT = '2,5'
    cases = (('unit with an ISO code', 'Euro', 'EUR'), ('unit with an internal (fake) ISO code', 'Pound', '_P'),
             ('unit without ISO code', 'Thing', None))
    for what, unit, iso in cases:
        def typing_list(it2, a, k):          # stands for typing.List, only ever used as an isinstance target
            raise PyExc('typing.List called')

        def isinstance_hook(it2, a, k):
            if len(a) == 2 and a[1] is typing_list:
                return isinstance(a[0], list)
            return it2.isinstance_(a[0], a[1], None)
        it = Interp(idx, hooks={'name:List': typing_list, 'name:isinstance': isinstance_hook}, where='C05.format-once', budget=100000)
        isomap = {}
        if iso is not None:
            isomap[unit] = (unit, iso)
        isomap[SENT] = (SENT, 'NUM')          # a lookup by the number instead of the unit name shows up as code NUM

        def inner_parse(it2, a, k, unit=unit):
            return Obj(pr_cls, {'start': 0, 'length': 8, 'text': '2,5 unit', 'type': cur.value, 'data': None, 'meta_data': None,
                                'resolution_str': SENT + ' ' + unit, 'timex_str': None,
                                'value': Native({'number': SENT, 'unit': unit}, 'UnitValue')})
        cfg = Native({'culture_info': Native({'format': native(lambda it2, a, k: 'fmt(%s)' % (a[0],))}, 'culture_info'),
                      'currency_name_to_iso_code_map': isomap, 'currency_fraction_code_list': {}, 'currency_fraction_num_map': {},
                      'currency_fraction_mapping': {}}, 'config')
        selfo = Obj(c, {'config': cfg, 'number_with_unit_parser': Native({'parse': native(inner_parse)}, 'unit parser')})
        src = Obj(er_cls, {'start': 0, 'length': 8, 'text': '2,5 unit', 'type': cur.value, 'data': Obj(er_cls, {}), 'meta_data': None})
        construct = 'BaseCurrencyParser.parse (single amount, %s)' % what
        try:
            ret = it.call_function(FuncRef(c.mod, fn, c), [src], {}, None, selfobj=selfo)
            val = it.getattr(ret, 'value', None, c)
            number = it.getattr(val, 'number', None, c)
            uname = it.getattr(val, 'unit', None, c)
        except PyExc as ex:
            chk.bad('C05.format-once', c.mod.path, construct, 'raises', 'interpreting the single-amount path raises %s' % ex, fn.lineno)
            chk.bad('C05.iso-value', c.mod.path, construct, 'raises', 'interpreting the single-amount path raises %s' % ex, fn.lineno)
            continue
        has_iso = isinstance(val, Obj) and 'iso_currency' in val.attrs
        iprob = iso_value_problem(has_iso, val.attrs.get('iso_currency') if has_iso else None, iso)
        iconstruct = 'BaseCurrencyParser.parse (single amount, %s): emitted value' % what
        idetail = 'table code %r -> %s' % (iso, ('CurrencyUnitValue iso_currency=%r' % (val.attrs.get('iso_currency'),)) if has_iso else 'UnitValue')
        if iprob:
            chk.bad('C05.iso-value', c.mod.path, iconstruct, idetail,
                    "%s. isoCurrency must be CurrencyNameToIsoCodeMap[unit name]; internal codes starting with '_' are never "
                    'emitted' % iprob, fn.lineno)
        else:
            chk.ok('C05.iso-value', c.mod.path, iconstruct, idetail, fn.lineno)
        prob = format_tag_problem(number, SENT)
        if prob is None and uname != unit:
            prob = 'the unit %r comes out as %r' % (unit, uname)
        if prob:
            chk.bad('C05.format-once', c.mod.path, construct, 'number %r -> %r' % (SENT, number),
                    "%s. The unit parser's number is already the culture-formatted resolution string; CultureInfo.format maps the "
                    "decimal and thousands marks character by character, so a second application turns the decimal comma of "
                    "'2,5' into '2.5' (de, fr, es, it, pt, nl)" % prob, fn.lineno)
        else:
            chk.ok('C05.format-once', c.mod.path, construct, 'number passed through unformatted', fn.lineno)


# ---- prefix selection in NumberWithUnitExtractor.extract (tabulated with sa/ointerp.py) ---------------------

def find_prefix_selection(fn):
    """the statements of `extract` that choose the prefix unit on the left of a number, and the name they leave it in:
    the block ends at `if <best> is not None:` whose body registers the unit (add_element)"""
    par = _parents(fn)
    cands = []
    for n in ast.walk(fn):
        if isinstance(n, ast.If) and isinstance(n.test, ast.Compare) and isinstance(n.test.left, ast.Name) \
                and len(n.test.ops) == 1 and isinstance(n.test.ops[0], ast.IsNot) and isinstance(n.test.comparators[0], ast.Constant) \
                and n.test.comparators[0].value is None and _calls(n, 'add_element'):
            cands.append(n)
    if len(cands) != 1:
        raise AnalysisError('NumberWithUnitExtractor.extract: `if <best match> is not None: ... add_element(...)` found %d times' % len(cands))
    use = cands[0]
    best = use.test.left.id
    block = None
    for field in ('body', 'orelse'):
        b = getattr(par[use], field, None)
        if isinstance(b, list) and use in b:
            block = b
    if block is None:
        raise AnalysisError('NumberWithUnitExtractor.extract: enclosing block of the prefix selection not found')
    stmts = block[:block.index(use)]
    if not any(isinstance(t, ast.Name) and t.id == best for st in stmts for a in ast.walk(st) if isinstance(a, (ast.Assign, ast.AnnAssign))
               for t in (a.targets if isinstance(a, ast.Assign) else [a.target])):
        raise AnalysisError('NumberWithUnitExtractor.extract: %s is not assigned in the block before its use' % best)
    return stmts, best, use.lineno


PREFIX_WORDS = ('aa', 'bb', '$')


def prefix_scenarios():
    """(source, number start, [(start, length, text)] sorted by start, expected chosen start | None)
    candidates are the token-suffixes of 'aa bb $' ending at the number (with or without a blank), every non-empty subset
    of them, optionally a match that does not reach the number and a match that lies behind the number"""
    out = []
    for gap in (' ', ''):
        unit = ' '.join(PREFIX_WORDS)
        source = 'x ' + unit + gap + '3 $'
        base = 2
        start = base + len(unit) + len(gap)
        sufs = []
        pos = base
        for i, w in enumerate(PREFIX_WORDS):
            text = ' '.join(PREFIX_WORDS[i:])
            sufs.append((pos, len(text), text))
            pos += len(w) + 1
        short = (base, len(PREFIX_WORDS[0]), PREFIX_WORDS[0])            # 'aa' alone: ends before the number
        behind = (start + 2, 1, '$')                                    # the '$' after the number
        for mask in range(1, 2 ** len(sufs)):
            chosen = [m for i, m in enumerate(sufs) if mask & (1 << i)]
            for extra in ((), (short,), (behind,), (short, behind)):
                ms = sorted(chosen + list(extra), key=lambda m: (m[0], -m[1]))
                out.append((source, start, ms, min(m[0] for m in chosen)))
        out.append((source, start, [short, behind], None))
    return out


def tabulate_prefix_selection(idx, stmts, best, mod, cls, where):
    """run the selection statements on every scenario -> [(scenario text, got, expected)] mismatches, n scenarios"""
    from ..ointerp import Interp, Env, PyExc
    it = Interp(idx, where=where, budget=200000)
    mr = idx.cls('recognizers_text.matcher.match_result.MatchResult')
    bad = []
    scen = prefix_scenarios()
    for source, start, ms, want in scen:
        it.budget = 200000
        objs = []
        for (st_, ln, tx) in ms:
            o = it.instantiate(mr, [st_, ln], {}, None)
            env0 = Env()
            env0.vars.update({'o': o, 't': tx})
            it.block(ast.parse('o.text = t').body, env0, mr.mod, None)
            objs.append(o)
        env = Env()
        env.vars.update({'source': source, 'start': start, 'prefix_match': objs, 'length': 1})
        try:
            it.block(stmts, env, mod, cls)
        except PyExc as ex:
            bad.append(('%r matches %s' % (source, ms), 'raises %s' % ex, want))
            continue
        ok, got = env.get(best)
        if not ok:
            raise AnalysisError('%s: %s not bound after the selection statements' % (where, best))
        gs = None if got is None else it.getattr(got, 'start', None, None)
        if gs != want:
            bad.append(('%r number at %d, prefix matches %s' % (source, start, [(a, c) for a, b, c in ms]), gs, want))
    return bad, len(scen)


def rule_prefix_pick(ctx):
    chk, idx = ctx['chk'], ctx['idx']
    c = idx.cls(NWU + '.extractors.NumberWithUnitExtractor')
    fn = c.methods.get('extract')
    if fn is None:
        raise AnalysisError('anchor vanished: NumberWithUnitExtractor.extract')
    stmts, best, line = find_prefix_selection(fn)
    bad, n = tabulate_prefix_selection(idx, stmts, best, c.mod, c, 'C05.prefix-pick')
    # table side: multi-word prefix spellings whose proper word-suffix is itself a listed prefix of the same configuration
    affected, total = [], 0
    seen = set()
    for p in ctx['pairs'].values():
        if p.ecfg.qual in seen:
            continue
        seen.add(p.ecfg.qual)
        ex = extractor_tables(ctx, p.ecfg)
        if isinstance(ex, str):
            continue
        sp = {t for _, d, _ in ex['prefix'] for forms in d.values() for t in split_spellings(forms)}
        total += len(sp)
        for t in sorted(sp):
            w = t.split()
            if len(w) > 1 and any(' '.join(w[i:]) in sp for i in range(1, len(w))):
                affected.append('%s %r' % (p.ecfg.name, t))
    construct = 'NumberWithUnitExtractor.extract: choice of the prefix unit left of a number'
    if bad:
        for scen, got, want in bad[:3]:
            chk.bad('C05.prefix-pick', c.mod.path, construct, 'chosen start %s, left-most qualifying %s: %s' % (got, want, scen),
                    'among the prefix matches that reach up to the number the code keeps the one starting at %s, not the '
                    'left-most (longest) one at %s, on %s (%d of %d tabulated configurations differ): a multi-word prefix '
                    'spelling whose tail is itself a listed prefix shrinks to that tail - %d listed prefix spellings are of '
                    'that kind, e.g. %s' % (got, want, scen, len(bad), n, len(affected), '; '.join(affected[:4])), line)
    else:
        chk.ok('C05.prefix-pick', c.mod.path, construct, 'left-most qualifying prefix match wins on all %d tabulated configurations' % n, line)
    chk.extra['prefix_spellings_with_listed_tail'] = len(affected)


# ---- currency code tables ---------------------------------------------------------------------------

SLOTS = (('currency_name_to_iso_code_map', 'own', 'CurrencyNameToIsoCodeMap'),
         ('currency_fraction_code_list', 'own', 'FractionalUnitNameToCodeMap'),
         ('currency_fraction_num_map', 'base', 'CurrencyFractionalRatios'),
         ('currency_fraction_mapping', 'base', 'CurrencyFractionMapping'))


def iso_slot_problem(wired, expected):
    """C05.iso detector on evaluated values"""
    if not isinstance(wired, dict):
        return 'not a table'
    if not wired:
        return 'left empty'
    if wired != expected:
        return 'differs from the expected table (%d entries vs %d, %d shared keys)' % (
            len(wired), len(expected), len(set(wired) & set(expected)))
    return None


def rule_currency(ctx):
    chk, idx, an = ctx['chk'], ctx['idx'], ctx['an']
    _, cnode = idx.class_attr(ctx['consts'], 'SYS_UNIT_CURRENCY')
    if cnode is None or not isinstance(cnode, ast.Constant):
        raise AnalysisError('Constants.SYS_UNIT_CURRENCY not found')
    basec = idx.cls('recognizers_number_with_unit.resources.base_currency.BaseCurrency')
    chk.consulted(basec.mod.path)
    basev = an.R.values(basec)
    done = set()
    tf0 = ctx['mech']['bind_tf']
    if tf0.key:
        # the canonical unit names themselves are transformed before binding: no bound unit equals a key of the ISO /
        # fraction tables any more, so the per-unit currency instances below legitimately vanish
        u = idx.cls(NWU + '.utilities.DictionaryUtility')
        chk.bad('C05.iso', u.mod.path, 'DictionaryUtility.bind_dictionary: unit name passed to bind_units_string', tf0.describe(),
                'the unit name is transformed (%s) before it is bound: the parser resolves every spelling to the transformed name, '
                'which is neither the table\'s canonical unit nor a key of CurrencyNameToIsoCodeMap / FractionalUnitNameToCodeMap '
                '(no isoCurrency, no fraction merge)' % tf0.describe(), u.methods['bind_dictionary'].lineno)
        chk.rules['C05.ratio']['floor'] = 0
    for (eq, pq), p in sorted(ctx['pairs'].items()):
        et = an.prop(p.ecfg, 'extract_type')
        if not (et is not None and et.known and et.value == cnode.value) or pq in done:
            continue
        done.add(pq)
        pa = parser_tables(ctx, p.pcfg)
        if isinstance(pa, str):
            continue
        pcfg = p.pcfg
        st = an.state(pcfg)
        own = sorted({q for _, _, _, _, prov in pa for q, _ in prov})
        if len(own) != 1:
            raise AnalysisError('%s binds unit tables of %d resource classes (%s)' % (pcfg.qual, len(own), own))
        ownc = idx.cls(own[0])
        chk.consulted(ownc.mod.path)
        ownv = an.R.values(ownc)
        wired = {}
        for slot, where, attr in SLOTS:
            v = an.attr(pcfg, slot, st)
            src, srcname = (ownv, ownc.name) if where == 'own' else (basev, basec.name)
            construct = '%s.%s' % (pcfg.name, slot)
            path, line = (v.path or pcfg.mod.path, v.line) if v is not None else (pcfg.mod.path, None)
            if v is None:
                chk.bad('C05.iso', path, construct, 'never assigned', '%s is never assigned' % construct, line)
                continue
            if v.value is OPAQUE:
                raise AnalysisError('%s:%s %s: wiring expression not understood' % (rel(path), line, construct))
            if attr not in src:
                chk.bad('C05.iso', path, construct, 'no %s.%s' % (srcname, attr), '%s has no table %s' % (srcname, attr), line)
                continue
            prob = 'reads an undefined table %s' % tabname(v.prov) if v.value is MISSING else iso_slot_problem(v.value, src[attr])
            if prob:
                chk.bad('C05.iso', path, construct, 'wired from %s: %s' % (tabname(v.prov), prob),
                        '%s should be %s.%s but is wired from %s: %s; unit names of %s then get no / a foreign code'
                        % (construct, srcname, attr, tabname(v.prov), prob, ownc.name), line)
            else:
                chk.ok('C05.iso', path, construct, '= %s.%s' % (srcname, attr), line)
                wired[slot] = v.value
        if len(wired) != len(SLOTS):
            continue
        iso, frac = wired['currency_name_to_iso_code_map'], wired['currency_fraction_code_list']
        ratios, fmap = wired['currency_fraction_num_map'], wired['currency_fraction_mapping']
        um, _, _ = replay_unit_map([(n, d) for n, d, _, _, _ in pa], ctx['mech']['first_wins'], ctx['mech']['bind_tf'])
        units = set(um.values())
        rpath, rline = res_loc(ctx, [(basec.qual, 'CurrencyFractionalRatios')])
        live_frac = False
        for F, cf in frac.items():
            if not cf or F not in units:
                continue
            if ratios.get(F) != 0:
                live_frac = True
            mains = sorted(M for M, C in iso.items() if M in units and C and isinstance(fmap.get(C), str)
                           and cf in split_spellings(fmap[C]))
            if not mains:
                continue
            construct = "CurrencyFractionalRatios['%s'] for %s" % (F, pcfg.name)
            if ratio_hazard(F, ratios):
                chk.bad('C05.ratio', rpath, construct, 'ratio=%r code=%s mains=%s' % (ratios.get(F), cf, mains[:3]),
                        "fraction unit '%s' (code %s) can follow main unit(s) %s of the same culture, but "
                        "CurrencyFractionalRatios has %s for it: %s"
                        % (F, cf, mains[:3], 'no entry' if F not in ratios else 'ratio 0',
                           "'N <main> and M <fraction>' is never merged into one entity worth N + M/ratio (the two amounts "
                           'come out as separate entities)'), rline)
            else:
                chk.ok('C05.ratio', rpath, construct, 'ratio=%r' % ratios.get(F), rline)
        mpath, mline = res_loc(ctx, [(basec.qual, 'CurrencyFractionMapping')])
        nomap = sorted((M, C) for M, C in iso.items() if M in units and C and not isinstance(fmap.get(C), str))
        construct = 'CurrencyFractionMapping for %s' % pcfg.name
        if ctx['mech']['fracmap_none_guard']:
            chk.ok('C05.fracmap', mpath, construct, 'None-guarded', mline)
        elif nomap and live_frac:
            chk.bad('C05.fracmap', mpath, construct, 'no entry for ' + ', '.join('%s(%s)' % (C, M) for M, C in nomap),
                    '%d main unit(s) of %s have an ISO code without CurrencyFractionMapping entry (%s): when any fraction unit '
                    'follows one of them, __check_units_string_contains passes None to bind_units_string (None.strip()); the '
                    'exception is swallowed by the model and every currency entity of the query is lost'
                    % (len(nomap), ownc.name, ', '.join("'%s'->%s" % mc for mc in nomap[:6])), mline)
        else:
            chk.ok('C05.fracmap', mpath, construct, '%d producible codes all mapped' % len({C for M, C in iso.items() if M in units and C}), mline)


# ---- language purity and dangling reads -------------------------------------------------------------

def class_refs(idx, k, node=None):
    """(name, attr|None, resolved Cls, line) for every Name in the class body that resolves to an indexed class"""
    out = []
    parents = {}
    root = node if node is not None else k.node
    for n in ast.walk(root):
        for c in ast.iter_child_nodes(n):
            parents[c] = n
    for n in ast.walk(root):
        if isinstance(n, ast.Name) and isinstance(n.ctx, ast.Load):
            r = idx.resolve(k.mod if hasattr(k, 'mod') else k, n.id)
            if r and r[0] == 'class':
                par = parents.get(n)
                attr = par.attr if isinstance(par, ast.Attribute) and par.value is n else None
                out.append((n.id, attr, r[1], n.lineno))
    return out


def dangling(an, idx, target, attr):
    """True when `target.attr` does not exist (resource classes: evaluated names; other classes: class attrs / methods)"""
    if is_resource_class(target):
        return attr not in an.R.values(target)
    for b in idx.mro(target):
        if attr in b.attrs or attr in b.methods:
            return False
    return True


def rule_purity_dangling(ctx):
    chk, idx, an, langs = ctx['chk'], ctx['idx'], ctx['an'], ctx['langs']
    consts = ctx['consts']
    closure = {}
    for p in ctx['pairs'].values():
        for k0 in (p.ecfg, p.pcfg):
            for k in idx.mro(k0):
                if k.mod.name.startswith(NWU + '.'):
                    closure[k.qual] = k
    culture_cls = idx.cls('recognizers_text.culture.Culture')

    def scan(k, registered):
        own = lang_of(ctx, k)
        seen = set()
        for name, attr, target, line in class_refs(idx, k):
            # purity
            if own is not None:
                if target is culture_cls and attr is not None and attr[:1].isupper():
                    key = ('purity', 'Culture.' + attr)
                    if key not in seen:
                        seen.add(key)
                        bad = not attr.lower().startswith(own)
                        _emit(chk, registered, 'C05.purity', k, 'Culture.' + attr, own, bad,
                              '%s (%s) uses Culture.%s' % (k.name, own, attr), line)
                elif langs_of_module(target.mod.name, langs) or is_resource_class(target):
                    key = ('purity', name)
                    if key not in seen:
                        seen.add(key)
                        foreign = foreign_language(own, target.mod.name, langs)
                        _emit(chk, registered, 'C05.purity', k, name, '%s -> %s' % (own, target.mod.name), bool(foreign),
                              '%s (%s) references %s of %s: units/numbers of another language are matched or bound'
                              % (k.name, own, name, target.mod.name), line)
            # dangling
            if attr is not None and (is_resource_class(target) or target is consts):
                key = ('dangling', name, attr)
                if key not in seen:
                    seen.add(key)
                    _emit(chk, registered, 'C05.dangling', k, '%s.%s' % (name, attr), 'defined', dangling(an, idx, target, attr),
                          '%s reads %s.%s which %s does not define (AttributeError when the configuration is built or the '
                          'property is read)' % (k.name, name, attr, target.qual), line)

    for q, k in sorted(closure.items()):
        scan(k, True)
    for m in sorted(idx.mods):
        if not m.startswith(NWU + '.'):
            continue
        mod = idx.mods[m]
        if langs_of_module(m, langs):
            for k in mod.classes.values():
                if k.qual not in closure:
                    scan(k, False)
        else:
            chk.consulted(mod.path)
            for k in mod.classes.values():
                if k.qual not in closure:
                    scan(k, True)


def _emit(chk, registered, rule, k, what, detail, bad, msg, line):
    construct = '%s -> %s' % (k.name, what)
    if registered:
        chk.judge(not bad, rule, k.mod.path, construct, detail, msg, line)
    elif bad:
        chk.observe('%s (unregistered configuration, %s:%s): %s' % (rule, k.mod.rel, line, msg))


# ---- positive controls ------------------------------------------------------------------------------

def controls(chk, mech):
    # shadow: 'x' listed under B after A bound it
    um, by, sh = replay_unit_map([('T1', {'A': 'x|y'}), ('T2', {'B': 'z|x'})])
    chk.control('C05.shadow', len(sh) == 1 and sh[0][:4] == ('x', 'B', 'T2', 'A') and um['x'] == 'A')
    chk.control('C05.merge', merge_collisions([('T1', {'A': 'x'}), ('T2', {'A': 'y'})]) == [('A', 'T1', 'T2')]
                and not merge_collisions([('T1', {'A': 'x'}), ('T2', {'A': 'x'})]))
    # key: connector token eats the head of a spelling; leading blank in a key
    um = {'decimetro': 'Decimetro', 'metro': 'Metro', ' pinta': 'Pinta'}
    gsrc = ("def parse(self, source):\n"
            "    norm = last.lower()\n"
            "    tok = self.config.connector_token\n"
            "    if tok and norm.startswith(%s):\n"
            "        norm = norm[len(tok):].strip()\n"
            "        last = last[len(tok):].strip()\n")
    plain = read_connector_guard(ast.parse(gsrc % 'tok').body[0], 'last', 'norm')
    spaced = read_connector_guard(ast.parse(gsrc % "f'{tok} '").body[0], 'last', 'norm')
    chk.control('C05.key', parser_lookup(um, 'decimetro', 'de', plain)[0] is None and parser_lookup(um, 'metro', 'de', plain)[0] == 'Metro'
                and parser_lookup(um, 'decimetro', 'de', spaced)[0] == 'Decimetro' and parser_lookup(um, 'de metro', 'de', spaced)[0] == 'Metro'
                and parser_lookup(um, 'decimetro', 'de')[0] == 'Decimetro' and parser_lookup(um, '(metro)', '')[0] == 'Metro')
    xb = cross_bindings({'Dim': [('L', {'Foot': 'ft|foot'})], 'Cur': [('C', {'Forint': 'ft|forint'})]})
    chk.control('C05.fresh', sorted(xb) == ['ft'] and not cross_bindings({'A': [('L', {'Foot': 'ft'})], 'B': [('M', {'Foot': 'ft'})]}))
    sel = ("def extract(self, source):\n"
           "    if max_find_pref != 0:\n"
           "        last_index = start\n"
           "        best_match = None\n"
           "        for m in prefix_match:\n"
           "            if m.length > 0 and m.end > start:\n"
           "                break\n"
           "            if m.length > 0 and source[m.start:last_index].strip() == m.text:\n"
           "                best_match = m\n"
           "%s"
           "        if best_match is not None:\n"
           "            self.add_element(mapping_prefix, start, best_match)\n")
    idx_ = get_index()
    kx = idx_.cls(NWU + '.extractors.NumberWithUnitExtractor')

    def seltab(extra):
        st_, b_, _ = find_prefix_selection(ast.parse(sel % extra).body[0])
        return tabulate_prefix_selection(idx_, st_, b_, kx.mod, kx, 'C05.prefix-pick.control')[0]
    chk.control('C05.prefix-pick', len(seltab('')) > 0 and not seltab('                break\n'))
    def _three(u):
        for a, b in (('(', ')'), ('[', ']'), ('{', '}'), ('<', ')')):
            if u.startswith(a) and u.endswith(b):
                return u[1:len(u) - 1]
        return u
    chk.control('C05.brackets', bool(bracket_mismatches(_three)) and bool(bracket_mismatches(lambda x: x))
                and not bracket_mismatches(strip_brackets))
    def _obs(h):
        return lambda t: predict_binding(t, h)
    h_last, d_last, _ = fit_binding(_obs(dict(PINNED_HYP, first_wins=False)))
    h_low, d_low, _ = fit_binding(_obs(dict(PINNED_HYP, value_case='lower')))
    h_ok, d_ok, _ = fit_binding(_obs(PINNED_HYP))
    chk.control('C05.bind', bool(d_last) and h_last['first_wins'] is False and bool(d_low) and 'lower' in (h_low['value_case'], h_low['token_case'])
                and not d_ok and bool(fit_binding(_obs(dict(PINNED_HYP, empty_token=True)))[1])
                and bool(fit_binding(_obs(dict(PINNED_HYP, value_strip=False)))[1]))
    chk.control('C05.one-entity', one_entity_problem('1 $', [(0, 2, '1 $'), (2, 2, '$')], [(0, 2)]) is not None
                and one_entity_problem('1 $', [(0, 2, '1 $')], [(0, 2)]) is None and one_entity_problem('1$', [], [(0, 1)]) is not None)
    ctext, citems = compound_layout('UCE', ',&')
    chk.control('C05.compound-order',
                candidate_order(citems, True) == [citems[1], citems[2], citems[0]] and candidate_order(citems, False) == citems
                and compound_problem(ctext, citems, [(0, 1, 'ee', None), (4, 16, ctext[4:17], [(4, 7), (13, 16)])]) is None
                and compound_problem(ctext, citems, [(4, 1, '', [(4, 7), (13, 16), (0, 1)])]) is not None
                and compound_problem(ctext, citems, [(0, 1, 'ee', None), (4, 7, '3 dd', None), (13, 16, '3 ee', None)]) is not None
                and compound_problem(ctext, citems, [(4, 16, ctext[4:17], [(13, 16), (4, 7)])]) is not None
                and compound_problem(ctext, citems, [(0, 16, ctext, None), (4, 16, ctext[4:17], [(4, 7), (13, 16)])]) is not None)
    chk.control('C05.iso-value', iso_value_problem(True, '_P', '_P') is not None and iso_value_problem(True, 'NUM', 'EUR') is not None
                and iso_value_problem(False, None, 'EUR') is not None and iso_value_problem(True, 'EUR', 'EUR') is None
                and iso_value_problem(False, None, '_P') is None and iso_value_problem(True, None, None) is None)
    chk.control('C05.format-once', format_tag_problem('fmt(2,5)', '2,5') is not None and format_tag_problem('2,5', '2,5') is None)
    chk.control('C05.blank', parser_lookup(um, ' pinta', '')[0] is None)
    pre = mech['preprocess']
    chk.control('C05.case', pre('5 Rwandan Zorkmid ') == '5 rwandan zorkmid '
                and case_problem('Zork', 'Z', 'zork', {'Zork'}, {'Zork': 'Z'}, 'suffix') is not None
                and case_problem('Zb', 'Zbyte', 'zb', {'Zb', 'zb'}, {'Zb': 'Zbyte', 'zb': 'Zbit'}, 'suffix') is not None
                and case_problem('Zork', 'Z', 'zork', {'Zork', 'zork'}, {'Zork': 'Z', 'zork': 'Z'}, 'suffix') is None)
    chk.control('C05.ratio', ratio_hazard('Penique', {'Penny': 100}) and ratio_hazard('X', {'X': 0}) and not ratio_hazard('Penny', {'Penny': 100}))
    snip = (
        "class P:\n"
        "    DEFAULT = 100\n"
        "    def __merge_compound_unit(self, compound_result):\n"
        "        number_value = ''\n"
        "        sub = self.DEFAULT\n"
        "        idx = 0\n"
        "        while idx < len(compound_unit):\n"
        "            extract_result = compound_unit[idx]\n"
        "            parse_result = self.number_with_unit_parser.parse(extract_result)\n"
        "            parse_result_value = parse_result.value\n"
        "            if count == 0:\n"
        "                main_unit_iso_code = self.config.currency_name_to_iso_code_map.get(parse_result_value.unit, None)\n"
        "                %s\n"
        "            else:\n"
        "                if extract_result.type == Constants.SYS_NUM:\n"
        "                    number_value = number_value + float(parse_result.value) * (1 / 100)\n"
        "                    continue\n"
        "                ratio = self.config.currency_fraction_num_map.get(%s, 0) if parse_result_value else 0\n"
        "                if code and ratio != 0 and self.__check_units_string_contains(code, s):\n"
        "                    number_value = number_value + float(parse_result_value.number) * (1 / %s)\n"
        "            idx = idx + 1\n"
        "        result = self.__create_currency_result(result, main_unit_iso_code, number_value, main_unit_value)\n")

    def verdict(main_stmt, key, div):
        k = ast.parse(snip % (main_stmt, key, div)).body[0]
        fake = type('K', (), {})()
        fake.attrs = {'DEFAULT': ast.Constant(100)}
        return ratio_use_problem(analyse_merge(fake, k.body[1])['named'])
    chk.control('C05.ratio-use',
                verdict('pass', 'parse_result_value.unit', 'ratio') is None
                and verdict('sub = self.config.non_standard_fractional_subunits.get(main_unit_iso_code, self.DEFAULT)',
                            'parse_result_value.unit', 'sub') is not None
                and verdict('pass', 'main_unit_iso_code', 'ratio') is not None
                and verdict('pass', 'parse_result_value.unit', '100') is not None)
    chk.control('C05.fracmap', not isinstance({'USD': 'CENT'}.get('__PE'), str))
    chk.control('C05.iso', iso_slot_problem({'Dólar': 'USD'}, {'Dollar': 'USD'}) is not None and iso_slot_problem({}, {'a': 'b'}) is not None
                and iso_slot_problem({'a': 'b'}, {'a': 'b'}) is None)
    langs = ['english', 'french', 'spanish']
    chk.control('C05.purity', foreign_language('french', 'recognizers_number_with_unit.resources.spanish_numeric_with_unit', langs) == ['spanish']
                and not foreign_language('french', 'recognizers_number_with_unit.resources.base_units', langs)
                and not foreign_language('french', 'recognizers_number.number.french.extractors', langs))
    # evaluator-level controls: an embedded configuration class with a dangling read, a wrong-side table and a one-sided table
    snippet = ast.parse(
        "class XCfg:\n"
        "    def __init__(self):\n"
        "        self._suffix_list = {**R.ASuffixList, **R.BPrefixList}\n"
        "        self._gone = R.NoSuchList\n")
    env = {'ASuffixList': {'A': 'x'}, 'BPrefixList': {'B': 'y'}}
    reads = [(n.attr, n.attr in env) for n in ast.walk(snippet) if isinstance(n, ast.Attribute) and isinstance(n.value, ast.Name) and n.value.id == 'R']
    chk.control('C05.dangling', ('NoSuchList', False) in reads and ('ASuffixList', True) in reads)
    chk.control('C05.side', any('Prefix' in a for a, ok in reads if ok) and ('Prefix' in 'BPrefixList'))
    e_sp, p_sp = {'x', 'y'}, {'x'}
    chk.control('C05.tables', sorted(e_sp - p_sp) == ['y'])
    class _K:
        def __init__(self, name, src):
            self.name = name
            self.methods = {f.name: f for f in ast.parse(src).body[0].body if isinstance(f, ast.FunctionDef)}
    leaf = _K('Leaf', "class Leaf:\n    def __init__(self, culture_info=None):\n        super().__init__(culture_info)\n")
    mid = _K('Mid', "class Mid:\n    def __init__(self, culture_info):\n        if culture_info is None:\n"
                    "            culture_info = CultureInfo(Culture.Spanish)\n        super().__init__(culture_info)\n")
    base = _K('Base', "class Base:\n    def __init__(self, culture_info):\n        self.culture_info = culture_info\n")
    c_def = effective_culture([leaf, mid, base], [], [])
    c_arg = effective_culture([leaf, mid, base], [ast.parse('CultureInfo(Culture.SpanishMexican)', mode='eval').body], [])
    chk.control('C05.culture', c_def[:2] == ('culture', 'Spanish') and c_arg[:2] == ('culture', 'SpanishMexican')
                and culture_problem(c_def[1], 'SpanishMexican', False, 'spanish') is not None
                and culture_problem(c_arg[1], 'SpanishMexican', False, 'spanish') is None
                and culture_problem('English', 'Chinese', True, 'english') is None)
    chk.control('C05.pair', 'spanishmexican'.startswith('spanish') and not 'french'.startswith('spanish'))


META = {
    'text': 'Partial (table agreement and wiring), exhaustive over the registered tables: for every ExtractorParserModel '
            'registration of NumberWithUnitRecognizer (30 registrations, 34 pairs, ~11.9k surface forms over en, es, es-mx, fr, '
            'pt, nl, zh, de, it) the checker rebuilds both configuration objects from the constructors\' ASTs and the evaluated '
            'resource constants and decides: pair wiring (same language, entity type = model type, model class = registered '
            'name, merged extractor with merged parser, culture); extractor spellings = parser-bound spellings; no {**A,**B} '
            'key collision; prefix/suffix side; no spelling shadowed under first-binding-wins; every bound spelling is found '
            'again by the parser\'s key normalisation (connector-token strip, brackets, exact-then-lowered lookup); every '
            'spelling survives the query\'s term-sensitive lower-casing with the same unit; fraction units have a non-zero '
            'ratio and main codes a CurrencyFractionMapping entry (missing ratio = never merged; None.strip() hazard of '
            '__merge_compound_unit); isoCurrency is produced only from the same culture\'s CurrencyNameToIsoCodeMap; '
            'language purity and no dangling resource reads in registered configurations.',
    'note': 'Not decided: trie longest-match and the extractor\'s gap/ambiguity filters on a concrete sentence; the numeral\'s '
            'value and the N + M/ratio arithmetic; whether a ratio value is the right one; separate (number-less) units. '
            'Trusted: re-statements of bind_units_string, NumberWithUnitParser.parse key normalisation and '
            'QueryProcessor.preprocess (each anchored on the AST shape; a change is ANALYSIS-ERROR, not a verdict); trie '
            'tokenisation abstracted by whitespace-insensitive comparison. Genuine defects on the pinned tree are listed in '
            'known_findings.json (connector-token stripping of units beginning with de/di, capitalised-only spellings, '
            'byte/bit and T./t. case clashes, missing ratios, unmapped generic currency codes).',
    'technique': 'abstract replay of configuration constructors over evaluated resource constants; finite table comparison '
                 'with re-stated binding / key-normalisation / query-normalisation rules; wiring normal forms',
}


# generic rules (lead): cross-cutting necessary conditions scoped to the number-with-unit package (sa/generic.py)

def _generic_rules(chk):
    from ..index import get_index as _gi
    from ..consteval import Resources as _Res
    from .. import generic as _g
    idx_ = _gi()
    _g.rule_group_names(chk, idx_, _Res(idx_), 'C05.groups', 'recognizers_number_with_unit', None, floor=0)
    _g.rule_filter_predicates(chk, idx_, 'C05.filters', 'recognizers_number_with_unit', floor=1)
    _g.rule_index_guards(chk, idx_, 'C05.index-guards', 'recognizers_number_with_unit', floor=2)


_run_before_generic = run


def run(chk):       # noqa: F811
    _run_before_generic(chk)
    _generic_rules(chk)
