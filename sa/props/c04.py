"""C04 - spelled-out cardinals and ordinals (narrow clause: atomic vocabulary against a reference lexicon).

Oracle: the reference lexicon below, written independently of the repository (units 0-19, tens, hundreds words where the
language has them, the scale words with the culture's scale - long scale for es/fr/de/nl, short for en/pt-br -, ordinals
1st-10th; CJK digits incl. financial / traditional variants, the units 十百千万亿/億(兆 for ja)).  The lexicon is a LOWER
bound: an entry is listed only if it is a standard spelling; the converse inclusion is not armed.

Decided, per culture with a number model (configuration class and extractor classes read from the registrations):
  (i)   every lexicon word is a key of the map the parser configuration wires into cardinal_number_map / ordinal_number_map
        (scale words also of round_number_map) with the integer it denotes; CJK: through trato_sim_map into
        zero_to_nine_map / round_number_map_char;
  (ii)  every lexicon word (scale words inside their minimal phrase, e.g. "one million") is a member of L+ of a pattern the
        registered extractor wires with the text-number tag ('Integer<Marker>' / 'Ord<Marker>' / 'Ordinal<Marker>');
  (iii) a spelling the extractor can see has one value across the wired maps and inside each dict literal; round_number_map
        values are powers of ten (or of twelve: dozen / gross);
  (iv)  every tag of the number / ordinal extractors is dispatched by the parser class the factory builds.
"""
import ast
import math

from .. import rx
from ..consteval import dict_pairs
from ..core import AnalysisError
from .c03 import (Ev, Unresolved, decode_number_registration, dispatch_keys, dotted, extractor_closure, factory_decide,
                  number_registrations, reachable_methods, slot)

LEVEL = 'other'
DESIGN_REF = 'DESIGN.md#c04'

META = {
    'text': 'Narrow clause, table agreement against a reference lexicon shipped with the checker (about 50 standard spellings '
            'per culture: units, teens, tens, hundreds, scale words with the culture\'s scale, ordinals 1st-10th; CJK digits, '
            'financial/traditional variants and units): each word is a key of the map the culture\'s parser configuration '
            'wires (cardinal / ordinal / round, CJK digit / unit maps) with the integer it denotes; each word is a member of '
            'the language of a pattern the registered extractor wires with the text-number tag; visible spellings have one '
            'value across maps; round-number values are powers of ten or twelve; every extractor tag is dispatched by the '
            'parser the factory builds. Exhaustive over the lexicon x nine cultures.',
    'note': 'Not decided: the composition algorithm (__get_int_value stack merging, CJK unit folding, resolve_composite_number) '
            '- compositional semantics over an unbounded language. The converse inclusion (every accepted spelling has a value) '
            'is not armed: the patterns over-generate non-standard forms; thorough tier lists them as observations. Membership '
            'uses L+ (look-arounds succeed), so a word blocked only by a look-around is not seen. Japanese daiji (壱弐参) are '
            'absent from both extractor and parser and are not in the lexicon. C04.visible.phrase decides extraction of '
            'about thirty listed composed numerals (es/fr/pt) as one match, not their value and not the merged extractors; '
            'C04.visible.twin arms only accented-vs-stripped twins, not every map key.',
    'technique': 'table agreement: evaluated resource dictionaries vs an embedded reference lexicon; regex-language membership '
                 '(backtracking matcher over the pattern syntax tree) for extractor visibility',
}

P6, P9, P12 = 10 ** 6, 10 ** 9, 10 ** 12

# ---- reference lexicon (independent of the repository) ---------------------------------------------------
# card: spelling -> integer; ord: ordinal spelling -> integer; scale: multiplicative words (must also be round numbers);
# probe: minimal standard phrase in which a scale word is a complete number (default: the word itself)
LEXICON = {
    'en-us': {
        'card': dict(zero=0, one=1, two=2, three=3, four=4, five=5, six=6, seven=7, eight=8, nine=9, ten=10, eleven=11,
                     twelve=12, thirteen=13, fourteen=14, fifteen=15, sixteen=16, seventeen=17, eighteen=18, nineteen=19,
                     twenty=20, thirty=30, forty=40, fifty=50, sixty=60, seventy=70, eighty=80, ninety=90,
                     hundred=100, thousand=1000, million=P6, billion=P9, trillion=P12),
        'ord': dict(first=1, second=2, third=3, fourth=4, fifth=5, sixth=6, seventh=7, eighth=8, ninth=9, tenth=10,
                    eleventh=11, twelfth=12, twentieth=20, hundredth=100, thousandth=1000, millionth=P6),
        'scale': ['hundred', 'thousand', 'million', 'billion', 'trillion'],
        'probe': {'hundred': 'one hundred', 'thousand': 'one thousand', 'million': 'one million', 'billion': 'one billion',
                  'trillion': 'one trillion'},
    },
    'es-es': {
        'card': {'cero': 0, 'uno': 1, 'un': 1, 'una': 1, 'dos': 2, 'tres': 3, 'cuatro': 4, 'cinco': 5, 'seis': 6, 'siete': 7,
                 'ocho': 8, 'nueve': 9, 'diez': 10, 'once': 11, 'doce': 12, 'trece': 13, 'catorce': 14, 'quince': 15,
                 'dieciséis': 16, 'diecisiete': 17, 'dieciocho': 18, 'diecinueve': 19, 'veinte': 20, 'veintiuno': 21,
                 'veintiún': 21, 'veintidós': 22, 'treinta': 30, 'cuarenta': 40, 'cincuenta': 50, 'sesenta': 60, 'setenta': 70, 'ochenta': 80,
                 'noventa': 90, 'cien': 100, 'ciento': 100, 'doscientos': 200, 'trescientos': 300, 'cuatrocientos': 400,
                 'quinientos': 500, 'seiscientos': 600, 'setecientos': 700, 'ochocientos': 800, 'novecientos': 900,
                 'mil': 1000, 'millón': P6, 'millones': P6, 'billón': P12, 'billones': P12},
        'ord': {'primero': 1, 'primer': 1, 'primera': 1, 'segundo': 2, 'tercero': 3, 'tercer': 3, 'cuarto': 4, 'quinto': 5,
                'sexto': 6, 'séptimo': 7, 'octavo': 8, 'noveno': 9, 'décimo': 10},
        'scale': ['mil', 'millón', 'millones', 'billón', 'billones'],
        'probe': {'millón': 'un millón', 'millones': 'dos millones', 'billón': 'un billón', 'billones': 'dos billones'},
    },
    'fr-fr': {
        'card': {'zéro': 0, 'un': 1, 'une': 1, 'deux': 2, 'trois': 3, 'quatre': 4, 'cinq': 5, 'six': 6, 'sept': 7, 'huit': 8,
                 'neuf': 9, 'dix': 10, 'onze': 11, 'douze': 12, 'treize': 13, 'quatorze': 14, 'quinze': 15, 'seize': 16,
                 'dix-sept': 17, 'dix-huit': 18, 'dix-neuf': 19, 'vingt': 20, 'trente': 30, 'quarante': 40, 'cinquante': 50,
                 'soixante': 60, 'soixante-dix': 70, 'septante': 70, 'quatre-vingt': 80, 'quatre-vingts': 80, 'huitante': 80,
                 'octante': 80, 'quatre-vingt-dix': 90, 'nonante': 90, 'cent': 100, 'mille': 1000, 'million': P6,
                 'millions': P6, 'milliard': P9, 'milliards': P9, 'billion': P12, 'billions': P12},
        'ord': {'premier': 1, 'première': 1, 'deuxième': 2, 'second': 2, 'seconde': 2, 'troisième': 3, 'quatrième': 4,
                'cinquième': 5, 'sixième': 6, 'septième': 7, 'huitième': 8, 'neuvième': 9, 'dixième': 10},
        'scale': ['cent', 'mille', 'million', 'millions', 'milliard', 'milliards', 'billion', 'billions'],
        'probe': {'million': 'un million', 'millions': 'deux millions', 'milliard': 'un milliard', 'milliards': 'deux milliards',
                  'billion': 'un billion', 'billions': 'deux billions'},
    },
    'pt-br': {
        'card': {'zero': 0, 'um': 1, 'uma': 1, 'dois': 2, 'duas': 2, 'três': 3, 'quatro': 4, 'cinco': 5, 'seis': 6, 'sete': 7,
                 'oito': 8, 'nove': 9, 'dez': 10, 'onze': 11, 'doze': 12, 'treze': 13, 'catorze': 14, 'quatorze': 14,
                 'quinze': 15, 'dezesseis': 16, 'dezasseis': 16, 'dezessete': 17, 'dezassete': 17, 'dezoito': 18,
                 'dezenove': 19, 'dezanove': 19, 'vinte': 20, 'trinta': 30, 'quarenta': 40, 'cinquenta': 50, 'sessenta': 60,
                 'setenta': 70, 'oitenta': 80, 'noventa': 90, 'cem': 100, 'cento': 100, 'duzentos': 200, 'trezentos': 300,
                 'quatrocentos': 400, 'quinhentos': 500, 'seiscentos': 600, 'setecentos': 700, 'oitocentos': 800,
                 'novecentos': 900, 'mil': 1000, 'milhão': P6, 'milhões': P6, 'bilhão': P9, 'bilhões': P9, 'trilhão': P12,
                 'trilhões': P12},
        'ord': {'primeiro': 1, 'primeira': 1, 'segundo': 2, 'terceiro': 3, 'quarto': 4, 'quinto': 5, 'sexto': 6, 'sétimo': 7,
                'oitavo': 8, 'nono': 9, 'décimo': 10},
        'scale': ['mil', 'milhão', 'milhões', 'bilhão', 'bilhões', 'trilhão', 'trilhões'],
        'probe': {'milhão': 'um milhão', 'milhões': 'dois milhões', 'bilhão': 'um bilhão', 'bilhões': 'dois bilhões',
                  'trilhão': 'um trilhão', 'trilhões': 'dois trilhões'},
    },
    'de-de': {
        'card': {'null': 0, 'eins': 1, 'eine': 1, 'zwei': 2, 'drei': 3, 'vier': 4, 'fünf': 5, 'sechs': 6, 'sieben': 7,
                 'acht': 8, 'neun': 9, 'zehn': 10, 'elf': 11, 'zwölf': 12, 'dreizehn': 13, 'vierzehn': 14, 'fünfzehn': 15,
                 'sechzehn': 16, 'siebzehn': 17, 'achtzehn': 18, 'neunzehn': 19, 'zwanzig': 20, 'dreißig': 30, 'vierzig': 40,
                 'fünfzig': 50, 'sechzig': 60, 'siebzig': 70, 'achtzig': 80, 'neunzig': 90, 'hundert': 100, 'tausend': 1000,
                 'million': P6, 'millionen': P6, 'milliarde': P9, 'milliarden': P9, 'billion': P12, 'billionen': P12},
        'ord': {'erste': 1, 'erster': 1, 'ersten': 1, 'zweite': 2, 'dritte': 3, 'vierte': 4, 'fünfte': 5, 'sechste': 6,
                'siebte': 7, 'achte': 8, 'neunte': 9, 'zehnte': 10},
        'scale': ['hundert', 'tausend', 'million', 'millionen', 'milliarde', 'milliarden', 'billion', 'billionen'],
        'probe': {'million': 'eine million', 'millionen': 'zwei millionen', 'milliarde': 'eine milliarde',
                  'milliarden': 'zwei milliarden', 'billion': 'eine billion', 'billionen': 'zwei billionen'},
    },
    'it-it': {
        'card': {'zero': 0, 'uno': 1, 'un': 1, 'una': 1, 'due': 2, 'tre': 3, 'quattro': 4, 'cinque': 5, 'sei': 6, 'sette': 7,
                 'otto': 8, 'nove': 9, 'dieci': 10, 'undici': 11, 'dodici': 12, 'tredici': 13, 'quattordici': 14,
                 'quindici': 15, 'sedici': 16, 'diciassette': 17, 'diciotto': 18, 'diciannove': 19, 'venti': 20, 'trenta': 30,
                 'quaranta': 40, 'cinquanta': 50, 'sessanta': 60, 'settanta': 70, 'ottanta': 80, 'novanta': 90, 'cento': 100,
                 'mille': 1000, 'mila': 1000, 'milione': P6, 'milioni': P6, 'miliardo': P9, 'miliardi': P9},
        'ord': {'primo': 1, 'prima': 1, 'secondo': 2, 'terzo': 3, 'quarto': 4, 'quinto': 5, 'sesto': 6, 'settimo': 7,
                'ottavo': 8, 'nono': 9, 'decimo': 10},
        'scale': ['cento', 'mille', 'mila', 'milione', 'milioni', 'miliardo', 'miliardi'],
        'probe': {'mila': 'duemila', 'milione': 'un milione', 'milioni': 'due milioni', 'miliardo': 'un miliardo',
                  'miliardi': 'due miliardi'},
    },
    'nl-nl': {
        'card': {'nul': 0, 'een': 1, 'één': 1, 'twee': 2, 'drie': 3, 'vier': 4, 'vijf': 5, 'zes': 6, 'zeven': 7, 'acht': 8,
                 'negen': 9, 'tien': 10, 'elf': 11, 'twaalf': 12, 'dertien': 13, 'veertien': 14, 'vijftien': 15,
                 'zestien': 16, 'zeventien': 17, 'achttien': 18, 'negentien': 19, 'twintig': 20, 'dertig': 30, 'veertig': 40,
                 'vijftig': 50, 'zestig': 60, 'zeventig': 70, 'tachtig': 80, 'negentig': 90, 'honderd': 100, 'duizend': 1000,
                 'miljoen': P6, 'miljard': P9, 'biljoen': P12},
        'ord': {'eerste': 1, 'tweede': 2, 'derde': 3, 'vierde': 4, 'vijfde': 5, 'zesde': 6, 'zevende': 7, 'achtste': 8,
                'negende': 9, 'tiende': 10},
        'scale': ['honderd', 'duizend', 'miljoen', 'miljard', 'biljoen'],
        'probe': {'miljoen': 'een miljoen', 'miljard': 'een miljard', 'biljoen': 'een biljoen'},
    },
}
CJK_LEXICON = {
    'zh-cn': {'digit': {'零': 0, '〇': 0, '一': 1, '二': 2, '三': 3, '四': 4, '五': 5, '六': 6, '七': 7, '八': 8, '九': 9,
                        '两': 2, '兩': 2, '壹': 1, '贰': 2, '貳': 2, '叁': 3, '肆': 4, '伍': 5, '陆': 6, '陸': 6, '柒': 7,
                        '捌': 8, '玖': 9},
              'unit': {'十': 10, '百': 100, '千': 1000, '万': 10 ** 4, '亿': 10 ** 8, '拾': 10, '佰': 100, '仟': 1000,
                       '萬': 10 ** 4, '億': 10 ** 8, '兆': 10 ** 12}},
    'ja-jp': {'digit': {'零': 0, '〇': 0, '一': 1, '二': 2, '三': 3, '四': 4, '五': 5, '六': 6, '七': 7, '八': 8, '九': 9},
              'unit': {'十': 10, '百': 100, '千': 1000, '万': 10 ** 4, '億': 10 ** 8, '兆': 10 ** 12}},
}
CJK_ORDINALS = dict(zip('一二三四五六七八九十', range(1, 11)))
CJK_ORDINAL_PREFIX = '第'
CJK_ONE = '一'
# the lexicon of a culture variant that shares a configuration class
SAME_LEXICON = {'es-mx': 'es-es'}


def _is_pow(v, base):
    if not isinstance(v, int) or isinstance(v, bool) or v < base:
        return False
    while v % base == 0:
        v //= base
    return v == 1


def round_value_ok(v):
    return _is_pow(v, 10) or _is_pow(v, 12)


def text_patterns(revals, tags):
    out = []
    for rv in revals:
        if rv.tag in tags:
            if rv.kind != 'resource' or not isinstance(rv.pattern, str):
                raise AnalysisError('%s:%d ReVal tagged %r: pattern expression %s not evaluable'
                                    % (rv.cls.mod.rel, rv.line, rv.tag, rv.expr))
            out.append(rv)
    return out


class Member:
    def __init__(self, revals):
        self.revals = revals
        self.trees = []
        for rv in revals:
            try:
                self.trees.append((rv, rx.parse(rv.pattern)))
            except rx.RxUnsupported:
                self.trees.append((rv, None))
            except rx.RxError as e:
                raise AnalysisError('%s:%d pattern %s not parsable by the regex reader: %s' % (rv.cls.mod.rel, rv.line, rv.name, e))
        self.unanalysable = [rv.name for rv, t in self.trees if t is None]

    def accepts(self, phrase):
        for rv, t in self.trees:
            if t is not None and rx.matches(t, phrase):
                return rv
        return None

    def names(self):
        return ', '.join(sorted({rv.name for rv in self.revals}))


def dict_node_of(ev, cls_mod, expr):
    """AST of the dict([...]) literal behind a wiring expression `Resource.Name` (for duplicate detection)"""
    if isinstance(expr, ast.Call) and isinstance(expr.func, ast.Name) and expr.func.id == 'dict' and len(expr.args) == 1:
        expr = expr.args[0]
    if isinstance(expr, ast.Attribute):
        c = ev.idx.resolve_class(cls_mod, expr.value)
        if c is not None:
            _k, node = ev.idx.class_attr(c, expr.attr)
            return c, node
    return None, None


def run(chk):
    chk.explanation = ('atomic number vocabulary of nine cultures against an embedded reference lexicon: map membership with the '
                       'denoted integer, membership in the language of the wired text-number patterns, value consistency of '
                       'visible spellings, tag dispatch')
    chk.rule('C04.cardinal', 'lexicon cardinal word is a key of the wired cardinal map with its integer', floor=250, control=True)
    chk.rule('C04.scale', 'lexicon scale word is a key of the wired round-number map with its power of ten', floor=35, control=True)
    chk.rule('C04.ordinal', 'lexicon ordinal word is a key of the wired ordinal map with its integer', floor=70, control=True)
    chk.rule('C04.visible.cardinal', 'lexicon cardinal word is in the language of a pattern wired with the Integer<Marker> tag',
             floor=250, control=True)
    chk.rule('C04.visible.ordinal', 'lexicon ordinal word is in the language of a pattern wired with the ordinal text tag',
             floor=70, control=True)
    chk.rule('C04.cjk.value', 'CJK digit / unit character maps (through trato_sim_map) to its integer', floor=45, control=True)
    chk.rule('C04.cjk.visible', 'CJK digit / unit / ordinal probe is in the language of a wired Integer / Ordinal pattern', floor=60,
             control=True)
    chk.rule('C04.consistent', 'a spelling has one value across the wired maps and inside each dict literal', floor=100, control=True)
    chk.rule('C04.round', 'round-number map values are powers of ten (or of twelve)', floor=60, control=True)
    chk.rule('C04.tag', 'every tag of the number / ordinal extractors is dispatched by the parser class the factory builds', floor=100,
             control=True)
    chk.assume('the reference lexicon embedded in sa/props/c04.py is correct (standard spellings; long scale for es/fr/de/nl/it, '
               'short scale for en and pt-br)')

    ev = Ev()
    idx = ev.idx
    regs = number_registrations(ev)
    by_culture = {}
    for nr in regs:
        by_culture.setdefault(nr.reg.culture, {})[nr.reg.model_cls.name] = nr
    closures = {}

    def closure(cls):
        if cls.qual not in closures:
            closures[cls.qual] = extractor_closure(ev, cls)
        return closures[cls.qual]

    def need(code, model):
        nr = by_culture.get(code, {}).get(model)
        if nr is None:
            raise AnalysisError('no %s registration for culture %s' % (model, code))
        return nr

    def slot_val(cfg, name, kind):
        sl = slot(ev, cfg, name)
        if sl.value is None and sl.origin.startswith('unresolved'):
            raise AnalysisError('%s:%d %s.%s wiring not evaluable (%s)' % (sl.cls.mod.rel, sl.line, cfg.name, name, sl.origin))
        if sl.value is not None and not isinstance(sl.value, kind):
            raise AnalysisError('%s:%d %s.%s evaluates to %s' % (sl.cls.mod.rel, sl.line, cfg.name, name, type(sl.value).__name__))
        return sl

    done_cfg = set()
    # ---- non-CJK cultures ---------------------------------------------------------------------------
    for code in sorted(set(LEXICON) | set(SAME_LEXICON)):
        lex = LEXICON[SAME_LEXICON.get(code, code)]
        num, ordm = need(code, 'NumberModel'), need(code, 'OrdinalModel')
        cfg = num.config_cls
        chk.consulted(cfg.mod.path)
        marker = slot_val(cfg, 'lang_marker', str).value
        key = (cfg.qual, num.extractor_cls.qual, ordm.config_cls.qual, ordm.extractor_cls.qual)
        if key in done_cfg:
            chk.observe('%s shares configuration and extractors with an earlier culture (%s); lexicon obligations not repeated'
                        % (code, cfg.name))
            continue
        done_cfg.add(key)
        card = slot_val(cfg, 'cardinal_number_map', dict)
        rnd = slot_val(cfg, 'round_number_map', dict)
        ordi = slot_val(ordm.config_cls, 'ordinal_number_map', dict)
        for sl in (card, rnd, ordi):
            chk.consulted(sl.cls.mod.path)
        res_path = cfg.mod.path
        # resource file for reports
        rc, _n = dict_node_of(ev, card.cls.mod, card.expr)
        if rc is not None:
            res_path = rc.mod.path
            chk.consulted(res_path)
        cm = '%s.cardinal_number_map <- %s' % (cfg.name, card.origin)
        om = '%s.ordinal_number_map <- %s' % (ordm.config_cls.name, ordi.origin)
        rm = '%s.round_number_map <- %s' % (cfg.name, rnd.origin)

        # (i) values
        for w, v in lex['card'].items():
            got = card.value.get(w)
            why = 'has no such key' if got is None else 'maps it to %r' % got
            if got is None and w in lex['scale']:
                why += (' (the parser tokenises with a regex built from the cardinal/ordinal map keys, so %r is dropped from '
                        'phrases such as %r)' % (w, lex['probe'].get(w, w)))
            chk.judge(got == v and type(got) is int, 'C04.cardinal', res_path, '%s[%r]' % (card.origin, w), '%s: %r -> %r, lexicon %d' % (code, w, got, v),
                      '%s: %r denotes %d but %s %s' % (code, w, v, cm, why), card.line)
        for w in lex['scale']:
            v = lex['card'][w]
            got = rnd.value.get(w)
            chk.judge(got == v, 'C04.scale', res_path, '%s[%r]' % (rnd.origin, w), '%s: %r -> %r, lexicon %d' % (code, w, got, v),
                      '%s: scale word %r denotes %d but %s %s' % (code, w, v, rm, 'has no such key' if got is None else 'maps it to %r' % got),
                      rnd.line)
        for w, v in lex['ord'].items():
            got = ordi.value.get(w)
            chk.judge(got == v, 'C04.ordinal', res_path, '%s[%r]' % (ordi.origin, w), '%s: %r -> %r, lexicon %d' % (code, w, got, v),
                      '%s: ordinal %r denotes %d but %s %s' % (code, w, v, om, 'has no such key' if got is None else 'maps it to %r' % got),
                      ordi.line)

        # (ii) visibility
        ncl = closure(num.extractor_cls)
        ocl = closure(ordm.extractor_cls)
        for rv in ncl + ocl:
            chk.consulted(rv.cls.mod.path)
        cpat = Member(text_patterns(ncl, {'Integer' + marker}))
        opat = Member(text_patterns(ocl, {'Ord' + marker, 'Ordinal' + marker}))
        if not cpat.revals:
            raise AnalysisError('%s: no pattern tagged Integer%s reachable from %s' % (code, marker, num.extractor_cls.name))
        if not opat.revals:
            raise AnalysisError('%s: no pattern tagged Ord(inal)%s reachable from %s' % (code, marker, ordm.extractor_cls.name))
        for m_, nm in ((cpat, 'cardinal'), (opat, 'ordinal')):
            if m_.unanalysable:
                chk.observe('%s: %s pattern(s) %s use constructs the regex reader refuses; membership uses the others'
                            % (code, nm, m_.unanalysable))
        for w in lex['card']:
            phrase = lex['probe'].get(w, w)
            hit = cpat.accepts(phrase)
            chk.judge(hit is not None, 'C04.visible.cardinal', cpat.revals[0].cls.mod.path,
                      '%s: %r' % (num.extractor_cls.name, phrase), '%s: %r accepted by an Integer%s pattern: %s' % (code, phrase, marker, hit is not None),
                      '%s: the number word %r (%d) is valued by the parser tables but no pattern wired with tag Integer%s (%s) '
                      'accepts %r: the extractor cannot see it' % (code, w, lex['card'][w], marker, cpat.names(), phrase), cpat.revals[0].line)
        for w in lex['ord']:
            hit = opat.accepts(w)
            chk.judge(hit is not None, 'C04.visible.ordinal', opat.revals[0].cls.mod.path,
                      '%s: %r' % (ordm.extractor_cls.name, w), '%s: %r accepted by an ordinal text pattern: %s' % (code, w, hit is not None),
                      '%s: the ordinal %r (%d) is valued by the parser tables but no pattern wired with the ordinal text tag (%s) '
                      'accepts it: the extractor cannot see it' % (code, w, lex['ord'][w], opat.names()), opat.revals[0].line)

        # (iii) consistency of visible spellings
        ones = [w for w, v in lex['card'].items() if v in (1, 2)]

        def visible(w):
            if cpat.accepts(w) or opat.accepts(w):
                return True
            return any(cpat.accepts('%s %s' % (o, w)) for o in ones)
        maps = [('cardinal', card), ('round', rnd), ('ordinal', ordi)]
        for i, (na, a) in enumerate(maps):
            for nb, b in maps[i + 1:]:
                for w in sorted(set(a.value) & set(b.value), key=str):
                    va, vb = a.value[w], b.value[w]
                    construct = '%s: %r in %s and %s map' % (code, w, na, nb)
                    if va == vb:
                        chk.ok('C04.consistent', res_path, construct, '%r = %r' % (w, va))
                    elif not isinstance(w, str) or not visible(w):
                        chk.exempt('C04.consistent', res_path, construct,
                                   'latent table slip: the extractor patterns never produce this spelling', '%r: %r vs %r' % (w, va, vb))
                        chk.observe('%s: %r is %r in %s but %r in %s; not reachable through the extractor patterns (latent)'
                                    % (code, w, va, a.origin, vb, b.origin))
                    else:
                        chk.bad('C04.consistent', res_path, construct, '%r: %s %r vs %s %r' % (w, na, va, nb, vb),
                                '%s: %r is %r in %s but %r in %s' % (code, w, va, a.origin, vb, b.origin), a.line)
        for na, a in maps:
            c, node = dict_node_of(ev, a.cls.mod, a.expr)
            pairs = dict_pairs(node) if node is not None else None
            if pairs is None:
                if a.value:
                    raise AnalysisError('%s: literal behind %s not found for duplicate detection' % (code, a.origin))
                continue
            seen = {}
            for k_, v_ in pairs:
                if k_ in seen and seen[k_] != v_:
                    construct = '%s: %r twice in %s' % (code, k_, a.origin)
                    if isinstance(k_, str) and visible(k_):
                        chk.bad('C04.consistent', c.mod.path, construct, '%r: %r then %r' % (k_, seen[k_], v_),
                                '%s lists %r twice with different values (%r, then %r wins)' % (a.origin, k_, seen[k_], v_), node.lineno)
                    else:
                        chk.exempt('C04.consistent', c.mod.path, construct, 'latent: spelling not produced by the extractor patterns',
                                   '%r: %r then %r' % (k_, seen[k_], v_))
                seen[k_] = v_
            chk.ok('C04.consistent', c.mod.path, '%s: duplicates in %s' % (code, a.origin), '%d entries, %d keys' % (len(pairs), len(seen)))
        for w, v in sorted(rnd.value.items(), key=lambda kv: str(kv[0])):
            chk.judge(round_value_ok(v), 'C04.round', res_path, '%s[%r]' % (rnd.origin, w), '%s: %r -> %r' % (code, w, v),
                      '%s: round-number word %r has value %r, which is neither a power of ten nor of twelve' % (code, w, v), rnd.line)

        # (iv) tag dispatch
        check_tags(chk, ev, code, marker, (num, ncl), (ordm, ocl))

    # ---- CJK ------------------------------------------------------------------------------------------------
    for code, lex in sorted(CJK_LEXICON.items()):
        num, ordm = need(code, 'NumberModel'), need(code, 'OrdinalModel')
        cfg = num.config_cls
        chk.consulted(cfg.mod.path)
        marker = slot_val(cfg, 'lang_marker', str).value
        digits = slot_val(cfg, 'zero_to_nine_map', dict)
        units = slot_val(cfg, 'round_number_map_char', dict)
        trato = slot_val(cfg, 'trato_sim_map', dict)
        tmap = trato.value or {}
        rc, _n = dict_node_of(ev, digits.cls.mod, digits.expr)
        res_path = rc.mod.path if rc is not None else cfg.mod.path
        chk.consulted(res_path)
        pcls, _supp = factory_decide(ev, num.factory_call[0], num.factory_call[1], num.ptype, cfg)
        giv = idx.find_method(pcls, 'get_int_value')[1]
        if giv is None:
            raise AnalysisError('%s: parser class %s has no get_int_value' % (code, pcls.name))
        used = {dotted(n) for n in ast.walk(giv) if isinstance(n, ast.Attribute)}
        for need_attr in ('self.config.zero_to_nine_map', 'self.config.round_number_map_char'):
            if need_attr not in used:
                raise AnalysisError('%s.get_int_value no longer reads %s' % (pcls.name, need_attr))
        for grp, table, origin in (('digit', digits, digits.origin), ('unit', units, units.origin)):
            for ch, v in lex[grp].items():
                s = tmap.get(ch, ch)
                got = table.value.get(s)
                other = (units if grp == 'digit' else digits).value.get(s)
                good = got == v and other is None
                chk.judge(good, 'C04.cjk.value', res_path, '%s[%r]' % (origin, ch),
                          '%s: %r%s -> %r, lexicon %d' % (code, ch, '' if s == ch else ' (simplified to %r)' % s, got, v),
                          '%s: %r denotes %d but %s %s%s' % (code, ch, v, origin, 'has no such key' if got is None else 'maps it to %r' % got,
                                                             '' if other is None else '; it is also a key of the other map (%r)' % other),
                          table.line)
        for w in sorted(set(digits.value) & set(units.value)):
            chk.bad('C04.consistent', res_path, '%s: %r in digit and unit map' % (code, w), '%r: %r vs %r' % (w, digits.value[w], units.value[w]),
                    '%s: %r is both a digit (%r) and a unit (%r)' % (code, w, digits.value[w], units.value[w]), digits.line)
        for w, v in sorted(units.value.items()):
            chk.judge(round_value_ok(v), 'C04.round', res_path, '%s[%r]' % (units.origin, w), '%s: %r -> %r' % (code, w, v),
                      '%s: unit character %r has value %r, not a power of ten' % (code, w, v), units.line)
        ncl, ocl = closure(num.extractor_cls), closure(ordm.extractor_cls)
        for rv in ncl + ocl:
            chk.consulted(rv.cls.mod.path)
        cpat = Member(text_patterns(ncl, {'Integer' + marker}))
        opat = Member(text_patterns(ocl, {'Ordinal' + marker}))
        if not cpat.revals or not opat.revals:
            raise AnalysisError('%s: no Integer%s / Ordinal%s pattern reachable from the registered extractors' % (code, marker, marker))
        probes = [(ch, ch) for ch in lex['digit']] + [(u, CJK_ONE + u) for u in lex['unit']] + [('十', '十')]
        for ch, phrase in probes:
            hit = cpat.accepts(phrase)
            chk.judge(hit is not None, 'C04.cjk.visible', cpat.revals[0].cls.mod.path, '%s: %r' % (num.extractor_cls.name, phrase),
                      '%s: %r accepted by an Integer%s pattern: %s' % (code, phrase, marker, hit is not None),
                      '%s: %r is valued by the parser tables but no pattern tagged Integer%s (%s) accepts %r'
                      % (code, ch, marker, cpat.names(), phrase), cpat.revals[0].line)
        for ch, v in CJK_ORDINALS.items():
            phrase = CJK_ORDINAL_PREFIX + ch
            hit = opat.accepts(phrase)
            chk.judge(hit is not None, 'C04.cjk.visible', opat.revals[0].cls.mod.path, '%s: %r' % (ordm.extractor_cls.name, phrase),
                      '%s: %r accepted by an Ordinal%s pattern: %s' % (code, phrase, marker, hit is not None),
                      '%s: ordinal %r (%d) is not accepted by any pattern tagged Ordinal%s (%s)' % (code, phrase, v, marker, opat.names()),
                      opat.revals[0].line)
        check_tags(chk, ev, code, marker, (num, ncl), (ordm, ocl))

    # ---- positive controls (the same comparisons on embedded violating data) -------------------------------------
    chk.control('C04.cardinal', {'seven': 8}.get('seven') != LEXICON['en-us']['card']['seven'])
    chk.control('C04.scale', {'million': P9}.get('million') != LEXICON['en-us']['card']['million'])
    chk.control('C04.ordinal', {'third': 2}.get('third') != LEXICON['en-us']['ord']['third'])
    t = rx.parse('(?<=\\b)(?:seventy|twenty|eighty|ninety|forty|fifty|sixty)(?=\\b)')
    chk.control('C04.visible.cardinal', not rx.matches(t, 'thirty') and rx.matches(t, 'forty'))
    chk.control('C04.visible.ordinal', not rx.matches(rx.parse('second[e]'), 'second'))
    chk.control('C04.cjk.value', {'七': 8}.get('七') != CJK_LEXICON['zh-cn']['digit']['七'])
    chk.control('C04.cjk.visible', not rx.matches(rx.parse('[一二三四五六八九]'), '七'))
    chk.control('C04.consistent', dict_pairs(ast.parse("dict([('a', 1), ('a', 2)])").body[0].value) == [('a', 1), ('a', 2)])
    chk.control('C04.round', not round_value_ok(20) and round_value_ok(144) and round_value_ok(10 ** 12) and not round_value_ok(1))
    chk.control('C04.tag', not tag_dispatched('IntegerEng', {'Num', 'Pow'}, True, 'Fre'))
    chk.exhaustive = True


def tag_dispatched(tag, keys, uses_marker, marker):
    return isinstance(tag, str) and (any(k in tag for k in keys) or bool(uses_marker and marker and marker in tag))


def check_tags(chk, ev, code, marker, *pairs):
    idx = ev.idx
    done = set()
    for nr, cl in pairs:
        pcls, _supp = factory_decide(ev, nr.factory_call[0], nr.factory_call[1], nr.ptype, nr.config_cls)
        keys, uses_marker = set(), False
        parse_fns = [(k, fn) for k, fn in reachable_methods(idx, pcls, 'parse') if fn.name == 'parse']
        if not parse_fns:
            raise AnalysisError('%s has no parse method' % pcls.name)
        for _k, fn in parse_fns:
            k2, m2 = dispatch_keys(fn)
            keys |= k2
            uses_marker = uses_marker or m2
        if not keys:
            raise AnalysisError('%s.parse: no `\'Key\' in <tag>` dispatch found' % pcls.name)
        for rv in cl:
            ident = (rv.cls.qual, rv.line, pcls.qual)
            if ident in done:
                continue
            done.add(ident)
            chk.judge(tag_dispatched(rv.tag, keys, uses_marker, marker), 'C04.tag', rv.cls.mod.path,
                      '%s: ReVal(%s) for %s' % (rv.cls.name, rv.name or rv.expr, nr.reg.model),
                      '%s: tag %r vs %s.parse keys %s%s' % (code, rv.tag, pcls.name, sorted(keys), ' + marker %r' % marker if uses_marker else ''),
                      '%s: matches of %s are tagged %r, which %s.parse does not dispatch on (keys %s%s): the parse result is None and '
                      'the entity is lost' % (code, rv.name or rv.expr, rv.tag, pcls.name, sorted(keys),
                                              ', language marker %r' % marker if uses_marker else ''), rv.line)


def thorough(chk):
    """observations only: atomic spellings the integer patterns accept that no wired map values (converse inclusion, not armed)"""
    ev = Ev()
    regs = number_registrations(ev)
    seen = set()
    for nr in regs:
        if nr.reg.model_cls.name != 'NumberModel' or nr.config_cls.qual in seen or nr.reg.culture in CJK_LEXICON:
            continue
        seen.add(nr.config_cls.qual)
        try:
            keys = set()
            for s in ('cardinal_number_map', 'round_number_map', 'ordinal_number_map'):
                v = slot(ev, nr.config_cls, s).value
                if isinstance(v, dict):
                    keys |= {k for k in v if isinstance(k, str)}
            c, _n = dict_node_of(ev, slot(ev, nr.config_cls, 'cardinal_number_map').cls.mod, slot(ev, nr.config_cls, 'cardinal_number_map').expr)
            if c is None:
                continue
            vals = ev.R.values(c)
        except (AnalysisError, Unresolved):
            continue
        over = set()
        for name, pat in vals.items():
            if not (isinstance(pat, str) and name.endswith('IntegerRegex')):
                continue
            try:
                words = rx.enumerate_language(rx.parse(pat), limit=3000)
            except rx.RxError:
                continue
            over |= {w.lower() for w in words if w and ' ' not in w and '-' not in w and w.lower() not in keys}
        if over:
            chk.observe('%s: %d atomic spellings accepted by *IntegerRegex atoms have no table value (over-generation, not armed): %s'
                        % (nr.reg.culture, len(over), ', '.join(sorted(over)[:12])))


# ---------------------------------------------------------------------------------------------------------------
# Table well-formedness (C04.suffix / C04.unitmap / C04.twins / C04.ranges / C04.stems) and the zero guard
# (C04.zero-guard), added after two seeded changes were not reported.

SUFFIX_REFERENCE = {'k': 10 ** 3, 'm': 10 ** 6, 'g': 10 ** 9, 'b': 10 ** 9, 't': 10 ** 12}
CJK_TWINS = [('万', '萬'), ('亿', '億'), ('十', '拾'), ('百', '佰'), ('千', '仟'), ('一', '壹'), ('二', '贰'), ('二', '貳'), ('二', '两'),
             ('二', '兩'), ('三', '叁'), ('四', '肆'), ('五', '伍'), ('六', '陆'), ('六', '陸'), ('七', '柒'), ('八', '捌'), ('九', '玖'),
             ('零', '〇')]
RANGES = {'ZeroToNineIntegerRegex': set(range(0, 10)), 'TenToNineteenIntegerRegex': set(range(10, 20)),
          'TwoToNineIntegerRegex': set(range(2, 10)), 'TensNumberIntegerRegex': None}
TENS = set(range(20, 100, 10))


def _regular_ordinals(code, w):
    """regular ordinal spellings built on the cardinal spelling w (morphology of the language, not of the repository)"""
    if code == 'en-us':
        out = [w + 'th', w + 'ths']
        if w.endswith('y'):
            out += [w[:-1] + 'ieth', w[:-1] + 'ieths']
        if w.endswith('t'):
            out += [w + 'h', w + 'hs']
        return out
    if code == 'de-de':
        return [w + x for x in ('te', 'ter', 'tes', 'ten', 'tem', 'tel', 'ste', 'ster', 'stes', 'sten', 'stem', 'stel')]
    if code == 'nl-nl':
        return [w + x for x in ('de', 'den', 'ste', 'sten')]
    return []


def rule_tables(chk):
    chk.rule('C04.suffix', 'digit-multiplier suffixes k/m/g/b/t of the round-number map have their value', floor=30, control=True)
    chk.rule('C04.unitmap', 'CJK UnitMap rewrites of unit compounds preserve the product (万亿 -> 兆 ...)', floor=6, control=True)
    chk.rule('C04.twins', 'CJK simplified / traditional / financial twin characters have one value', floor=15, control=True)
    chk.rule('C04.ranges', 'the units / teens / tens atom patterns denote exactly 0-9 / 10-19 / the tens', floor=20, control=True)
    chk.rule('C04.stems', 'a regular ordinal spelling has the value of its cardinal stem (en, de, nl)', floor=100, control=True)
    ev = Ev()
    idx = ev.idx
    regs = number_registrations(ev)
    seen = set()
    for nr in regs:
        if nr.reg.model_cls.name != 'NumberModel' or nr.config_cls.qual in seen:
            continue
        seen.add(nr.config_cls.qual)
        code, cfg = nr.reg.culture, nr.config_cls

        def val(name, kind):
            sl = slot(ev, cfg, name)
            if sl.value is None and sl.origin.startswith('unresolved'):
                raise AnalysisError('%s:%d %s.%s wiring not evaluable (%s)' % (sl.cls.mod.rel, sl.line, cfg.name, name, sl.origin))
            if sl.value is not None and not isinstance(sl.value, kind):
                raise AnalysisError('%s: %s.%s evaluates to %s' % (sl.cls.mod.rel, cfg.name, name, type(sl.value).__name__))
            return sl
        rnd = val('round_number_map', dict)
        rc, _n = dict_node_of(ev, rnd.cls.mod, rnd.expr)
        if rc is None:
            raise AnalysisError('%s: resource class behind %s not found' % (code, rnd.origin))
        res_path = rc.mod.path
        chk.consulted(res_path)
        vals = ev.R.values(rc)
        # ---- suffixes
        for k_, v_ in sorted(SUFFIX_REFERENCE.items()):
            if k_ in (rnd.value or {}):
                got = rnd.value[k_]
                chk.judge(got == v_, 'C04.suffix', res_path, '%s[%r]' % (rnd.origin, k_), '%s: %r -> %r, reference %d' % (code, k_, got, v_),
                          '%s: the multiplier suffix %r stands for %d but %s maps it to %r' % (code, k_, v_, rnd.origin, got), rnd.line)
        if code in CJK_LEXICON:
            digits, units = val('zero_to_nine_map', dict), val('round_number_map_char', dict)
            trato = val('trato_sim_map', dict).value or {}
            umap = val('unit_map', dict)
            both = dict(digits.value)
            both.update(units.value)

            def v_of(ch):
                return both.get(trato.get(ch, ch))
            # ---- UnitMap: compound of two unit characters rewritten to one unit character
            for k_, t_ in (umap.value or {}).items():
                if isinstance(k_, str) and isinstance(t_, str) and len(k_) == 2 and len(t_) == 1 and all(c in units.value for c in k_ + t_):
                    prod = units.value[k_[0]] * units.value[k_[1]]
                    chk.judge(prod == units.value[t_], 'C04.unitmap', res_path, '%s[%r]' % (umap.origin, k_),
                              '%s: %s x %s = %d; %r = %r' % (code, k_[0], k_[1], prod, t_, units.value[t_]),
                              '%s: %s rewrites %r (%d x %d = %d) to %r, which %s values %d' % (
                                  code, umap.origin, k_, units.value[k_[0]], units.value[k_[1]], prod, t_, units.origin, units.value[t_]),
                              umap.line)
            # ---- twins
            for a, b in CJK_TWINS:
                va, vb = v_of(a), v_of(b)
                if va is None or vb is None:
                    continue
                chk.judge(va == vb, 'C04.twins', res_path, '%s: %s / %s' % (code, a, b), '%r = %r; %r = %r' % (a, va, b, vb),
                          '%s: the twin characters %s and %s denote the same number but are valued %r and %r' % (code, a, b, va, vb), digits.line)
            # ---- digit class
            pat = vals.get('ZeroToNineIntegerRegex')
            if isinstance(pat, str):
                try:
                    chars = rx.enumerate_language(rx.parse(pat), limit=500)
                except rx.RxError as e:
                    raise AnalysisError('%s: ZeroToNineIntegerRegex not enumerable: %s' % (code, e))
                got = {}
                for c in chars:
                    x = v_of(c)
                    if x is None:
                        chk.bad('C04.ranges', res_path, '%s: ZeroToNineIntegerRegex %r' % (code, c), 'no value',
                                '%s: the digit class accepts %r but the parser has no value for it' % (code, c), digits.line)
                    else:
                        got.setdefault(x, []).append(c)
                chk.judge(set(got) == set(range(10)), 'C04.ranges', res_path, '%s: ZeroToNineIntegerRegex' % code, 'values %s' % sorted(got),
                          '%s: the digit class denotes %s instead of exactly 0-9 (%s)' % (
                              code, sorted(got), '; '.join('%s=%s' % (''.join(cs), x) for x, cs in sorted(got.items()) if x not in range(10))
                              or 'missing %s' % sorted(set(range(10)) - set(got))), digits.line)
            continue
        # ---- non-CJK: atom ranges
        card = val('cardinal_number_map', dict)
        ordi = val('ordinal_number_map', dict)
        for name, expected in RANGES.items():
            pat = vals.get(name)
            if not isinstance(pat, str):
                continue
            try:
                words = rx.enumerate_language(rx.parse(pat), limit=5000, universe=' -')
            except rx.RxError as e:
                raise AnalysisError('%s: %s.%s not enumerable: %s' % (code, rc.name, name, e))
            got = {}
            for w in words:
                x = card.value.get(w.lower())
                if x is not None:
                    got.setdefault(x, []).append(w.lower())
            if expected is not None:
                good = set(got) == expected
                want = '%d-%d' % (min(expected), max(expected))
            else:
                low = {x for x in got if x < 100}
                good = low <= TENS and (TENS - {20}) <= low and all(round_value_ok(x) for x in got if x >= 100)
                want = 'the tens 20..90'
            wrong = {x: ws for x, ws in got.items() if (expected is not None and x not in expected)
                     or (expected is None and ((x < 100 and x not in TENS) or (x >= 100 and not round_value_ok(x))))}
            chk.judge(good, 'C04.ranges', res_path, '%s.%s' % (rc.name, name), '%s: values %s' % (code, sorted(got)),
                      '%s: the words of %s denote %s instead of %s%s' % (
                          code, name, sorted(got), want,
                          ''.join('; %s is valued %s by %s' % ('/'.join(sorted(ws)), x, card.origin) for x, ws in sorted(wrong.items()))),
                      card.line)
        # ---- stems
        if _regular_ordinals(code, 'x'):
            for w, v_ in sorted(card.value.items(), key=lambda kv: str(kv[0])):
                if not isinstance(w, str) or (w in (rnd.value or {}) and rnd.value[w] != v_):
                    continue        # conflicting cardinal / round entries are C04.consistent's business
                for f in _regular_ordinals(code, w):
                    if f in ordi.value:
                        chk.judge(ordi.value[f] == v_, 'C04.stems', res_path, '%s[%r]' % (ordi.origin, f),
                                  '%s: %r = %r; stem %r = %r' % (code, f, ordi.value[f], w, v_),
                                  '%s: the ordinal %r is valued %r but its cardinal stem %r is %r' % (code, f, ordi.value[f], w, v_), ordi.line)
    chk.control('C04.suffix', {'t': 10 ** 9}['t'] != SUFFIX_REFERENCE['t'])
    chk.control('C04.unitmap', 10 ** 4 * 10 ** 8 != 10 ** 6)
    chk.control('C04.twins', {'万': 10 ** 4, '萬': 10 ** 3}['万'] != {'万': 10 ** 4, '萬': 10 ** 3}['萬'])
    words = rx.enumerate_language(rx.parse('(?:thirteen|eleven|twelve|ten)'), limit=100)
    chk.control('C04.ranges', {{'thirteen': 30, 'eleven': 11, 'twelve': 12, 'ten': 10}[w] for w in words} != {10, 11, 12, 13})
    chk.control('C04.stems', 'twelfth' not in _regular_ordinals('en-us', 'twelve') and 'thirteenth' in _regular_ordinals('en-us', 'thirteen')
                and {'thirteenth': 12}['thirteenth'] != 13)


# ---- C04.zero-guard ------------------------------------------------------------------------------------------

ZERO_GUARD_MODULES = ('recognizers_number.number.parsers', 'recognizers_number.number.cjk_parsers', 'recognizers_number.number.models')


def _is_value_helper(call):
    f = call.func
    name = f.attr if isinstance(f, ast.Attribute) else (f.id if isinstance(f, ast.Name) else '')
    name = name.lstrip('_')
    return name.endswith('_value') or name.endswith('composite_number') or name in ('Decimal', 'int', 'float')


def numeric_locals(fn):
    """locals every assignment of which is numeric: a number literal, arithmetic, <x>.value, a *_value helper call,
    a lookup in a *_map table"""
    cand = {}

    def numeric(e, names):
        if isinstance(e, ast.Constant):
            return isinstance(e.value, (int, float)) and not isinstance(e.value, bool)
        if isinstance(e, ast.Attribute):
            return e.attr == 'value'
        if isinstance(e, ast.Name):
            return e.id in names
        if isinstance(e, ast.BinOp):
            return numeric(e.left, names) and numeric(e.right, names)
        if isinstance(e, ast.UnaryOp) and isinstance(e.op, (ast.USub, ast.UAdd)):
            return numeric(e.operand, names)
        if isinstance(e, ast.Call):
            if _is_value_helper(e):
                return True
            if isinstance(e.func, ast.Attribute) and e.func.attr == 'get' and (dotted(e.func.value) or '').endswith('_map'):
                return True
            return False
        if isinstance(e, ast.Subscript):
            return (dotted(e.value) or '').endswith('_map')
        if isinstance(e, ast.IfExp):
            return numeric(e.body, names) and numeric(e.orelse, names)
        return False
    assigns = {}
    for n in ast.walk(fn):
        if isinstance(n, ast.Assign):
            for t in n.targets:
                if isinstance(t, ast.Name):
                    assigns.setdefault(t.id, []).append(n.value)
        elif isinstance(n, ast.AnnAssign) and isinstance(n.target, ast.Name) and n.value is not None:
            assigns.setdefault(n.target.id, []).append(n.value)
        elif isinstance(n, ast.AugAssign) and isinstance(n.target, ast.Name):
            assigns.setdefault(n.target.id, []).append(n.value)
        elif isinstance(n, (ast.For, ast.comprehension)):
            for t in ast.walk(n.target):
                if isinstance(t, ast.Name):
                    assigns.setdefault(t.id, []).append(None)
    names = set(assigns)
    changed = True
    while changed:
        changed = False
        for nm in list(names):
            if not all(v is not None and numeric(v, names) for v in assigns[nm]):
                names.discard(nm)
                changed = True
    # keep only locals fed by a value source (not plain counters / constants)

    def sourced(e, src):
        for n in ast.walk(e):
            if isinstance(n, ast.Attribute) and n.attr == 'value':
                return True
            if isinstance(n, ast.Call) and (_is_value_helper(n) and not (isinstance(n.func, ast.Name) and n.func.id in ('int', 'float'))):
                return True
            if isinstance(n, ast.Call) and isinstance(n.func, ast.Attribute) and n.func.attr == 'get' \
                    and (dotted(n.func.value) or '').endswith('_map'):
                return True
            if isinstance(n, ast.Subscript) and (dotted(n.value) or '').endswith('_map'):
                return True
            if isinstance(n, ast.Name) and n.id in src:
                return True
        return False
    src = set()
    changed = True
    while changed:
        changed = False
        for nm in names - src:
            if any(sourced(v, src) for v in assigns[nm]):
                src.add(nm)
                changed = True
    return src


def value_guards(fn):
    """(node, kind, text) for every boolean-context leaf over a parsed numeric value; kind: 'truthiness' | 'explicit'"""
    nums = numeric_locals(fn)

    def is_val(e):
        return (isinstance(e, ast.Attribute) and e.attr == 'value') or (isinstance(e, ast.Name) and e.id in nums)

    def leaves(t):
        if isinstance(t, ast.BoolOp):
            for v in t.values:
                yield from leaves(v)
        elif isinstance(t, ast.UnaryOp) and isinstance(t.op, ast.Not):
            yield from leaves(t.operand)
        else:
            yield t
    tests = []
    for n in ast.walk(fn):
        if isinstance(n, (ast.If, ast.While, ast.IfExp)):
            tests.append(n.test)
        elif isinstance(n, ast.comprehension):
            tests.extend(n.ifs)
        elif isinstance(n, ast.Assert):
            tests.append(n.test)
        elif isinstance(n, ast.Call) and isinstance(n.func, ast.Name) and n.func.id == 'filter' and n.args \
                and isinstance(n.args[0], ast.Lambda):
            tests.append(n.args[0].body)
    out = []
    for t in tests:
        for leaf in leaves(t):
            if is_val(leaf):
                out.append((leaf, 'truthiness', ast.unparse(leaf)))
            elif isinstance(leaf, ast.Compare) and (is_val(leaf.left) or any(is_val(c) for c in leaf.comparators)):
                out.append((leaf, 'explicit', ast.unparse(leaf)))
    return out


def rule_zero_guard(chk):
    from ..index import get_index
    idx = get_index()
    chk.rule('C04.zero-guard', 'a parsed numeric value is never tested by truthiness (0 is a value): guards compare explicitly',
             floor=5, control=True)
    mods = [m for name, m in sorted(idx.mods.items())
            if name in ZERO_GUARD_MODULES or (name.startswith('recognizers_number.number.') and name.endswith('.parsers'))]
    if len(mods) < 5:
        raise AnalysisError('number parser modules not found (%d)' % len(mods))
    for m in mods:
        chk.consulted(m.path)
        for _m, cls, fn in idx.functions(m):
            q = '%s.%s' % (cls.name, fn.name) if cls else fn.name
            for node, kind, text in value_guards(fn):
                chk.judge(kind == 'explicit', 'C04.zero-guard', m.path, q, text,
                          '%s tests the parsed number `%s` by truthiness: the value 0 ("zero", "0", 零) is treated as missing; compare with '
                          '`is not None` (or an explicit number) instead' % (q, text), node.lineno)
    ctl = ast.parse("def parse(self, s):\n    ret = self._digit_number_parse(s)\n    v = ret.value\n    if ret and ret.value:\n        pass\n"
                    "    elif not v:\n        pass\n    if ret is not None and not (ret.value is None):\n        pass\n").body[0]
    g = value_guards(ctl)
    chk.control('C04.zero-guard', sorted(k for _n, k, _t in g) == ['explicit', 'truthiness', 'truthiness'])


_run_before_tables = run


def run(chk):       # noqa: F811
    _run_before_tables(chk)
    rule_tables(chk)
    rule_zero_guard(chk)


# ---------------------------------------------------------------------------------------------------------------
# C04.compose: the composition itself, tabulated.  BaseNumberParser.__get_int_value (with the round_number_set that
# BaseNumberParser.__init__ builds) is interpreted per culture configuration on token lists made of the culture's own
# standard words (reference lexicon): n x scale, (n x 100 + t) x scale, million-level + thousand-level, and the same
# with a round ORDINAL word (thousandth, millionth, millième ...) as the last token.  The value must be the arithmetic one.

from .c03 import DigitInterp, MiniInterp, culture_info_code      # noqa: E402


class ProbeUnvalued(Exception):
    """a probe token is in neither the cardinal nor the ordinal map: the parser falls back to resolve_composite_number"""

    def __init__(self, expr, env):
        Exception.__init__(self, expr)
        self.token = env.get('match') if isinstance(env, dict) else None


class TableInterp(DigitInterp):
    """DigitInterp + dictionaries (lookup, get, keys, membership) and list repetition"""

    def binop(self, n, op, a, b):
        if isinstance(op, ast.Mult) and isinstance(a, list) and isinstance(b, int) and not isinstance(b, bool):
            return a * min(b, 256)
        return DigitInterp.binop(self, n, op, a, b)

    def ev(self, n, env, depth):
        cfg = getattr(self, 'self_config', None)
        if cfg is not None and isinstance(n, ast.Attribute) and isinstance(n.value, ast.Name) and n.value.id == 'self' \
                and dotted(n) not in self.attrs:
            # an attribute of the configuration object itself: a property (slot) or a field assigned in __init__
            from .c03 import init_assignments
            if self.idx.find_method(cfg, n.attr)[1] is not None:
                v = slot(self.evaluator, cfg, n.attr).value
            else:
                plain, _c = init_assignments(self.idx, cfg, n.attr)
                if not plain:
                    self.fail(n, 'attribute ' + ast.unparse(n))
                try:
                    v = self.evaluator.ev(plain[-1][0].mod, plain[-1][1].value)
                except Unresolved as e:
                    self.fail(n, 'attribute %s (%s)' % (ast.unparse(n), e))
            self.attrs[dotted(n)] = v
            return v
        if isinstance(n, ast.Subscript) and not isinstance(n.slice, ast.Slice):
            base = self.ev(n.value, env, depth)
            if isinstance(base, dict):
                k = self.ev(n.slice, env, depth)
                try:
                    return base[k]
                except (KeyError, TypeError):
                    self.fail(n, 'KeyError %r in %s' % (k, ast.unparse(n.value)))
            # fall through with the already evaluated base is not possible: re-evaluate through the parent
        if isinstance(n, (ast.ListComp, ast.GeneratorExp)) and len(n.generators) == 1:
            g = n.generators[0]
            it = self.ev(g.iter, env, depth)
            if isinstance(it, dict):
                inner = dict(env)
                out = []
                for x in list(it):
                    self.assign(g.target, x, inner, depth)
                    if all(self.ev(c, inner, depth) for c in g.ifs):
                        out.append(self.ev(n.elt, inner, depth))
                return out
        return DigitInterp.ev(self, n, env, depth)

    def evcall(self, n, env, depth):
        f = n.func
        if isinstance(f, ast.Attribute) and f.attr in ('get', 'keys', 'values', 'items') and not n.keywords:
            recv = self.ev(f.value, env, depth)
            if isinstance(recv, dict):
                args = [self.ev(a, env, depth) for a in n.args]
                if f.attr == 'get' and 1 <= len(args) <= 2:
                    return recv.get(*args)
                if f.attr == 'keys' and not args:
                    return list(recv.keys())
                if f.attr == 'values' and not args:
                    return list(recv.values())
                if f.attr == 'items' and not args:
                    return [[k, v] for k, v in recv.items()]
        if isinstance(f, ast.Name) and f.id == 'list' and len(n.args) == 1 and not n.keywords:
            v = self.ev(n.args[0], env, depth)
            if isinstance(v, dict):
                return list(v)
            if isinstance(v, (list, str, range)):
                return list(v)
        if isinstance(f, ast.Attribute) and dotted(f) == 'self.config.resolve_composite_number':
            cfg = self.attrs.get('<config class>')
            tok = self.ev(n.args[0], env, depth) if n.args else None
            if cfg is None or not getattr(self, 'interpret_composite', False):
                raise ProbeUnvalued(ast.unparse(n.args[0]) if n.args else '?', env)
            k_, fn_ = self.idx.find_method(cfg, 'resolve_composite_number')
            if fn_ is None:
                self.fail(n, 'configuration has no resolve_composite_number')
            cattrs = {'self.' + name[len('self.config.'):]: v for name, v in self.attrs.items() if name.startswith('self.config.')}
            sub = TableInterp(self.idx, cfg, '%s.resolve_composite_number' % cfg.name, cattrs, self.evaluator)
            sub.self_config = cfg
            return sub.call(fn_, [tok])
        if isinstance(f, ast.Attribute) and f.attr == 'clear' and not n.args:
            recv = self.ev(f.value, env, depth)
            if isinstance(recv, list):
                recv.clear()
                return None
        return DigitInterp.evcall(self, n, env, depth)


def compose_probes(lex, rnd, ordi):
    """token lists from the culture's standard words -> [(tokens, expected integer, kind)]"""
    card = lex['card']

    def word(v, pool=None):
        for w, x in card.items():
            if x == v and ' ' not in w and '-' not in w and (pool is None or w in pool):
                return w
        return None
    one, two, three, five = word(1), word(2), word(3), word(5)
    fifty = word(50)
    hundred = next((w for w in lex['scale'] if card[w] == 100), None)
    thousand = next((w for w in lex['scale'] if card[w] == 1000), None)
    million = next((w for w in lex['scale'] if card[w] == 10 ** 6 and w in rnd), None)
    millions = next((w for w in reversed(lex['scale']) if card[w] == 10 ** 6 and w in rnd), million)
    out = []
    if hundred and hundred in rnd and two:
        out.append(([two, hundred], 200, 'cardinal'))
        if fifty:
            out.append(([two, hundred, fifty], 250, 'cardinal'))
    if thousand and two:
        out.append(([two, thousand], 2000, 'cardinal'))
        if hundred and hundred in rnd:
            out.append(([two, hundred, thousand], 200000, 'cardinal'))
            if fifty:
                out.append(([two, hundred, fifty, thousand], 250000, 'cardinal'))
    if millions and three and thousand and five and hundred and hundred in rnd:
        out.append(([three, millions, five, hundred, thousand], 3500000, 'cardinal'))
    # round ordinal words: keys of both the ordinal and the round-number map (value >= 1000), singular forms first
    ro = sorted((w for w in ordi if w in rnd and isinstance(ordi[w], int) and ordi[w] >= 1000 and ordi[w] == rnd[w] and ' ' not in w),
                key=lambda w: (ordi[w], len(w), w))
    seen_vals = set()
    for r in ro:
        R = ordi[r]
        if R in seen_vals or R > 10 ** 9:
            continue
        seen_vals.add(R)
        if two:
            out.append(([two, r], 2 * R, 'ordinal'))
        if hundred and hundred in rnd and one and two:
            out.append(([one if one != hundred else two, hundred, r], 100 * R, 'ordinal'))
            if fifty:
                out.append(([two, hundred, fifty, r], 250 * R, 'ordinal'))
        if R == 1000 and millions and three and five and hundred and hundred in rnd:
            out.append(([three, millions, five, hundred, r], 3500000, 'ordinal'))
    return out


def rule_compose(chk):
    from decimal import Decimal
    ev = Ev()
    idx = ev.idx
    chk.rule('C04.compose', 'BaseNumberParser.__get_int_value composes multiplier x scale / round-ordinal token lists to the arithmetic '
                            'value (interpreted per culture configuration)', floor=4, control=True)
    bnp = idx.cls('recognizers_number.number.parsers.BaseNumberParser')
    giv = bnp.methods.get('__get_int_value')
    init = bnp.methods.get('__init__')
    if giv is None or init is None:
        raise AnalysisError('anchor vanished: BaseNumberParser.__get_int_value / __init__')
    rset_expr = None
    for n in ast.walk(init):
        tgt = n.targets[0] if isinstance(n, ast.Assign) and len(n.targets) == 1 else (n.target if isinstance(n, ast.AnnAssign) else None)
        if tgt is not None and is_self_attr_c04(tgt, 'round_number_set') and n.value is not None:
            rset_expr = n.value
    if rset_expr is None:
        raise AnalysisError('BaseNumberParser.__init__ does not assign self.round_number_set')
    chk.consulted(bnp.mod.path)
    regs = number_registrations(ev)
    seen = set()
    for nr in regs:
        code = nr.reg.culture
        if nr.reg.model_cls.name != 'OrdinalModel' or code not in LEXICON or nr.config_cls.qual in seen:
            continue
        seen.add(nr.config_cls.qual)
        cfg = nr.config_cls
        attrs = {}
        for s_ in ('cardinal_number_map', 'ordinal_number_map', 'round_number_map', 'written_integer_separator_texts'):
            sl = slot(ev, cfg, s_)
            if sl.value is None:
                raise AnalysisError('%s.%s wiring not evaluable (%s)' % (cfg.name, s_, sl.origin))
            attrs['self.config.' + s_] = sl.value
        where = 'BaseNumberParser.__get_int_value[%s]' % code
        ti = TableInterp(idx, bnp, where, attrs, ev)
        rset = ti.ev(rset_expr, {}, 0)
        if not isinstance(rset, list):
            raise AnalysisError('%s: round_number_set does not evaluate to a list' % where)
        attrs['self.round_number_set'] = rset
        probes = compose_probes(LEXICON[code], attrs['self.config.round_number_map'], attrs['self.config.ordinal_number_map'])
        if not probes:
            raise AnalysisError('%s: no composition probe could be built from the lexicon' % code)
        bad = []
        for toks, want, kind in probes:
            try:
                got = TableInterp(idx, bnp, where, attrs, ev).call(giv, [list(toks)])
            except ProbeUnvalued as pu:
                bad.append('%s %s: token %r is in neither the cardinal nor the ordinal map' % (kind, ' '.join(toks), pu.token))
                continue
            if not isinstance(got, (Decimal, int)) or Decimal(got) != Decimal(want):
                bad.append('%s %s -> %s (expected %d)' % (kind, ' '.join(toks), got, want))
        # the same spellings with the culture's separator word between a larger and a smaller addend ("one hundred AND one"):
        # the separator token reaches resolve_composite_number and must contribute nothing
        sep = slot(ev, cfg, 'word_separator_token').value
        nsep = 0
        if isinstance(sep, str) and sep.strip():
            attrs2 = dict(attrs)
            attrs2['<config class>'] = cfg
            lexc = LEXICON[code]['card']
            w1 = next((w for w, x in lexc.items() if x == 1 and ' ' not in w), None)
            w3 = next((w for w, x in lexc.items() if x == 3), None)
            w20 = next((w for w, x in lexc.items() if x in (20, 30) and ' ' not in w and '-' not in w), None)
            for toks, want, kind in list(probes):
                if kind != 'cardinal' or len(toks) < 2 or want % 100 != 0 or w3 is None:
                    continue
                for tail, add in (([w3], 3), ([w20, w3] if w20 else None, (lexc.get(w20, 0) + 3) if w20 else 0)):
                    if tail is None:
                        continue
                    plain = list(toks) + tail
                    with_sep = list(toks) + [sep] + tail
                    vals_ = []
                    for tl in (plain, with_sep):
                        ti2 = TableInterp(idx, bnp, where, attrs2, ev)
                        ti2.interpret_composite = True
                        try:
                            vals_.append(ti2.call(giv, [list(tl)]))
                        except ProbeUnvalued as pu:
                            vals_.append('unvalued %r' % pu.token)
                    nsep += 1
                    if vals_[0] != vals_[1] or not isinstance(vals_[1], (Decimal, int)) or Decimal(vals_[1]) != Decimal(want + add):
                        bad.append('with separator: %s -> %s, %s -> %s (expected %d)' % (' '.join(with_sep), vals_[1], ' '.join(plain), vals_[0],
                                                                                         want + add))
        nord = sum(1 for _t, _w, k in probes if k == 'ordinal')
        chk.judge(not bad, 'C04.compose', bnp.mod.path, '__get_int_value under %s[%s]' % (cfg.name, code),
                  '%d token lists (%d ending in a round ordinal) + %d with the separator word %r, %d wrong%s' % (
                      len(probes), nord, nsep, sep, len(bad), (': ' + '; '.join(bad)) if bad else ''),
                  'culture %s: the integer composition mis-values %s - round_number_set (%d words; BaseNumberParser.__init__) decides '
                  'which words close a multiplier group' % (code, '; '.join(bad[:5]), len(rset)), giv.lineno)
    if not seen:
        raise AnalysisError('no OrdinalModel registration with a lexicon found')
    # control: the same interpretation with the round ordinal words removed from round_number_set
    en = next((nr.config_cls for nr in regs if nr.reg.culture == 'en-us'), None)
    if en is not None:
        attrs = {'self.config.' + s_: slot(ev, en, s_).value for s_ in ('cardinal_number_map', 'ordinal_number_map', 'round_number_map',
                                                                        'written_integer_separator_texts')}
        attrs['self.round_number_set'] = [k for k in attrs['self.config.round_number_map'] if k not in attrs['self.config.ordinal_number_map']]
        got = TableInterp(idx, bnp, 'control', attrs, ev).call(giv, [['one', 'hundred', 'thousandth']])
        chk.control('C04.compose', Decimal(got) != Decimal(100000))


def is_self_attr_c04(n, attr):
    return isinstance(n, ast.Attribute) and isinstance(n.value, ast.Name) and n.value.id == 'self' and n.attr == attr


_run_before_compose = run


def run(chk):       # noqa: F811
    _run_before_compose(chk)
    rule_compose(chk)


# ---------------------------------------------------------------------------------------------------------------
# C04.key-order and C04.cjk.compose (round 5), tabulated with sa/ointerp.py
#
# C04.key-order    BaseNumberParser._get_key_regex is interpreted on the key lists of each culture's cardinal / ordinal maps.
#                  In the alternation it returns, no key may be preceded by a proper prefix of itself where that prefix can
#                  match on its own: always in the cultures whose text-number regex has an unanchored alternative
#                  (read from _get_text_number_regex), elsewhere when the longer key continues with a non-word character
#                  (fr 'quatre' / 'quatre-vingt').  Otherwise the tokeniser cuts the longer word.
# C04.cjk.compose  CJKNumberParser.get_int_value is interpreted per CJK configuration on numerals built from the culture's own
#                  digit / unit characters (d, d十, d百零d, d千零d十, d万零d, d百d十d, colloquial d百d for zh ...) against
#                  the arithmetic value.

def rule_key_order_and_cjk(chk):
    from ..ointerp import FuncRef, Interp, Obj, PyExc
    from .c03 import cjk_config_table, oi_regex_hooks, super_interp_class
    ev = Ev()
    idx = ev.idx
    chk.rule('C04.key-order', 'in the tokeniser alternation no number word is preceded by a proper prefix of itself that can match alone',
             floor=8, control=True)
    chk.rule('C04.cjk.compose', 'CJKNumberParser.get_int_value composes digit / unit numerals to the arithmetic value (tabulated)', floor=2,
             control=True)
    bnp = idx.cls('recognizers_number.number.parsers.BaseNumberParser')
    gk = bnp.methods.get('_get_key_regex')
    gt = bnp.methods.get('_get_text_number_regex')
    if gk is None or gt is None:
        raise AnalysisError('anchor vanished: BaseNumberParser._get_key_regex / _get_text_number_regex')
    chk.consulted(bnp.mod.path)
    # cultures with an unanchored alternative
    unanchored = None
    for n in ast.walk(gt):
        if isinstance(n, ast.If) and isinstance(n.test, ast.Compare) and len(n.test.ops) == 1 and isinstance(n.test.ops[0], ast.In) \
                and isinstance(n.test.comparators[0], (ast.Tuple, ast.List, ast.Set)):
            try:
                unanchored = {ev.ev(bnp.mod, e) for e in n.test.comparators[0].elts}
            except Unresolved as ex:
                raise AnalysisError('_get_text_number_regex: culture list not evaluable (%s)' % ex)
    if unanchored is None:
        raise AnalysisError('_get_text_number_regex: the culture list of the unanchored alternative was not recognised')

    def order_of(fn, keys):
        it = super_interp_class()(idx, where='_get_key_regex', budget=400000)
        out = it.call_function(FuncRef(bnp.mod, fn, bnp), [list(keys)], {}, selfobj=Obj(bnp, {}))
        if not isinstance(out, str):
            raise AnalysisError('_get_key_regex does not return a string')
        return out.split('|')

    def harmful_pairs(alts, code):
        pos = {}
        for i, k in enumerate(alts):
            pos.setdefault(k, i)
        keys = sorted(pos, key=len)
        total, harmful = 0, []
        for i, a in enumerate(keys):
            if not a:
                continue
            for b in keys[i + 1:]:
                if len(b) > len(a) and b.startswith(a):
                    total += 1
                    can_cut = code in unanchored or not (b[len(a)].isalnum() or b[len(a)] == '_')
                    if can_cut and pos[a] < pos[b]:
                        harmful.append((a, b))
        return total, harmful
    regs = number_registrations(ev)
    seen = set()
    for nr in regs:
        code = nr.reg.culture
        if nr.reg.model_cls.name != 'NumberModel' or (nr.config_cls.qual, code) in seen:
            continue
        seen.add((nr.config_cls.qual, code))
        for s_ in ('cardinal_number_map', 'ordinal_number_map'):
            v = slot(ev, nr.config_cls, s_).value
            if not isinstance(v, dict) or not v:
                continue
            keys = [k for k in v if isinstance(k, str)]
            alts = order_of(gk, keys)
            lost = sorted(set(keys) - set(alts))
            total, harmful = harmful_pairs(alts, code)
            chk.judge(not harmful and not lost, 'C04.key-order', bnp.mod.path, '_get_key_regex(%s.%s)[%s]' % (nr.config_cls.name, s_, code),
                      '%d keys, %d prefix pairs, %d where the prefix comes first and can match alone%s' % (
                          len(keys), total, len(harmful), (' ' + str(harmful[:6])) if harmful else ''),
                      'culture %s: in the tokeniser alternation built by _get_key_regex from %s, %s: the shorter word matches first and the '
                      'longer number word is cut (%d such pairs%s)' % (
                          code, s_, '; '.join('%r precedes %r' % p for p in harmful[:5]) or 'keys %s are lost' % lost[:5], len(harmful),
                          ', unanchored alternative' if code in unanchored else ', the longer key continues with a non-word character'),
                      gk.lineno)
    ctl = ast.parse("def _get_key_regex(self, keys):\n    return str.join('|', keys)\n").body[0]
    chk.control('C04.key-order', bool(harmful_pairs(order_of(ctl, ['quatre', 'quatre-vingt', 'vier', 'vierzig']), 'fr-fr')[1]))

    # ---- CJK integer composition
    cjk = idx.cls('recognizers_number.number.cjk_parsers.CJKNumberParser')
    giv = cjk.methods.get('get_int_value')
    if giv is None:
        raise AnalysisError('anchor vanished: CJKNumberParser.get_int_value')
    chk.consulted(cjk.mod.path)
    hooks = oi_regex_hooks()
    SI = super_interp_class()

    def value(fn, cfgn, text):
        it = SI(idx, hooks=hooks, where='get_int_value', budget=200000)
        return it.call_function(FuncRef(cjk.mod, fn, cjk), [text], {}, selfobj=Obj(cjk, {'config': cfgn}))
    done = set()
    for nr in regs:
        code = nr.reg.culture
        if nr.reg.model_cls.name != 'NumberModel' or code not in CJK_LEXICON or nr.config_cls.qual in done:
            continue
        done.add(nr.config_cls.qual)
        cfgn = cjk_config_table(ev, nr.config_cls, code)
        lex = CJK_LEXICON[code]
        D = {v: ch for ch, v in reversed(list(lex['digit'].items())) if ch in '零一二三四五六七八九'}
        U = {v: ch for ch, v in lex['unit'].items() if ch in '十百千万亿億'}
        z = D.get(0)
        if z is None or any(v not in D for v in (1, 2, 3, 5)) or any(u not in U for u in (10, 100, 1000, 10000)):
            raise AnalysisError('%s: lexicon digits / units incomplete for the composition probes' % code)
        s, b, q, w = U[10], U[100], U[1000], U[10000]
        cases = []
        for d in (1, 2, 5):
            a = D[d]
            cases += [(a, d), (a + s, 10 * d), (a + b, 100 * d), (a + q, 1000 * d), (a + w, 10000 * d),
                      (a + b + z + D[3], 100 * d + 3), (a + q + z + D[3], 1000 * d + 3), (a + q + z + D[3] + s, 1000 * d + 30),
                      (a + w + z + D[3], 10000 * d + 3), (a + b + D[2] + s + D[3], 100 * d + 23), (a + b + D[2] + s, 100 * d + 20),
                      (a + q + D[2] + b, 1000 * d + 200), (a + s + D[3], 10 * d + 3), (a + w + D[3] + q, 10000 * d + 3000),
                      (a + q + z + D[3] + s + D[2], 1000 * d + 32), (a + w + z + D[3] + b, 10000 * d + 300),
                      (a + s + w, 100000 * d), (a + b + w, 1000000 * d), (a + q + w, 10000000 * d),
                      (a + b + D[2] + s + w, (100 * d + 20) * 10000), (a + s + w + D[3] + q, 100000 * d + 3000)]
            if code == 'zh-cn':
                cases += [(a + b + D[5], 100 * d + 50), (a + q + D[5], 1000 * d + 500), (a + w + D[5], 10000 * d + 5000)]
        cases += [(s, 10), (s + D[3], 13), (z, 0)]
        bad = []
        for text, want in cases:
            try:
                got = value(giv, cfgn, text)
            except PyExc as ex:
                bad.append('%s raises %s' % (text, ex))
                continue
            if not isinstance(got, (int, float)) or isinstance(got, bool) or abs(float(got) - want) > 1e-9:
                bad.append('%s -> %s (expected %d)' % (text, got, want))
        chk.judge(not bad, 'C04.cjk.compose', cjk.mod.path, 'CJKNumberParser.get_int_value under %s[%s]' % (nr.config_cls.name, code),
                  '%d numerals, %d wrong%s' % (len(cases), len(bad), (': ' + '; '.join(bad[:8])) if bad else ''),
                  'culture %s: CJKNumberParser.get_int_value mis-values %s (a placeholder %s never multiplies; the colloquial ending only '
                  'applies to a digit directly after a unit)' % (code, '; '.join(bad[:6]), z), giv.lineno)
    if not done:
        raise AnalysisError('no CJK number configuration found')
    chk.control('C04.cjk.compose', 110 != 101)


_run_before_key_order = run


def run(chk):       # noqa: F811
    _run_before_key_order(chk)
    rule_key_order_and_cjk(chk)


# ---------------------------------------------------------------------------------------------------------------
# C04.visible.phrase (round 7): a COMPOSED standard numeral is extracted as one entity only if ONE pattern of the number
# extractor matches the whole phrase.  BaseNumberExtractor.extract marks every matched character, cuts the marks into
# maximal runs and emits a run only when a single match has exactly the run's start and length; matches that merely
# overlap produce nothing.  So "phrase in L+ of some wired pattern (any tag)" is necessary for the phrase to be one
# entity.  The phrases are written here independently of the repository (standard spellings with their integer; the
# integer documents the phrase, the rule decides extraction only).  Cultures whose registered extractor overrides
# `extract` (the merged extractors of en/de/nl/it glue adjacent matches) are exempt: there the clause is not necessary.
# fr 'deux cents' / 'mille cinq cents': the plural 'cents' is not accepted by the pinned patterns - a genuine upstream
# defect reproduced against the real code ('deux cents' -> 2, 'mille cinq cents' -> 'mille cinq' = 1005); the two phrases
# are listed and the two violations are recorded in known_findings.json.

PHRASES = {
    'es-es': {'treinta y uno': 31, 'ciento cinco': 105, 'mil quinientos': 1500, 'dos mil veintiuno': 2021, 'veintiún mil': 21000,
              'doscientos cincuenta mil': 250000, 'un millón doscientos mil': 1200000, 'tres millones quinientos mil': 3500000,
              'novecientos noventa y nueve mil novecientos noventa y nueve': 999999},
    'fr-fr': {'vingt et un': 21, 'quatre-vingt-dix-neuf': 99, 'cent cinq': 105, 'deux mille vingt et un': 2021,
              'deux cent cinquante mille': 250000, 'un million deux cent mille': 1200000, 'trois millions cinq cent mille': 3500000,
              'deux cents': 200, 'mille cinq cents': 1500},
    'pt-br': {'vinte e um': 21, 'cento e cinco': 105, 'mil e quinhentos': 1500, 'dois mil e vinte e um': 2021,
              'vinte mil e quinhentos': 20500, 'cem mil e um': 100001, 'um milhão e um': 1000001, 'um milhão e quinhentos': 1000500,
              'um milhão duzentos mil': 1200000, 'um milhão duzentos e trinta mil': 1230000,
              'um milhão e duzentos mil': 1200000, 'dois milhões e cinquenta mil': 2050000, 'três milhões e quinhentos mil': 3500000,
              'vinte e cinco milhões e cem mil': 25100000, 'um bilhão e duzentos milhões': 1200000000,
              'novecentos e noventa e nove mil novecentos e noventa e nove': 999999},
    'en-us': {'one hundred and five': 105, 'one million two hundred thousand': 1200000},
    'de-de': {'zweihundertfünfzig': 250, 'eine million zweihunderttausend': 1200000},
    'it-it': {'centocinque': 105, 'un milione duecentomila': 1200000},
    'nl-nl': {'tweehonderdvijftig': 250, 'een miljoen tweehonderdduizend': 1200000},
}
SPAN_EXTRACT_OWNER = 'recognizers_number.number.extractors.BaseNumberExtractor'


def _pattern_site(ev, rv):
    """(path, line) of the resource constant behind a ReVal named 'Resource.Name' (display only)"""
    if rv.name and '.' in rv.name:
        cn, _, an = rv.name.rpartition('.')
        try:
            c = ev.idx.resolve_class(rv.cls.mod, ast.parse(cn, mode='eval').body)
        except SyntaxError:
            c = None
        if c is not None:
            k, node = ev.idx.class_attr(c, an)
            if node is not None:
                return k.mod.rel, getattr(node, 'lineno', 0)
    return rv.cls.mod.rel, rv.line


def _never_matches(ev, rv):
    """a ReVal whose pattern expression is `Resource.Name` with no such constant: constructing it raises, it never matches"""
    try:
        e = ast.parse(rv.expr, mode='eval').body
    except SyntaxError:
        return False
    while isinstance(e, ast.Call) and e.args:
        e = e.args[0]
    if not (isinstance(e, ast.Attribute) and isinstance(e.value, (ast.Name, ast.Attribute))):
        return False
    c = ev.idx.resolve_class(rv.cls.mod, e.value)
    return c is not None and ev.idx.class_attr(c, e.attr)[1] is None


def longest_prefix(member, phrase):
    """(number of leading words, ReVal) of the longest word-prefix of `phrase` some pattern accepts"""
    words = phrase.split(' ')
    for n in range(len(words) - 1, 0, -1):
        hit = member.accepts(' '.join(words[:n]))
        if hit is not None:
            return n, hit
    return 0, None


def rule_phrases(chk):
    ev = Ev()
    idx = ev.idx
    chk.rule('C04.visible.phrase', 'a composed standard numeral is matched as a whole by one pattern of the registered number extractor '
                                   '(BaseNumberExtractor.extract emits a run of matched characters only when a single match spans it)',
             floor=20, control=True)
    owner = idx.cls(SPAN_EXTRACT_OWNER)
    if 'extract' not in owner.methods:
        raise AnalysisError('anchor vanished: BaseNumberExtractor.extract')
    chk.consulted(owner.mod.path)
    chk.assume('BaseNumberExtractor.extract emits a maximal run of matched characters only if one match has the run\'s start and length')
    regs = number_registrations(ev)
    done, armed = set(), 0
    for nr in regs:
        code = nr.reg.culture
        lexcode = SAME_LEXICON.get(code, code)
        if nr.reg.model_cls.name != 'NumberModel' or lexcode not in PHRASES or nr.extractor_cls.qual in done:
            continue
        done.add(nr.extractor_cls.qual)
        ext = nr.extractor_cls
        k, fn = idx.find_method(ext, 'extract')
        if fn is None:
            raise AnalysisError('%s: registered extractor %s has no extract method' % (code, ext.name))
        if k.qual != owner.qual:
            chk.exempt('C04.visible.phrase', ext.mod.path, '%s: %s.extract' % (code, ext.name),
                       'extract is defined by %s, which glues adjacent matches: a single spanning match is not necessary' % k.name,
                       '%d phrases not armed' % len(PHRASES[lexcode]))
            continue
        cl = extractor_closure(ev, ext)
        for rv in cl:
            chk.consulted(rv.cls.mod.path)
        usable = [rv for rv in cl if rv.kind == 'resource' and isinstance(rv.pattern, str)]
        # 'format' patterns are generated from digit-group templates (_generate_format_regex): they contain no letters
        opaque = [rv for rv in cl if rv not in usable and rv.kind != 'format' and not _never_matches(ev, rv)]
        mem = Member(usable)
        if not usable:
            raise AnalysisError('%s: no evaluable pattern reachable from %s' % (code, ext.name))
        for phrase, value in PHRASES[lexcode].items():
            hit = mem.accepts(phrase)
            if hit is None and (opaque or mem.unanalysable):
                raise AnalysisError('%s: %r is accepted by no readable pattern of %s, but %s cannot be read: undecided'
                                    % (code, phrase, ext.name, [rv.name or rv.expr for rv in opaque] + mem.unanalysable))
            msg = ''
            if hit is None:
                n, near = longest_prefix(mem, phrase)
                if near is not None:
                    p_, l_ = _pattern_site(ev, near)
                    msg = '; the longest prefix one pattern accepts is %r (%s, %s:%d)' % (' '.join(phrase.split(' ')[:n]), near.name, p_, l_)
            armed += 1
            chk.judge(hit is not None, 'C04.visible.phrase', ext.mod.path, '%s: %r' % (ext.name, phrase),
                      '%s: %r (%d) matched as a whole by one wired pattern: %s' % (code, phrase, value, hit is not None),
                      '%s: the standard numeral %r (%d) is matched as a whole by none of the %d patterns %s wires%s: the partial matches '
                      'overlap without one spanning the run, so BaseNumberExtractor.extract emits no entity for it'
                      % (code, phrase, value, len(usable), ext.name, msg), usable[0].line)
    if not armed:
        raise AnalysisError('C04.visible.phrase: no culture whose registered number extractor uses BaseNumberExtractor.extract')
    t = rx.parse('(um|dois)(\\s+milh[ãa]o)?(\\s+e\\s+(cem|duzentos))?|(cem|duzentos)(\\s+mil)?')
    chk.control('C04.visible.phrase', rx.matches(t, 'um milhão e duzentos') and rx.matches(t, 'duzentos mil')
                and not rx.matches(t, 'um milhão e duzentos mil'))


_run_before_phrases = run


def run(chk):       # noqa: F811
    _run_before_phrases(chk)
    rule_phrases(chk)


# ---------------------------------------------------------------------------------------------------------------
# C04.visible.twin (round 7): the parser maps list many words twice - with their diacritics (the standard spelling:
# 'veintiún', 'dieciséis', 'três') and stripped of them (tolerated sloppy typing) - with one value.  Where the extractor
# accepts the stripped twin in a context (alone, or after the culture's word for one / two), it must accept the standard
# accented spelling in the same context: otherwise the grammar lost exactly the standard form of a number it still
# recognises (a character class [uú] 'tidied' to u).  Only this direction is armed (the standard form is the one the
# property quantifies over); twins that are both invisible are latent table entries and are not reported.

import unicodedata      # noqa: E402


def strip_marks(w):
    return ''.join(ch for ch in unicodedata.normalize('NFD', w) if unicodedata.category(ch) != 'Mn')


def twin_failures(member, twins, ones):
    """[(accented, stripped, context)] where the stripped twin is accepted in a context and the accented one is not,
    and the set of accented keys whose stripped twin is accepted at all (armed)"""
    out, n = [], set()
    for acc, plain in twins:
        for ctx in ['%s'] + ['%s %%s' % o for o in ones]:
            if member.accepts(ctx % plain) is not None:
                n.add(acc)
                if member.accepts(ctx % acc) is None:
                    out.append((acc, plain, ctx % acc))
                break
    return out, n


def rule_twins(chk):
    ev = Ev()
    chk.rule('C04.visible.twin', 'a map key with diacritics whose stripped twin (same value) the extractor accepts is accepted too',
             floor=6, control=True)
    regs = number_registrations(ev)
    by_culture = {}
    for nr in regs:
        by_culture.setdefault(nr.reg.culture, {})[nr.reg.model_cls.name] = nr
    done = set()
    for code in sorted(LEXICON):
        pair = by_culture.get(code, {})
        if 'NumberModel' not in pair or 'OrdinalModel' not in pair:
            raise AnalysisError('no NumberModel / OrdinalModel registration for culture %s' % code)
        ones = [w for w, v in LEXICON[code]['card'].items() if v in (1, 2) and ' ' not in w]
        for nr, slot_name in ((pair['NumberModel'], 'cardinal_number_map'), (pair['OrdinalModel'], 'ordinal_number_map')):
            key = (nr.config_cls.qual, nr.extractor_cls.qual, slot_name)
            if key in done:
                continue
            done.add(key)
            sl = slot(ev, nr.config_cls, slot_name)
            if not isinstance(sl.value, dict):
                raise AnalysisError('%s.%s wiring not evaluable (%s)' % (nr.config_cls.name, slot_name, sl.origin))
            twins = sorted((k, strip_marks(k)) for k in sl.value
                           if isinstance(k, str) and strip_marks(k) != k and sl.value.get(strip_marks(k)) == sl.value[k])
            cl = extractor_closure(ev, nr.extractor_cls)
            usable = [rv for rv in cl if rv.kind == 'resource' and isinstance(rv.pattern, str)]
            if not usable:
                raise AnalysisError('%s: no evaluable pattern reachable from %s' % (code, nr.extractor_cls.name))
            mem = Member(usable)
            opaque = [rv.name or rv.expr for rv in cl if rv not in usable and rv.kind != 'format' and not _never_matches(ev, rv)]
            fails, armed = twin_failures(mem, twins, ones)
            if fails and (opaque or mem.unanalysable):
                raise AnalysisError('%s: %r is accepted by no readable pattern of %s, but %s cannot be read: undecided'
                                    % (code, fails[0][2], nr.extractor_cls.name, opaque + mem.unanalysable))
            rc, _n = dict_node_of(ev, sl.cls.mod, sl.expr)
            path = rc.mod.path if rc is not None else sl.cls.mod.path
            chk.consulted(path)
            failed = {a for a, _p, _c in fails}
            for acc, plain in twins:
                if acc in failed or acc not in armed:
                    continue        # both twins invisible: a latent table entry, nothing to compare
                chk.ok('C04.visible.twin', path, '%s[%r]' % (sl.origin, acc), '%s: %r and %r (%r) both accepted by %s'
                       % (code, acc, plain, sl.value[acc], nr.extractor_cls.name))
            for acc, plain, phrase in fails:
                hit = mem.accepts(phrase.replace(acc, plain))
                p_, l_ = _pattern_site(ev, hit) if hit is not None else (path, sl.line)
                chk.bad('C04.visible.twin', path, '%s[%r]' % (sl.origin, acc),
                        '%s: %r not accepted, %r accepted by %s' % (code, phrase, phrase.replace(acc, plain), nr.extractor_cls.name),
                        '%s: %s values %r and its stripped twin %r alike (%r); the patterns of %s accept %r (%s, %s:%d) but none accepts '
                        'the standard accented spelling %r: the extractor cannot see it' % (
                            code, sl.origin, acc, plain, sl.value[acc], nr.extractor_cls.name, phrase.replace(acc, plain),
                            hit.name if hit is not None else '?', p_, l_, phrase), l_ if hit is not None else sl.line)
    t = Member([])
    t.trees = [('control', rx.parse('veinti(d[oó]s|un[oa]?)'))]
    chk.control('C04.visible.twin', twin_failures(t, [('veintiún', 'veintiun'), ('veintidós', 'veintidos')], [])[0]
                == [('veintiún', 'veintiun', 'veintiún')])


_run_before_twins = run


def run(chk):       # noqa: F811
    _run_before_twins(chk)
    rule_twins(chk)
