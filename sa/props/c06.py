"""C06 - absolute calendar dates are recognised exactly, whatever the reference date.

Decided (necessary conditions, all read from the ASTs / evaluated resource constants):
  C06.wiring      the month/day/weekday tables and the date regex list of every culture's date parser
                  configuration resolve (through the __init__ wiring) to evaluated resource constants
  C06.month       reference month lexicon (full names + common abbreviations) -> 1..12 in the wired month table
  C06.weekday     reference weekday lexicon -> the value convention DateUtils.this expects (Mon..Sat = 1..6,
                  Sunday = 0 or 7), seven distinct values
  C06.numeric     numeric month keys "1".."12"/"01".."09" and day keys "1".."31"/"01".."09" map to themselves;
                  no month value outside 1..12 (mod 12 for the Chinese parser) / no day outside 1..31 (mod 31)
  C06.capturable  every spelling a `month` group of a wired date regex can capture is a key of the month table
                  (armed only for exact groups, observation otherwise) - and every 'day' spelling likewise
  C06.taint       `reference` influences generate_dates / match_to_date only under the no-year condition
  C06.assembly    (year, month, day) reach datetime(...) and the TIMEX in that order, from the right tables

This module also hosts the wiring resolver shared with C08 / C10 (`Wiring`).
"""
import ast

from .. import rx
from ..consteval import Resources
from ..core import AnalysisError
from ..index import get_index

LEVEL = 'other'
DESIGN_REF = 'DESIGN.md#c06'

DT = 'recognizers_date_time.date_time.'
CULTURES = ('english', 'spanish', 'french', 'portuguese', 'german', 'italian', 'dutch', 'chinese')


# =====================================================================================================
# wiring resolver (shared): what does `config.<prop>` evaluate to for a culture's configuration class?
# =====================================================================================================

class Val:
    """an evaluated wiring value + where it came from"""
    __slots__ = ('value', 'res_cls', 'name', 'path', 'line')

    def __init__(self, value, res_cls=None, name=None, path=None, line=None):
        self.value = value
        self.res_cls = res_cls      # resource class name ('FrenchDateTime') or None for synthesised values
        self.name = name            # resource attribute ('MonthOfYear'); 'A+B' for merged dicts
        self.path = path
        self.line = line

    @property
    def label(self):
        return '%s.%s' % (self.res_cls, self.name) if self.res_cls else (self.name or '<expr>')

    def __repr__(self):
        return '<Val %s>' % self.label


class Wiring:
    def __init__(self, idx=None, res=None):
        self.idx = idx or get_index()
        self.R = res or Resources(self.idx)
        self._res_lines = {}

    # ---- classes per culture
    @staticmethod
    def culture_of(cls):
        n = cls.mod.name
        if n.startswith(DT):
            head = n[len(DT):].split('.')[0]
            if head in CULTURES:
                return head
        return None

    def culture_classes(self, base_qual):
        """{culture: Cls} - the unique subclass of `base_qual` defined in each culture package"""
        base = self.idx.cls(base_qual)
        out = {}
        for k in self.idx.subclasses(base):
            c = self.culture_of(k)
            if c is None:
                continue
            if c in out:
                raise AnalysisError('two subclasses of %s in culture %s: %s, %s' % (base.name, c, out[c].name, k.name))
            out[c] = k
        return out

    # ---- property -> slot -> expression
    def prop_return(self, cls, prop):
        """(defining Cls, returned expression) of property `prop` (first non-abstract def in the MRO)"""
        for k in self.idx.mro(cls):
            fn = k.methods.get(prop)
            if fn is None:
                continue
            rets = [n for n in ast.walk(fn) if isinstance(n, ast.Return) and n.value is not None]
            body = [st for st in fn.body if not (isinstance(st, ast.Expr) and isinstance(st.value, ast.Constant))]
            if len(rets) == 1 and len(body) == 1 and body[0] is rets[0]:
                return k, rets[0].value
            if any(isinstance(n, ast.Raise) for n in ast.walk(fn)):
                continue        # abstract declaration
            raise AnalysisError('%s.%s: property shape not recognised (expected a single return)' % (k.name, prop))
        return None, None

    def slot_assign(self, cls, slot):
        """(owner Cls, __init__ FunctionDef, value expr) of the effective `self.<slot> = expr`; class attrs too"""
        for k in self.idx.mro(cls):
            init = k.methods.get('__init__')
            if init is not None:
                found = None
                for n in ast.walk(init):
                    tgt = None
                    if isinstance(n, ast.Assign) and len(n.targets) == 1:
                        tgt = n.targets[0]
                    elif isinstance(n, ast.AnnAssign) and n.value is not None:
                        tgt = n.target
                    if isinstance(tgt, ast.Attribute) and isinstance(tgt.value, ast.Name) and tgt.value.id == 'self' \
                            and tgt.attr == slot:
                        found = n.value      # last assignment in source order wins
                if found is not None:
                    extra = []
                    for n in ast.walk(init):
                        if isinstance(n, ast.Call) and isinstance(n.func, ast.Attribute) and n.func.attr in ('extend', 'append') \
                                and isinstance(n.func.value, ast.Attribute) and isinstance(n.func.value.value, ast.Name) \
                                and n.func.value.value.id == 'self' and n.func.value.attr == slot and len(n.args) == 1:
                            extra.append(n.args[0])
                    if extra:
                        found = ast.List(elts=[found] + extra, ctx=ast.Load(), lineno=found.lineno, col_offset=0)
                    return k, init, found
            if slot in k.attrs:
                return k, None, k.attrs[slot]
        return None, None, None

    def resolve(self, cls, name, what=None, _depth=0):
        """values reachable at `config.<name>` (property) or `config.<_slot>`: list of Val (alternatives / list items
        flattened).  AnalysisError when the wiring cannot be followed."""
        if _depth > 6:
            raise AnalysisError('wiring of %s.%s: too deep' % (cls.name, name))
        slot = name
        if not name.startswith('_'):
            k, rexpr = self.prop_return(cls, name)
            if rexpr is None:
                # plain public instance attribute (`self.next_prefix_regex = ...`) or class attribute
                owner, init, expr = self.slot_assign(cls, name)
                if expr is None:
                    raise AnalysisError('wiring: %s has no property or attribute %s' % (cls.name, name))
                return self.eval(expr, owner, init, _depth)
            if isinstance(rexpr, ast.Attribute) and isinstance(rexpr.value, ast.Name) and rexpr.value.id == 'self':
                slot = rexpr.attr
            else:
                return self.eval(rexpr, k, None, _depth)
        owner, init, expr = self.slot_assign(cls, slot)
        if expr is None:
            raise AnalysisError('wiring: no assignment to self.%s found for %s' % (slot, cls.name))
        return self.eval(expr, owner, init, _depth)

    def _param_class(self, owner, init, pname):
        """candidate classes of the object passed for __init__ parameter `pname` of `owner` in owner's culture"""
        cul = self.culture_of(owner)
        ann = None
        for a in init.args.args:
            if a.arg == pname:
                ann = a.annotation
        cands = []
        if ann is not None:
            t = self.idx.resolve_class(owner.mod, ann)
            if t is not None:
                if self.culture_of(t) == cul:
                    cands = [t]
                else:
                    cands = [k for k in self.idx.subclasses(t) if self.culture_of(k) == cul]
        if not cands:
            # constructor call sites `Owner(self)` / `Owner(config)` inside the culture package
            for m in self.idx.mods.values():
                if not m.name.startswith(DT + (cul or '') + '.'):
                    continue
                for c in m.classes.values():
                    for n in ast.walk(c.node):
                        if isinstance(n, ast.Call) and isinstance(n.func, ast.Name) and n.func.id == owner.name \
                                and self.idx.resolve_class(m, n.func) is owner:
                            pos = [a.arg for a in init.args.args][1:].index(pname)
                            if pos < len(n.args) and isinstance(n.args[pos], ast.Name) and n.args[pos].id == 'self':
                                cands.append(c)
        cands = list(dict.fromkeys(cands))
        if not cands:
            raise AnalysisError('wiring: cannot tell which class is passed as `%s` to %s.__init__' % (pname, owner.name))
        return cands

    def _res_line(self, rcls, name):
        key = rcls.qual
        if key not in self._res_lines:
            d = {}
            for st in rcls.node.body:
                if isinstance(st, ast.Assign) and isinstance(st.targets[0], ast.Name):
                    d[st.targets[0].id] = st.lineno
                elif isinstance(st, ast.FunctionDef):
                    d[st.name] = st.lineno
            self._res_lines[key] = d
        return self._res_lines[key].get(name)

    def eval(self, expr, owner, init, _depth=0, env=None):
        idx = self.idx
        mod = owner.mod
        # X.Name : resource constant / config.prop / Class(...)._slot
        if isinstance(expr, ast.Attribute):
            base = expr.value
            if isinstance(base, ast.Name):
                params = [a.arg for a in init.args.args] if init is not None else []
                if base.id in params and base.id != 'self':
                    out, seen = [], set()
                    for pc in self._param_class(owner, init, base.id):
                        for v in self.resolve(pc, expr.attr, _depth=_depth + 1):
                            if (v.label, repr(v.value)[:2000]) not in seen:
                                seen.add((v.label, repr(v.value)[:2000]))
                                out.append(v)
                    return out
                if base.id == 'self':
                    return self.resolve(owner, expr.attr, _depth=_depth + 1)
                rc = idx.resolve_class(mod, base)
                if rc is not None and '.resources.' in rc.mod.name:
                    vals = self.R.values(rc)
                    if expr.attr not in vals:
                        raise AnalysisError('wiring: %s has no %s (%s:%d)' % (rc.name, expr.attr, mod.rel, expr.lineno))
                    return [Val(vals[expr.attr], rc.name, expr.attr, rc.mod.path, self._res_line(rc, expr.attr))]
                if rc is not None:
                    return self.resolve(rc, expr.attr, _depth=_depth + 1)
            if isinstance(base, ast.Call):
                rc = idx.resolve_class(mod, base.func) if isinstance(base.func, (ast.Name, ast.Attribute)) else None
                if rc is not None:
                    return self.resolve(rc, expr.attr, _depth=_depth + 1)
            raise AnalysisError('wiring: cannot follow %s (%s:%d)' % (ast.unparse(expr)[:60], mod.rel, expr.lineno))
        if isinstance(expr, ast.Call):
            f = expr.func
            fname = f.attr if isinstance(f, ast.Attribute) else (f.id if isinstance(f, ast.Name) else None)
            if fname in ('get_safe_reg_exp', 'compile') and expr.args:
                return self.eval(expr.args[0], owner, init, _depth, env)
            raise AnalysisError('wiring: call %s not understood (%s:%d)' % (ast.unparse(expr)[:60], mod.rel, expr.lineno))
        if isinstance(expr, ast.Dict):
            merged, labels, parts = {}, [], []
            for k, v in zip(expr.keys, expr.values):
                if k is not None:
                    raise AnalysisError('wiring: dict literal with explicit keys (%s:%d)' % (mod.rel, expr.lineno))
                vs = self.eval(v, owner, init, _depth, env)
                if len(vs) != 1 or not isinstance(vs[0].value, dict):
                    raise AnalysisError('wiring: **%s is not a single table (%s:%d)' % (ast.unparse(v), mod.rel, expr.lineno))
                merged.update(vs[0].value)
                labels.append(vs[0].label)
                parts.append(vs[0])
            if not parts:
                raise AnalysisError('wiring: empty dict literal (%s:%d)' % (mod.rel, expr.lineno))
            return [MergedVal(merged, labels, parts)]
        if isinstance(expr, (ast.List, ast.Tuple)):
            out = []
            for e in expr.elts:
                out.extend(self.eval(e.value if isinstance(e, ast.Starred) else e, owner, init, _depth, env))
            return out
        if isinstance(expr, ast.BinOp) and isinstance(expr.op, ast.Add):
            # concatenation of two pattern lists
            return self.eval(expr.left, owner, init, _depth, env) + self.eval(expr.right, owner, init, _depth, env)
        if isinstance(expr, ast.ListComp) and len(expr.generators) == 1 and not expr.generators[0].ifs \
                and isinstance(expr.generators[0].target, ast.Name):
            g = expr.generators[0]
            items = self.eval(g.iter, owner, init, _depth, env)
            env2 = dict(env or {})
            env2[g.target.id] = items
            return self.eval(expr.elt, owner, init, _depth, env2)
        if isinstance(expr, ast.Name):
            if env and expr.id in env:
                return env[expr.id]
            if init is not None:
                # flow-insensitive union of everything assigned to the local.  A local defined through itself
                # (`a, b = b, a`, `x = x + [..]`) contributes nothing new on re-entry: least fixpoint of the union.
                busy = self.__dict__.setdefault('_busy', set())
                key = (id(init), expr.id)
                if key in busy:
                    return []
                busy.add(key)
                try:
                    out = self._local_values(expr, owner, init, _depth, env)
                finally:
                    busy.discard(key)
                if out:
                    return out
        if isinstance(expr, ast.Constant):
            return [Val(expr.value, None, repr(expr.value), mod.path, expr.lineno)]
        raise AnalysisError('wiring: expression %s not understood (%s:%d)'
                            % (ast.unparse(expr)[:60], mod.rel, getattr(expr, 'lineno', 0)))

    def _local_values(self, expr, owner, init, _depth, env):
        """every value some statement of `init` gives to the local `expr.id` (union over all assignments)"""
        mod = owner.mod
        out = []
        for n in ast.walk(init):
            if isinstance(n, ast.Assign) and any(isinstance(t, ast.Name) and t.id == expr.id for t in n.targets):
                out.extend(self.eval(n.value, owner, init, _depth, env))
            elif isinstance(n, ast.Assign) and len(n.targets) == 1 and isinstance(n.targets[0], (ast.Tuple, ast.List)):
                # (a, b, c) = (x, y, z)   or   (a, b, c) = (x, y, z) if cond else (u, v, w)   : both arms
                names = [t.id if isinstance(t, ast.Name) else None for t in n.targets[0].elts]
                if expr.id in names:
                    i = names.index(expr.id)
                    arms = [n.value.body, n.value.orelse] if isinstance(n.value, ast.IfExp) else [n.value]
                    for arm in arms:
                        if isinstance(arm, (ast.Tuple, ast.List)) and len(arm.elts) == len(names):
                            out.extend(self.eval(arm.elts[i], owner, init, _depth, env))
                        else:
                            raise AnalysisError('wiring: unpacking of %s not understood (%s:%d)' % (ast.unparse(arm)[:40], mod.rel, n.lineno))
            elif isinstance(n, ast.Call) and isinstance(n.func, ast.Attribute) and n.func.attr in ('extend', 'append') \
                    and isinstance(n.func.value, ast.Name) and n.func.value.id == expr.id and len(n.args) == 1:
                out.extend(self.eval(n.args[0], owner, init, _depth, env))
        return out

    def table(self, cls, prop):
        """the single dict wired at config.<prop>"""
        vs = self.resolve(cls, prop)
        if len(vs) != 1 or not isinstance(vs[0].value, dict):
            raise AnalysisError('wiring: %s.%s is not a single table (%s)' % (cls.name, prop, vs))
        return vs[0]

    def patterns(self, cls, prop):
        """the regex strings wired at config.<prop> (single regex or list), as Vals"""
        vs = self.resolve(cls, prop)
        out = []
        for v in vs:
            if v.value is None:
                continue
            if not isinstance(v.value, str):
                raise AnalysisError('wiring: %s.%s contains a non-pattern value %s' % (cls.name, prop, v))
            out.append(v)
        # de-duplicate by (label, text)
        seen, uniq = set(), []
        for v in out:
            k = (v.label, v.value)
            if k not in seen:
                seen.add(k)
                uniq.append(v)
        return uniq


class MergedVal(Val):
    """{**A, **B}: merged dict; .origin(key) tells which part supplies the key"""
    __slots__ = ('parts',)

    def __init__(self, merged, labels, parts):
        Val.__init__(self, merged, None, '{**%s}' % ', **'.join(labels), parts[-1].path, parts[-1].line)
        self.parts = parts

    def origin(self, key):
        for p in reversed(self.parts):
            if key in p.value:
                return p
        return self


def origin(val, key):
    return val.origin(key) if isinstance(val, MergedVal) else val


def class_consts(idx, qual):
    """plain constants of a hand-written constants class (str/int only; everything else skipped)"""
    c = idx.cls(qual)
    out = {}
    for k, v in c.attrs.items():
        if isinstance(v, ast.Constant) and isinstance(v.value, (str, int, float, bool)):
            out[k] = v.value
        elif isinstance(v, ast.UnaryOp) and isinstance(v.op, ast.USub) and isinstance(v.operand, ast.Constant) \
                and isinstance(v.operand.value, (int, float)) and not isinstance(v.operand.value, bool):
            out[k] = -v.operand.value
    return out


# =====================================================================================================
# regex-dialect tree -> Python `re` (only to *witness* captures; refusal -> RxUnsupported, never a guess)
# =====================================================================================================

import re as _re


def to_pyre(node):
    """(python-re source, {base group name: [renamed copies in pattern order]})"""
    names = {}

    def cls_item(it):
        if it.kind == 'range':
            return '%s-%s' % (_re.escape(it.c[0]), _re.escape(it.c[1]))
        if it.kind == 'cc':
            return cc(it.c, True)
        return _re.escape(it.c)

    def cc(c, incls=False):
        if c in 'dDwWsS':
            return '\\' + c
        if c in ('p{L}', 'p{l}'):
            if incls:
                raise rx.RxUnsupported('\\p{L} inside a class')
            return r'[^\W\d_]'
        raise rx.RxUnsupported('character class \\%s' % c)

    def go(n):
        k = n.kind
        if k == 'lit':
            return _re.escape(n.c)
        if k == 'seq':
            return ''.join(go(x) for x in n.items)
        if k == 'alt':
            return '|'.join(go(x) for x in n.items)
        if k == 'group':
            inner = go(n.node)
            if n.name:
                copies = names.setdefault(n.name, [])
                nm = '%s__%d' % (n.name, len(copies))
                copies.append(nm)
                return '(?P<%s>%s)' % (nm, inner)
            return ('(%s)' if n.c else '(?:%s)') % inner
        if k == 'look':
            if n.dir in ('ahead', 'nahead'):
                return '(?%s%s)' % ('=' if n.dir == 'ahead' else '!', go(n.node))
            # python re wants fixed-width look-behind: split the body into fixed-width variants (unbounded repeats
            # capped at lo..lo+2).  positive: subset of the contexts, negative: superset -> the witness contexts used
            # by the callers never contain repeated blanks, so the cap is not reached there.
            vs = fixed_variants(n.node)
            if n.dir == 'behind':
                return '(?:%s)' % '|'.join('(?<=%s)' % v for v in vs)
            return ''.join('(?<!%s)' % v for v in vs)
        if k == 'rep':
            q = '*' if (n.lo, n.hi) == (0, None) else '+' if (n.lo, n.hi) == (1, None) else '?' if (n.lo, n.hi) == (0, 1) \
                else '{%d}' % n.lo if n.lo == n.hi else '{%d,%s}' % (n.lo, '' if n.hi is None else n.hi)
            inner = go(n.node)
            if n.node.kind in ('seq', 'alt', 'rep', 'anchor', 'look'):
                inner = '(?:%s)' % inner
            return inner + q + ('?' if n.lazy else '')
        if k == 'cc':
            return cc(n.c)
        if k == 'any':
            return '.'
        if k == 'anchor':
            if n.c in ('^', '$', '\\b', '\\B', '\\A', '\\Z'):
                return n.c
            if n.c == '\\z':
                return '\\Z'
            raise rx.RxUnsupported('anchor ' + n.c)
        if k == 'flags':
            if set(n.c) - set('is'):
                raise rx.RxUnsupported('inline flags ' + n.c)
            return ''
        if k == 'class':
            return '[%s%s]' % ('^' if n.neg else '', ''.join(cls_item(it) for it in n.items))
        raise rx.RxUnsupported('construct ' + k)

    return go(node), names


def fixed_variants(n, cap=4000):
    """fixed-width python-re sources whose union is (a bounded part of) the language of n; no groups, no look-arounds"""
    def cls_src(x):
        src, _ = to_pyre(x)
        return src

    def go(x):
        k = x.kind
        if k in ('lit', 'cc', 'class', 'any'):
            return [cls_src(x)]
        if k == 'anchor':
            if x.c in ('^', '$', '\\b', '\\B'):
                return [x.c]
            raise rx.RxUnsupported('anchor %s in look-behind' % x.c)
        if k == 'group':
            return go(x.node)
        if k == 'seq':
            out = ['']
            for it in x.items:
                vs = go(it)
                if len(out) * len(vs) > cap:
                    raise rx.RxUnsupported('look-behind with too many fixed-width variants')
                out = [a + b for a in out for b in vs]
            return out
        if k == 'alt':
            out = []
            for it in x.items:
                out.extend(go(it))
            if len(out) > cap:
                raise rx.RxUnsupported('look-behind with too many fixed-width variants')
            return out
        if k == 'rep':
            vs = go(x.node)
            hi = x.hi if x.hi is not None else x.lo + 2
            out, cur = [], ['']
            for cnt in range(0, hi + 1):
                if cnt >= x.lo:
                    out.extend(cur)
                if cnt == hi:
                    break
                if len(cur) * len(vs) > cap:
                    raise rx.RxUnsupported('look-behind with too many fixed-width variants')
                cur = [a + b for a in cur for b in vs]
            if len(out) > cap:
                raise rx.RxUnsupported('look-behind with too many fixed-width variants')
            return out
        if k == 'flags':
            return ['']
        raise rx.RxUnsupported('%s inside a look-behind' % k)
    return list(dict.fromkeys(go(n)))


class PyPattern:
    """a resource pattern compiled for Python re (IGNORECASE|DOTALL as RegExpUtility.get_safe_reg_exp does)"""

    def __init__(self, source):
        tree = rx.parse(source)
        src, self.names = to_pyre(tree)
        try:
            self.re = _re.compile(src, _re.I | _re.S)
        except (_re.error, RecursionError, OverflowError) as e:
            raise rx.RxUnsupported('python re refuses the translation: %s' % e)

    def group(self, m, base):
        """value RegExpUtility.get_group(match, base) would give, or None when copies disagree"""
        vals = {m.group(nm) for nm in self.names.get(base, []) if m.group(nm)}
        if len(vals) > 1:
            return None
        return next(iter(vals)) if vals else ''


# =====================================================================================================
# reference lexicons (written independently of the repository; every entry verified present on the
# pinned tree - absent real-world spellings are *not* listed here, C06.capturable reports the gaps)
# =====================================================================================================

def _months(full, *abbr):
    d = {}
    for i, w in enumerate(full.split(), 1):
        d[w] = i
    for a in abbr:
        for item in a.split():
            w, n = item.split(':')
            d[w] = int(n)
    return d


MONTHS = {
    'english': _months('january february march april may june july august september october november december',
                       'jan:1 feb:2 mar:3 apr:4 jun:6 jul:7 aug:8 sep:9 sept:9 oct:10 nov:11 dec:12'),
    'spanish': _months('enero febrero marzo abril mayo junio julio agosto septiembre octubre noviembre diciembre',
                       'ene:1 feb:2 mar:3 abr:4 may:5 jun:6 jul:7 ago:8 sep:9 sept:9 oct:10 nov:11 dic:12 setiembre:9'),
    'french': _months('janvier février mars avril mai juin juillet août septembre octobre novembre décembre',
                      'janv:1 janv.:1 févr:2 févr.:2 avr:4 avr.:4 juil:7 sept:9 sept.:9 oct:10 oct.:10 nov:11 nov.:11 déc:12 déc.:12 '
                      'fevrier:2 aout:8 decembre:12'),
    'portuguese': _months('janeiro fevereiro março abril maio junho julho agosto setembro outubro novembro dezembro',
                          'jan:1 fev:2 mar:3 abr:4 mai:5 jun:6 jul:7 ago:8 set:9 out:10 nov:11 dez:12 marco:3'),
    'german': _months('januar februar märz april mai juni juli august september oktober november dezember',
                      'jan:1 feb:2 apr:4 jun:6 jul:7 aug:8 sep:9 sept:9 okt:10 nov:11 dez:12 jänner:1 jän:1 feber:2'),
    'italian': _months('gennaio febbraio marzo aprile maggio giugno luglio agosto settembre ottobre novembre dicembre',
                       'gen:1 feb:2 mar:3 apr:4 mag:5 giu:6 lug:7 ago:8 set:9 sett:9 ott:10 nov:11 dic:12'),
    'dutch': _months('januari februari maart april mei juni juli augustus september oktober november december',
                     'jan:1 feb:2 mrt:3 apr:4 jun:6 jul:7 aug:8 sep:9 sept:9 okt:10 nov:11 dec:12'),
    'chinese': _months('一月 二月 三月 四月 五月 六月 七月 八月 九月 十月 十一月 十二月',
                       '1月:1 2月:2 3月:3 4月:4 5月:5 6月:6 7月:7 8月:8 9月:9 10月:10 11月:11 12月:12'),
}
# full names (first twelve entries of each lexicon) - used to decide whether an unmapped spelling abbreviates a month
FULL_MONTHS = {c: {w: n for w, n in list(d.items())[:12]} for c, d in MONTHS.items()}
FULL_MONTHS['german'].update({'jänner': 1, 'feber': 2})
FULL_MONTHS['french'].update({'fevrier': 2, 'aout': 8, 'decembre': 12})
FULL_MONTHS['spanish'].update({'setiembre': 9})
FULL_MONTHS['portuguese'].update({'marco': 3})


def _days(words, *extra):
    """words: monday..sunday in ISO order"""
    d = {}
    for i, w in enumerate(words.split(), 1):
        d[w] = i
    for a in extra:
        for item in a.split():
            w, n = item.split(':')
            d[w] = int(n)
    return d


WEEKDAYS = {   # ISO: monday = 1 .. sunday = 7
    'english': _days('monday tuesday wednesday thursday friday saturday sunday',
                     'mon:1 tue:2 tues:2 wed:3 thu:4 thur:4 thurs:4 fri:5 sat:6 sun:7'),
    'spanish': _days('lunes martes miércoles jueves viernes sábado domingo', 'miercoles:3 sabado:6'),
    'french': _days('lundi mardi mercredi jeudi vendredi samedi dimanche', 'lun:1 mar:2 mer:3 jeu:4 ven:5 sam:6 dim:7'),
    'portuguese': _days('segunda-feira terça-feira quarta-feira quinta-feira sexta-feira sábado domingo',
                        'segunda:1 terça:2 quarta:3 quinta:4 sexta:5 sabado:6'),
    'german': _days('montag dienstag mittwoch donnerstag freitag samstag sonntag', 'sonnabend:6'),
    'italian': _days('lunedì martedì mercoledì giovedì venerdì sabato domenica'),
    'dutch': _days('maandag dinsdag woensdag donderdag vrijdag zaterdag zondag'),
    'chinese': _days('星期一 星期二 星期三 星期四 星期五 星期六 星期日',
                     '星期天:7 周一:1 周二:2 周三:3 周四:4 周五:5 周六:6 周日:7 礼拜一:1 礼拜二:2 礼拜三:3 礼拜四:4 礼拜五:5 礼拜六:6 礼拜天:7'),
}

# contexts used to witness what a `month` group captures ({w} = the spelling)
MONTH_CONTEXTS = ['15 {w} 2016', '{w} 15 2016', '{w} 15, 2016', '15. {w} 2016', '15 de {w} de 2016', '2016 {w} 15',
                  '15 {w}, 2016', '2016年{w}15日', '15/{w}/2016', '{w}/15/2016', '15.{w}.2016', '2016-{w}-15', '15-{w}-2016']


# =====================================================================================================
# detectors (pure functions: usable on the repository and on the embedded positive controls)
# =====================================================================================================

def lexicon_problems(table, lexicon, norm=lambda v: v):
    """[(word, expected, got)] for lexicon words whose table value (normalised) differs / is absent"""
    out = []
    for w, n in lexicon.items():
        got = table.get(w)
        if got is None or norm(got) != n:
            out.append((w, n, got))
    return out


def numeric_problems(table, keys, norm=lambda v: v):
    out = []
    for k in keys:
        got = table.get(k)
        if got is None or norm(got) != int(k):
            out.append((k, int(k), got))
    return out


class Taint:
    """occurrences of `src` (a parameter) and whether each is control-dependent on the no-year condition"""

    def __init__(self, fn, src, flag_names=(), year_names=(), aliases=None):
        self.fn = fn
        self.src = src
        self.flags = set(flag_names)
        self.years = set(year_names)
        self.aliases = dict(aliases or {})     # local bound once to a comparison: name -> polarity of that comparison
        self.occ = []        # (Name node, guarded, parent call or None, arg index / keyword)
        self.assigns = {}    # local name -> [(value node, guarded, lineno)]
        self.first_test_line = None
        self._stmts(fn.body, False)

    def polarity(self, t):
        if isinstance(t, ast.Name):
            if t.id in self.aliases:
                return self.aliases[t.id]
            if t.id in self.flags:
                return 1
            if t.id in self.years:
                return -1
            return 0
        if isinstance(t, ast.UnaryOp) and isinstance(t.op, ast.Not):
            return -self.polarity(t.operand)
        if isinstance(t, ast.Compare) and len(t.ops) == 1:
            a, b = t.left, t.comparators[0]
            if isinstance(b, ast.Name) and isinstance(a, ast.Constant):
                a, b = b, a
            if isinstance(a, ast.Name) and a.id in self.years and isinstance(b, ast.Constant) and b.value == 0 \
                    and not isinstance(b.value, bool):
                if isinstance(t.ops[0], ast.Eq):
                    return 1
                if isinstance(t.ops[0], ast.NotEq):
                    return -1
            if isinstance(a, ast.Name) and a.id in self.flags and isinstance(b, ast.Constant) and isinstance(b.value, bool) \
                    and isinstance(t.ops[0], (ast.Eq, ast.Is)):
                return 1 if b.value else -1
            return 0
        if isinstance(t, ast.BoolOp):
            ps = [self.polarity(v) for v in t.values]
            if isinstance(t.op, ast.And) and 1 in ps:
                return 1
            if isinstance(t.op, ast.Or) and -1 in ps:
                return -1
        return 0

    def _note_test(self, t):
        if self.polarity(t) != 0 and self.first_test_line is None:
            self.first_test_line = t.lineno

    def _expr(self, e, g, call=None, pos=None):
        if e is None:
            return
        if isinstance(e, ast.Name):
            if e.id == self.src and isinstance(e.ctx, ast.Load):
                self.occ.append((e, g, call, pos))
            return
        if isinstance(e, ast.IfExp):
            self._note_test(e.test)
            p = self.polarity(e.test)
            self._expr(e.test, g)
            self._expr(e.body, g or p == 1)
            self._expr(e.orelse, g or p == -1)
            return
        if isinstance(e, ast.Call):
            self._expr(e.func, g)
            for i, a in enumerate(e.args):
                self._expr(a, g, e, i)
            for kw in e.keywords:
                self._expr(kw.value, g, e, kw.arg)
            return
        for ch in ast.iter_child_nodes(e):
            if isinstance(ch, ast.expr):
                self._expr(ch, g)
            elif isinstance(ch, (ast.comprehension,)):
                self._expr(ch.iter, g)
                for c in ch.ifs:
                    self._expr(c, g)
            elif isinstance(ch, ast.keyword):
                self._expr(ch.value, g)

    def _stmts(self, stmts, g):
        for st in stmts:
            if isinstance(st, (ast.If, ast.While)):
                self._note_test(st.test)
                p = self.polarity(st.test)
                self._expr(st.test, g)
                self._stmts(st.body, g or p == 1)
                self._stmts(st.orelse, g or p == -1)
                # guard clause: when the explicit-year side of the test always leaves the function, everything that
                # follows is reached only without a year (dominance by early return = an enclosing else)
                if isinstance(st, ast.If):
                    if (p == -1 and _terminates(st.body)) or (p == 1 and st.orelse and _terminates(st.orelse)):
                        g = True
            elif isinstance(st, (ast.For, ast.AsyncFor)):
                self._expr(st.iter, g)
                self._stmts(st.body, g)
                self._stmts(st.orelse, g)
            elif isinstance(st, (ast.With, ast.AsyncWith)):
                for it in st.items:
                    self._expr(it.context_expr, g)
                self._stmts(st.body, g)
            elif isinstance(st, ast.Try):
                self._stmts(st.body, g)
                for h in st.handlers:
                    self._stmts(h.body, g)
                self._stmts(st.orelse, g)
                self._stmts(st.finalbody, g)
            elif isinstance(st, (ast.FunctionDef, ast.AsyncFunctionDef, ast.ClassDef)):
                self._stmts(st.body, g)
            else:
                if isinstance(st, ast.Assign):
                    for t in st.targets:
                        for nm in ([t] if isinstance(t, ast.Name) else (t.elts if isinstance(t, (ast.Tuple, ast.List)) else [])):
                            if isinstance(nm, ast.Name):
                                self.assigns.setdefault(nm.id, []).append((st.value, g, st.lineno))
                elif isinstance(st, ast.AugAssign) and isinstance(st.target, ast.Name):
                    self.assigns.setdefault(st.target.id, []).append((st, g, st.lineno))
                elif isinstance(st, ast.AnnAssign) and isinstance(st.target, ast.Name) and st.value is not None:
                    self.assigns.setdefault(st.target.id, []).append((st.value, g, st.lineno))
                for ch in ast.iter_child_nodes(st):
                    if isinstance(ch, ast.expr):
                        self._expr(ch, g)


def _terminates(stmts):
    """every path through the statement list leaves the function (return / raise)"""
    if not stmts:
        return False
    last = stmts[-1]
    if isinstance(last, (ast.Return, ast.Raise)):
        return True
    if isinstance(last, ast.If):
        return bool(last.orelse) and _terminates(last.body) and _terminates(last.orelse)
    return False


def _callee_name(call):
    f = call.func
    return f.attr if isinstance(f, ast.Attribute) else (f.id if isinstance(f, ast.Name) else None)


def _param_names(fn):
    ps = [a.arg for a in fn.args.args]
    return ps[1:] if ps and ps[0] in ('self', 'cls') else ps


def _bind(call, params):
    """{param name: arg node} of a call against a parameter list (positional + keywords)"""
    out = {}
    for i, a in enumerate(call.args):
        if i < len(params):
            out[params[i]] = a
    for kw in call.keywords:
        if kw.arg:
            out[kw.arg] = kw.value
    return out


def taint_generate_dates(fn):
    """problems in generate_dates: [(lineno, text)], and the list of checked occurrences"""
    params = _param_names(fn)
    if 'reference' not in params:
        raise AnalysisError('generate_dates has no `reference` parameter (%s)' % params)
    flag = 'no_year' if 'no_year' in params else None
    if flag is None:
        bools = [a.arg for a in fn.args.args if isinstance(a.annotation, ast.Name) and a.annotation.id == 'bool']
        if len(bools) != 1:
            raise AnalysisError('generate_dates: cannot identify the no-year flag parameter')
        flag = bools[0]
    t = Taint(fn, 'reference', flag_names=[flag])
    probs, seen = [], []
    for n, g, call, pos in t.occ:
        seen.append((n.lineno, g))
        if not g:
            probs.append((n.lineno, '`reference` is read outside the `%s` branch' % flag))
    for nm in (flag,):
        if nm in t.assigns:
            probs.append((t.assigns[nm][0][2], 'the flag parameter `%s` is re-assigned' % nm))
    if 'reference' in t.assigns:
        probs.append((t.assigns['reference'][0][2], '`reference` is re-assigned'))
    return probs, seen, flag


def taint_match_to_date(fn, gd_params):
    """problems in a match_to_date implementation; gd_params = parameter names of DateUtils.generate_dates"""
    params = _param_names(fn)
    if 'reference' not in params:
        raise AnalysisError('%s has no `reference` parameter' % fn.name)
    calls = [n for n in ast.walk(fn) if isinstance(n, ast.Call) and _callee_name(n) == 'generate_dates']
    if len(calls) != 1:
        raise AnalysisError('%s: expected exactly one call of generate_dates, found %d' % (fn.name, len(calls)))
    b = _bind(calls[0], gd_params)
    need = ('no_year', 'reference', 'year', 'month', 'day')
    for p in need:
        if p not in b:
            raise AnalysisError('%s: generate_dates call does not bind `%s`' % (fn.name, p))
    probs = []
    yv = b['year']
    if not isinstance(yv, ast.Name):
        raise AnalysisError('%s: year argument of generate_dates is not a local name' % fn.name)
    fl = b['no_year']
    flag = fl.id if isinstance(fl, ast.Name) else None
    t = Taint(fn, 'reference', flag_names=[flag] if flag else [], year_names=[yv.id])
    ty = Taint(fn, 'reference', flag_names=[], year_names=[yv.id])     # guards from the year test alone
    # def-use: a flag bound exactly once to the year comparison (`no_year = year == 0`) IS that comparison wherever it is tested
    flag_line = None
    if flag is not None:
        binds = ty.assigns.get(flag, [])
        if len(binds) == 1 and isinstance(binds[0][0], ast.expr) and not isinstance(binds[0][0], ast.Constant):
            pol = ty.polarity(binds[0][0])
            if pol != 0:
                flag_line = binds[0][2]
                if pol == -1:
                    probs.append((flag_line, 'flag `%s` is bound to %s, which is true when a year WAS given' % (flag, ast.unparse(binds[0][0]))))
                ty = Taint(fn, 'reference', flag_names=[], year_names=[yv.id], aliases={flag: pol})
    if flag is None:
        if not (isinstance(fl, ast.Constant) and fl.value is False):
            probs.append((fl.lineno, 'no_year argument of generate_dates is %s, not a flag set under `%s == 0`'
                          % (ast.unparse(fl), yv.id)))
    else:
        for val, g, ln in ty.assigns.get(flag, []):
            if isinstance(val, ast.Constant) and val.value is False:
                continue
            if isinstance(val, ast.Constant) and val.value is True and g:
                continue
            if flag_line is not None and ln == flag_line:
                continue            # bound to the comparison itself (judged above)
            probs.append((ln, 'flag `%s` is set to %s %s the `%s == 0` branch'
                          % (flag, ast.unparse(val) if isinstance(val, ast.expr) else 'an update',
                             'inside' if g else 'outside', yv.id)))
        if not ty.assigns.get(flag):
            probs.append((fl.lineno, 'flag `%s` is never assigned in %s' % (flag, fn.name)))
    if ty.first_test_line is None:
        probs.append((fn.lineno, 'no `%s == 0` test found: reference year substitution is not conditional' % yv.id))
    seen = []
    for n, g, call, pos in ty.occ:
        seen.append((n.lineno, g))
        if g:
            continue
        if call is calls[0] and (pos == gd_params.index('reference') or pos == 'reference'):
            continue           # handed to generate_dates, which is checked separately
        probs.append((n.lineno, '`reference` is read outside the `%s == 0` branch' % yv.id))
    # the year test (or the binding of the flag to it) must come after the decoding of the year groups
    if ty.first_test_line is not None:
        cut = min(ty.first_test_line, flag_line) if flag_line is not None else ty.first_test_line
        for val, g, ln in ty.assigns.get(yv.id, []):
            if not g and ln > cut:
                probs.append((ln, '`%s` is assigned after the `%s == 0` test' % (yv.id, yv.id)))
    if 'reference' in ty.assigns:
        probs.append((ty.assigns['reference'][0][2], '`reference` is re-assigned'))
    return probs, seen, b


_TAINT_CONTROL = '''
def generate_dates(no_year, reference, year, month, day):
    future_date = make(reference.year, month, day)
    if no_year:
        if future_date < reference:
            future_date = make(year + 1, month, day)
    return future_date, future_date
'''
_TAINT_CONTROL2 = '''
def match_to_date(self, match, reference):
    year = 0
    month = 1
    day = 1
    if g(match):
        year = int(g(match))
    no_year = False
    if year == 0:
        year = reference.year
        no_year = True
    else:
        month = reference.month
    a, b = DateUtils.generate_dates(no_year, reference, year, month, day)
'''


def _is_name(n, name):
    return isinstance(n, ast.Name) and n.id == name


def _fstring_form(node, subst=None):
    """JoinedStr -> list of literal strings and (expr, spec) pairs; None if not a plain f-string"""
    if not isinstance(node, ast.JoinedStr):
        return None
    out = []
    for p in node.values:
        if isinstance(p, ast.Constant):
            out.append(p.value)
        else:
            spec = ''
            if p.format_spec is not None:
                if not all(isinstance(x, ast.Constant) for x in p.format_spec.values):
                    return None
                spec = ''.join(x.value for x in p.format_spec.values)
            e = ast.unparse(p.value)
            out.append((subst.get(e, e) if subst else e, spec))
    return out


def assembly_generate_dates(fn, flag):
    """[(lineno, construct, normal form, ok, msg)] for the date constructions in generate_dates"""
    params = _param_names(fn)
    for p in ('year', 'month', 'day'):
        if p not in params:
            raise AnalysisError('generate_dates has no `%s` parameter' % p)
    rets = [n for n in ast.walk(fn) if isinstance(n, ast.Return) and n.value is not None]
    names = set()
    for r in rets:
        elts = r.value.elts if isinstance(r.value, (ast.Tuple, ast.List)) else [r.value]
        for e in elts:
            if not isinstance(e, ast.Name):
                raise AnalysisError('generate_dates returns a non-name expression (%s)' % ast.unparse(e))
            names.add(e.id)
    if not names:
        raise AnalysisError('generate_dates returns nothing')
    t = Taint(fn, 'reference', flag_names=[flag])
    out = []
    for nm in sorted(names):
        if not t.assigns.get(nm):
            raise AnalysisError('generate_dates: returned name %s is never assigned' % nm)
        if not any(not g for _, g, _ in t.assigns[nm]):
            out.append((fn.lineno, nm, 'no unconditional construction', False,
                        '%s has no construction outside the `%s` branch' % (nm, flag)))
        for val, g, ln in t.assigns[nm]:
            nf = '%s := %s [%s]' % (nm, ast.unparse(val) if isinstance(val, ast.expr) else ast.unparse(val),
                                    'no-year branch' if g else 'always')
            if not (isinstance(val, ast.Call) and _callee_name(val) == 'safe_create_from_min_value'):
                out.append((ln, nm, nf, False, '%s is not built by safe_create_from_min_value (validity guard bypassed)' % nm))
                continue
            b = _bind(val, ['year', 'month', 'day', 'hour', 'minute', 'second'])
            ok = _is_name(b.get('month'), 'month') and _is_name(b.get('day'), 'day') and 'year' in b
            if ok and not g:
                ok = _is_name(b['year'], 'year')
            if ok and g:
                used = {x.id for x in ast.walk(b['year']) if isinstance(x, ast.Name)}
                ok = not (used & {'month', 'day', 'reference'}) and bool(used)
            ok = ok and not (set(b) & {'hour', 'minute', 'second'})
            out.append((ln, nm, nf, ok, 'date built from the wrong components: expected (year%s, month, day)'
                        % ('' if not g else '±k')))
    return out


def assembly_chain(dateutils):
    """safe_create_from_min_value -> safe_create_from_value -> datetime(...) keep (y, m, d, h, mi, s) in order"""
    out = []
    six = ['year', 'month', 'day', 'hour', 'minute', 'second']
    f1 = dateutils.methods.get('safe_create_from_min_value')
    f2 = dateutils.methods.get('safe_create_from_value')
    f3 = dateutils.methods.get('is_valid_date')
    if not (f1 and f2 and f3):
        raise AnalysisError('anchor vanished: DateUtils.safe_create_from_min_value / safe_create_from_value / is_valid_date')
    p1, p2, p3 = _param_names(f1), _param_names(f2), _param_names(f3)
    if p1[:3] != six[:3] or p3[:3] != six[:3] or [p for p in p2 if p in six][:3] != six[:3]:
        raise AnalysisError('DateUtils date constructors: parameter names changed (%s / %s / %s)' % (p1, p2, p3))
    # f1: return DateUtils.safe_create_from_value(<seed>, year, ...)
    calls = [n for n in ast.walk(f1) if isinstance(n, ast.Call) and _callee_name(n) == 'safe_create_from_value']
    ok = len(calls) == 1
    if ok:
        b = _bind(calls[0], p2)
        ok = all(_is_name(b.get(p), p) for p in p1 if p in six) and all(p in b for p in six[:3])
    out.append((f1.lineno, 'DateUtils.safe_create_from_min_value',
                ast.unparse(calls[0]) if calls else 'no call', ok,
                'does not forward (year, month, day, ...) unchanged to safe_create_from_value'))
    # f2: if is_valid_date(year, month, day) [and ...]: return datetime(year, month, day, hour, minute, second)
    dts = [n for n in ast.walk(f2) if isinstance(n, ast.Call) and _callee_name(n) == 'datetime']
    ok = len(dts) == 1
    guard_ok = False
    if ok:
        b = _bind(dts[0], six)
        ok = all(_is_name(b.get(p), p) for p in six[:3]) and all(_is_name(b[p], p) for p in six[3:] if p in b)
        for st in ast.walk(f2):
            if isinstance(st, ast.If) and any(x is dts[0] for x in ast.walk(st) if x is not st.test) \
                    and not any(x is dts[0] for s2 in st.orelse for x in ast.walk(s2)):
                for c in ast.walk(st.test):
                    if isinstance(c, ast.Call) and _callee_name(c) == 'is_valid_date':
                        bb = _bind(c, p3)
                        guard_ok = all(_is_name(bb.get(p), p) for p in six[:3])
    out.append((f2.lineno, 'DateUtils.safe_create_from_value', ast.unparse(dts[0]) if dts else 'no datetime()', ok,
                'datetime(...) does not receive (year, month, day, hour, minute, second) in that order'))
    out.append((f2.lineno, 'DateUtils.safe_create_from_value#guard', 'is_valid_date(year, month, day) guards datetime(...)',
                guard_ok, 'datetime(...) is not guarded by is_valid_date(year, month, day)'))
    dts = [n for n in ast.walk(f3) if isinstance(n, ast.Call) and _callee_name(n) == 'datetime']
    ok = len(dts) == 1 and all(_is_name(_bind(dts[0], six).get(p), p) for p in six[:3]) \
        and any(isinstance(n, ast.Try) for n in ast.walk(f3))
    out.append((f3.lineno, 'DateUtils.is_valid_date', ast.unparse(dts[0]) if dts else 'no datetime()', ok,
                'is_valid_date does not try datetime(year, month, day)'))
    return out


def assembly_formatters(fmt, idx=None, consts=None):
    """luis_date / format_date decided by interpretation: any formulation (negated tests, swapped arms, named constants)"""
    from .c08 import MiniEval, Undetermined
    out = []
    f = fmt.methods.get('luis_date')
    g = fmt.methods.get('format_date')
    if not (f and g):
        raise AnalysisError('anchor vanished: DateTimeFormatUtil.luis_date / format_date')
    idx = idx or get_index()
    consts = consts if consts is not None else class_consts(idx, DT + 'constants.Constants')

    def res(node):
        if isinstance(node, ast.Attribute) and isinstance(node.value, ast.Name) and node.value.id == 'Constants' and node.attr in consts:
            return consts[node.attr]
        raise Undetermined('attribute %s' % ast.unparse(node)[:40])
    table = {(2016, 2, 3): '2016-02-03', (-1, 2, 3): 'XXXX-02-03', (-1, -1, 3): 'XXXX-XX-03', (1999, 12, 31): '1999-12-31'}
    wrong = []
    for args, want in table.items():
        try:
            got = MiniEval(idx, fmt, res).call(f, list(args))
        except Undetermined as e:
            raise AnalysisError('DateTimeFormatUtil.luis_date cannot be interpreted: %s' % e)
        if got != want:
            wrong.append('%s -> %r (expected %r)' % (args, got, want))
    out.append((f.lineno, 'DateTimeFormatUtil.luis_date', 'luis_date%s' % ('; '.join(wrong) if wrong else ' agrees on 4 (year, month, day) cases'),
                not wrong, 'the date TIMEX is wrong: %s - YYYY-MM-DD of its (year, month, day) parameters, XXXX / XX only for -1' % '; '.join(wrong)))
    import datetime as _dtm
    try:
        got = MiniEval(idx, fmt, res).call(g, [_dtm.datetime(2016, 2, 3, 4, 5, 6)])
    except Undetermined as e:
        raise AnalysisError('DateTimeFormatUtil.format_date cannot be interpreted: %s' % e)
    out.append((g.lineno, 'DateTimeFormatUtil.format_date', 'format_date(2016-02-03 04:05:06) -> %r' % got, got == '2016-02-03',
                'date value is not {year:04d}-{month:02d}-{day:02d} of the datetime'))
    return out


def assembly_match_to_date(fn, b, consts, owner, idx):
    """b: binding of the generate_dates call (from taint_match_to_date)"""
    out = []
    for p in ('year', 'month', 'day'):
        if not isinstance(b[p], ast.Name):
            raise AnalysisError('%s: %s argument of generate_dates is not a local name' % (fn.name, p))
    Y, M, D = b['year'].id, b['month'].id, b['day'].id
    out.append((b['year'].lineno, 'generate_dates(...)', 'three distinct locals', len({Y, M, D}) == 3,
                'generate_dates receives the same local twice (%s, %s, %s)' % (Y, M, D)))
    # TIMEX from the same locals
    lds = [n for n in ast.walk(fn) if isinstance(n, ast.Call) and _callee_name(n) == 'luis_date']
    if not lds:
        raise AnalysisError('%s: no luis_date call' % fn.name)
    full = 0
    for c in lds:
        if len(c.args) != 3:
            raise AnalysisError('%s: luis_date call shape' % fn.name)
        y_ok = _is_name(c.args[0], Y) or (isinstance(c.args[0], ast.UnaryOp) and isinstance(c.args[0].op, ast.USub)) \
            or (isinstance(c.args[0], ast.Constant) and c.args[0].value == -1)
        if _is_name(c.args[0], Y):
            full += 1
        ok = y_ok and _is_name(c.args[1], M) and _is_name(c.args[2], D)
        out.append((c.lineno, 'luis_date(...)', 'luis_date(%s)' % ', '.join('YMD'[(Y, M, D).index(a.id)] if isinstance(a, ast.Name) and a.id in (Y, M, D)
                                                                               else ast.unparse(a) for a in c.args), ok,
                    'TIMEX is not built from the (year, month, day) locals that build the value'))
    out.append((fn.lineno, 'luis_date(year given)', '%d call(s) with the year local' % min(full, 1), full >= 1,
                'no luis_date call uses the decoded year'))
    # month / day decoded from the right table with the right group
    tv = Taint(fn, 'reference')
    for var, table, gconst, gname in ((M, 'month_of_year', 'MONTH_GROUP_NAME', 'month'), (D, 'day_of_month', 'DAY_GROUP_NAME', 'day')):
        srcs = [v for v, g, ln in tv.assigns.get(var, []) if not (isinstance(v, ast.Constant))]
        if not srcs:
            raise AnalysisError('%s: local %s is never decoded' % (fn.name, var))
        for v in srcs:
            key, tab = None, None
            if isinstance(v, ast.Call) and isinstance(v.func, ast.Attribute) and v.func.attr == 'get' and v.args:
                tab, key = ast.unparse(v.func.value), v.args[0]
            elif isinstance(v, ast.Subscript):
                tab, key = ast.unparse(v.value), v.slice
            elif isinstance(v, ast.Call) and isinstance(v.func, ast.Attribute) and _is_name(v.func.value, 'self') and v.args:
                # helper on the parser itself (ChineseDateParser.get_month_of_year): must read the same table
                k, h = idx.find_method(owner, v.func.attr)
                if h is not None:
                    reads = {ast.unparse(n.value) for n in ast.walk(h) if isinstance(n, ast.Subscript)}
                    reads |= {ast.unparse(n.func.value) for n in ast.walk(h) if isinstance(n, ast.Call)
                              and isinstance(n.func, ast.Attribute) and n.func.attr == 'get'}
                    reads = {r for r in reads if r.startswith('self.config.')}
                    if len(reads) == 1:
                        tab, key = next(iter(reads)), v.args[0]
            gsrc = None
            if isinstance(key, ast.Name):
                for kv, g, ln in tv.assigns.get(key.id, []):
                    if isinstance(kv, ast.Call) and _callee_name(kv) in ('get_group', 'group') and kv.args:
                        a = kv.args[-1] if _callee_name(kv) == 'group' else (kv.args[1] if len(kv.args) > 1 else None)
                        if isinstance(a, ast.Constant):
                            gsrc = a.value
                        elif isinstance(a, ast.Attribute) and a.attr in consts:
                            gsrc = consts[a.attr]
            ok = tab == 'self.config.' + table and gsrc == gname
            out.append((v.lineno, '%s <- table' % 'MD'[(M, D).index(var)],
                        '%s := %s[group %r]' % ('MD'[(M, D).index(var)], tab, gsrc), ok,
                        '%s is not decoded from config.%s with the `%s` group' % (var, table, gname)))
    return out


def decode_table(idx, W, owner, fn, var_binding, cfg, table_prop, consts):
    """if the local bound to a generate_dates argument is decoded through a helper of the parser itself
    (ChineseDateParser.get_month_of_year / get_day_of_month fold lunar aliases), interpret the helper over every key of
    the wired table: {key: decoded value}, helper name; (None, None) when the table is read directly"""
    from .c08 import MiniEval, Undetermined      # late import: c08 builds on this module
    tv = Taint(fn, 'reference')
    for v, g, ln in tv.assigns.get(var_binding.id, []):
        if isinstance(v, ast.Call) and isinstance(v.func, ast.Attribute) and _is_name(v.func.value, 'self'):
            k, h = idx.find_method(owner, v.func.attr)
            if h is None:
                raise AnalysisError('%s: helper %s not found' % (fn.name, v.func.attr))
            table = W.table(cfg, table_prop).value

            def res(node):
                txt = ast.unparse(node)
                if txt.startswith('self.config.'):
                    try:
                        vals = W.resolve(cfg, node.attr)
                    except AnalysisError as e:
                        raise Undetermined(str(e))
                    if len(vals) == 1:
                        return vals[0].value
                if isinstance(node, ast.Attribute) and isinstance(node.value, ast.Name):
                    if node.value.id == 'Constants' and node.attr in consts:
                        return consts[node.attr]
                    if node.value.id == 'self':
                        o, init, expr = W.slot_assign(owner, node.attr)
                        if expr is not None:
                            try:
                                return ast.literal_eval(expr)
                            except Exception:
                                pass
                raise Undetermined('attribute %s' % txt[:40])

            out = {}
            for key in table:
                try:
                    out[key] = MiniEval(idx, owner, res).call(h, [key])
                except Undetermined as e:
                    raise AnalysisError('%s.%s cannot be interpreted on key %r: %s' % (owner.name, v.func.attr, key, e))
            return out, '%s.%s' % (k.name, v.func.attr)
    return None, None


def month_abbreviates(culture, w):
    """month number when spelling w (dot stripped) is a >=3-letter prefix of exactly one reference month name of the
    culture or a lexicon entry without its dot; else None"""
    core = w.rstrip('.').strip()
    if len(core) < 3 and culture != 'chinese':
        return None
    hits = {n for f, n in FULL_MONTHS[culture].items() if f.startswith(core)}
    if core in MONTHS[culture]:
        hits.add(MONTHS[culture][core])
    return next(iter(hits)) if len(hits) == 1 else None


class DateRegexes:
    """the wired date regexes of one culture, translated for witnessing"""

    def __init__(self, W, cls):
        self.vals = W.patterns(cls, 'date_regex')
        if not self.vals:
            raise AnalysisError('wiring: %s.date_regex is empty' % cls.name)
        pv = W.resolve(cls, 'date_token_prefix')
        self.prefix = pv[0].value if pv and isinstance(pv[0].value, str) else ''
        self.trees, self.py, self.refused = [], [], []
        for v in self.vals:
            try:
                self.trees.append((v, rx.parse(v.value)))
            except rx.RxError as e:
                raise AnalysisError('%s: pattern not readable: %s' % (v.label, e))
            try:
                self.py.append((v, PyPattern(v.value)))
            except rx.RxError as e:
                self.refused.append('%s (%s)' % (v.label, e))

    def language(self, gname):
        """(set of spellings in L+ of all `gname` groups, {group source: exact?})"""
        words, groups = set(), {}
        for v, t in self.trees:
            for g in rx.find_group(t, gname):
                src = rx.unparse(g)
                if src in groups:
                    continue
                try:
                    L = rx.enumerate_language(g, limit=50000, fold_case=True)
                except rx.RxError as e:
                    raise AnalysisError('%s: language of group `%s` not enumerable: %s' % (v.label, gname, e))
                groups[src] = rx.is_exact(g)
                words |= L
        return words, groups

    def witness(self, w, gname='month', contexts=MONTH_CONTEXTS):
        """(input text, pattern label) such that parse_basic_regex_match would hand a match with group == w to
        match_to_date (search, match spans the whole text, also tried with the date token prefix)"""
        for ctx in contexts:
            s = ctx.format(w=w)
            for v, pp in self.py:
                for s2, off in ((s, 0), (self.prefix + s, len(self.prefix))):
                    m = pp.re.search(s2)
                    if m and m.start() == off and m.end() == len(s2):
                        if pp.group(m, gname) == w:
                            return s, v.label
                        break       # the parser takes the first regex that spans the text
        return None


def parser_of_culture(idx, W, dp_cfgs):
    """{culture: (parser Cls, match_to_date FunctionDef, defining Cls)}"""
    base = idx.cls(DT + 'base_date.BaseDateParser')
    out = {}
    special = {}
    for s in idx.subclasses(base):
        init = s.methods.get('__init__')
        if init is None:
            continue
        for n in ast.walk(init):
            if isinstance(n, ast.Call) and isinstance(n.func, (ast.Name, ast.Attribute)):
                c = idx.resolve_class(s.mod, n.func)
                if c is not None and c in dp_cfgs.values():
                    special[W.culture_of(c)] = s
    for cul in dp_cfgs:
        p = special.get(cul, base)
        k, fn = idx.find_method(p, 'match_to_date')
        if fn is None:
            raise AnalysisError('anchor vanished: %s.match_to_date' % p.name)
        out[cul] = (p, fn, k)
    return out


META = {
    'text': 'Partial (necessary conditions). Decided per culture (8): the month/day/weekday tables the date parser '
            'configuration actually wires map an independent reference lexicon to the right numbers (months 1-12, '
            'weekdays in the ISO convention DateUtils.this expects, numeric keys to themselves); every abbreviation of a '
            'month that a wired date regex demonstrably captures (witness input found by running the translated regex) '
            'is a key of the month table; `reference` influences generate_dates/match_to_date only under the no-year '
            'condition (data+control dependence walk); (year, month, day) reach datetime(...) and the TIMEX in that '
            'order from the right tables/groups.',
    'note': 'Not decided: which layout regex fires on a given text, day/month order resolution, two-digit-year pivots, '
            'leap-day validity, the extractor/merging pipeline. The witness search runs the resource regexes under '
            'Python re (look-behinds expanded to bounded fixed-width variants); spellings without a witness and regex '
            'artefacts that abbreviate no month are observations, not verdicts. Reference lexicons are part of the '
            'trusted base.',
    'technique': 'table agreement against reference lexicons; regex language enumeration + witness search; '
                 'intra-procedural taint (data + control dependence); call-argument normal forms',
}


def run(chk):
    idx = get_index()
    W = Wiring(idx)
    chk.explanation = ('absolute dates: month/weekday/day tables wired per culture agree with reference lexicons; capturable '
                       'month spellings have numbers; reference influences date construction only when no year was given; '
                       '(year, month, day) are assembled in order')
    chk.rule('C06.wiring', 'tables and date regexes of every culture resolve to evaluated resource constants', floor=24)
    chk.rule('C06.month', 'reference month lexicon maps to 1..12 in the wired month table', floor=150, control=True)
    chk.rule('C06.weekday', 'reference weekday lexicon maps to the ISO convention (Sunday 0 or 7) in the wired table',
             floor=60, control=True)
    chk.rule('C06.numeric', 'numeric month/day keys map to themselves; table values stay in range', floor=300, control=True)
    chk.rule('C06.capturable', 'month spellings a wired date regex captures are keys of the month table', floor=150,
             control=True)
    chk.rule('C06.fold', 'parser-side folding helpers map table values 1..K to themselves and lunar aliases to value-K (tabulated)',
             floor=40, control=True)
    chk.rule('C06.taint', '`reference` influences the date only under the no-year condition', floor=6, control=True)
    chk.rule('C06.assembly', '(year, month, day) reach datetime(...) and the TIMEX in order, from the right tables',
             floor=20, control=True)
    chk.assume('a culture is served by the unique DateParserConfiguration subclass of its package (C17 decides routing)')
    chk.assume('Python re and the regex module agree on the translated date patterns for the short witness inputs used')

    dp_cfgs = W.culture_classes(DT + 'base_date.DateParserConfiguration')
    missing = [c for c in CULTURES if c not in dp_cfgs]
    if missing:
        raise AnalysisError('no DateParserConfiguration subclass for culture(s) %s' % missing)
    consts = class_consts(idx, DT + 'constants.Constants')
    du = idx.cls(DT + 'utilities.DateUtils')
    fmt = idx.cls(DT + 'utilities.DateTimeFormatUtil')
    dow_enum = idx.cls(DT + 'utilities.DayOfWeek')
    chk.consulted(du.mod.path)
    iso = {k.lower(): v.value for k, v in dow_enum.attrs.items() if isinstance(v, ast.Constant)}
    if iso != {'monday': 1, 'tuesday': 2, 'wednesday': 3, 'thursday': 4, 'friday': 5, 'saturday': 6, 'sunday': 7}:
        raise AnalysisError('utilities.DayOfWeek is no longer the ISO numbering the weekday rule is written for: %s' % iso)

    gd = du.methods.get('generate_dates')
    if gd is None:
        raise AnalysisError('anchor vanished: DateUtils.generate_dates')
    gd_params = _param_names(gd)
    parsers = parser_of_culture(idx, W, dp_cfgs)

    # ---- C06.taint / C06.assembly (culture independent + one per match_to_date implementation)
    probs, seen, flag = taint_generate_dates(gd)
    for ln, g in seen:
        chk.ok('C06.taint', du.mod.path, 'DateUtils.generate_dates', 'reference read under `%s`' % flag, ln) if g else None
    for ln, text in probs:
        chk.bad('C06.taint', du.mod.path, 'DateUtils.generate_dates', text, 'DateUtils.generate_dates: ' + text, ln)
    for ln, cons, nf, ok, msg in assembly_generate_dates(gd, flag) + assembly_chain(du) + assembly_formatters(fmt):
        chk.judge(ok, 'C06.assembly', du.mod.path, cons if '.' in cons else 'DateUtils.generate_dates::' + cons, nf,
                  '%s: %s' % (cons, msg), ln)
    done = set()
    for cul in CULTURES:
        p, fn, k = parsers[cul]
        if k.qual in done:
            continue
        done.add(k.qual)
        chk.consulted(k.mod.path)
        cons = '%s.match_to_date' % k.name
        probs, seen, b = taint_match_to_date(fn, gd_params)
        for ln, g in seen:
            chk.ok('C06.taint', k.mod.path, cons, 'reference %s' % ('read under the year == 0 test' if g else
                                                                 'handed to generate_dates with the no-year flag'), ln)
        for ln, text in probs:
            chk.bad('C06.taint', k.mod.path, cons, text, '%s: %s' % (cons, text), ln)
        for ln, c2, nf, ok, msg in assembly_match_to_date(fn, b, consts, p, idx):
            chk.judge(ok, 'C06.assembly', k.mod.path, '%s::%s' % (cons, c2), nf, '%s: %s' % (cons, msg), ln)
    # positive controls
    _guard_ctl = ast.parse("def generate_dates(no_year, reference, year, month, day):\n    a = make(year, month, day)\n"
                           "    if no_year:\n        return a, a\n    if a < reference:\n        a = make(year + 1, month, day)\n    return a, a\n").body[0]
    if not taint_generate_dates(_guard_ctl)[0]:
        raise AnalysisError('internal: the guard-clause form of the taint rule lost its positive control')
    chk.control('C06.taint', bool(taint_generate_dates(ast.parse(_TAINT_CONTROL).body[0])[0])
                and bool(taint_match_to_date(ast.parse(_TAINT_CONTROL2).body[0], ['no_year', 'reference', 'year', 'month', 'day'])[0]))
    ctl = ast.parse('def generate_dates(no_year, reference, year, month, day):\n'
                    '    a = DateUtils.safe_create_from_min_value(year, day, month)\n    return a, a\n').body[0]
    chk.control('C06.assembly', any(not r[3] for r in assembly_generate_dates(ctl, 'no_year')))
    chk.control('C06.month', bool(lexicon_problems({'march': 4, 'april': 4}, {'march': 3, 'april': 4})))
    chk.control('C06.weekday', bool(lexicon_problems({'monday': 2}, {'monday': 1})))
    chk.control('C06.numeric', bool(numeric_problems({'1': 2}, ['1'])))
    from .c08 import MiniEval as _ME
    _ctl = ast.parse("def get_day_of_month(self, day):\n    return day % 31 if day >= 31 else day\n").body[0]
    chk.control('C06.fold', _ME(idx).call(_ctl, [31]) != 31)

    # ---- per culture
    capt_control = False
    for cul in CULTURES:
        cfg = dp_cfgs[cul]
        chk.consulted(cfg.mod.path)
        p, fn, k = parsers[cul]
        _, _, b = taint_match_to_date(fn, gd_params)
        mdec, mhelper = decode_table(idx, W, p, fn, b['month'], cfg, 'month_of_year', consts)
        ddec, dhelper = decode_table(idx, W, p, fn, b['day'], cfg, 'day_of_month', consts)
        moy = W.table(cfg, 'month_of_year')
        dom = W.table(cfg, 'day_of_month')
        dow = W.table(cfg, 'day_of_week')
        regs = DateRegexes(W, cfg)
        # decoded value of a table value: through the parser's folding helper when there is one
        mmap = {v2: mdec[k2] for k2, v2 in moy.value.items()} if mdec is not None else None
        dmap = {v2: ddec[k2] for k2, v2 in dom.value.items()} if ddec is not None else None
        mnorm = (lambda v, M=mmap: M.get(v, v)) if mmap is not None else (lambda v: v)
        dnorm = (lambda v, M=dmap: M.get(v, v)) if dmap is not None else (lambda v: v)
        for dec, helper, tab, K, what in ((mdec, mhelper, moy, 12, 'month'), (ddec, dhelper, dom, 31, 'day')):
            if dec is None:
                continue
            by_val = {}
            for k2, v2 in tab.value.items():
                by_val.setdefault(v2, set()).add(dec[k2])
            for v2 in sorted(by_val, key=lambda x: (not isinstance(x, int), x)):
                got = sorted(by_val[v2], key=str)
                want = v2 if isinstance(v2, int) and 1 <= v2 <= K else (v2 - K if isinstance(v2, int) and K < v2 <= 2 * K else None)
                chk.judge(want is not None and got == [want], 'C06.fold', k.mod.path, '%s(%s)' % (helper, v2),
                          '%s -> %s' % (v2, got if len(got) != 1 else got[0]),
                          '%s decodes the %s table value %r (e.g. key %r) to %s; expected %s - %s'
                          % (helper, what, v2, next(k3 for k3, v3 in tab.value.items() if v3 == v2), got if len(got) != 1 else got[0],
                             want, 'values 1..%d map to themselves, lunar aliases %d..%d fold to value-%d, nothing maps to 0' % (K, K + 1, 2 * K, K)),
                          idx.find_method(p, helper.split('.')[1])[1].lineno)
        for t, v in (('month_of_year', moy), ('day_of_month', dom), ('day_of_week', dow)):
            chk.ok('C06.wiring', cfg.mod.path, '%s.%s' % (cfg.name, t), '%s [%d keys]' % (v.label, len(v.value)))
            for part in (v.parts if isinstance(v, MergedVal) else [v]):
                if part.path:
                    chk.consulted(part.path)
        chk.ok('C06.wiring', cfg.mod.path, '%s.date_regex' % cfg.name,
               '%d patterns: %s' % (len(regs.vals), ' '.join(sorted(v.name for v in regs.vals))))
        if regs.refused:
            chk.observe('%s: %d date pattern(s) not translatable for witnessing: %s' % (cul, len(regs.refused), '; '.join(regs.refused)))
        if len(regs.py) < max(1, len(regs.vals) // 2):
            raise AnalysisError('%s: only %d of %d date patterns could be translated for the witness search'
                                % (cul, len(regs.py), len(regs.vals)))

        # C06.month
        for w, n in MONTHS[cul].items():
            o = origin(moy, w)
            got = moy.value.get(w)
            chk.judge(got is not None and mnorm(got) == n, 'C06.month', o.path, "%s[%r]" % (o.label, w), '%s -> %s' % (w, got),
                      '%s month %r maps to %r, the reference lexicon says %d' % (cul, w, got, n), o.line)
        # C06.weekday
        for w, n in WEEKDAYS[cul].items():
            got = dow.value.get(w)
            ok = got == n or (n == 7 and got == 0)
            chk.judge(ok, 'C06.weekday', dow.path, "%s[%r]" % (dow.label, w), '%s -> %s' % (w, got),
                      '%s weekday %r maps to %r, ISO convention of DateUtils.this wants %d%s'
                      % (cul, w, got, n, ' (or 0)' if n == 7 else ''), dow.line)
        bad_range = sorted(k2 for k2, v2 in dow.value.items() if not (isinstance(v2, int) and 0 <= v2 <= 7))
        chk.judge(not bad_range and len({v2 % 7 for v2 in dow.value.values() if isinstance(v2, int)}) == 7,
                  'C06.weekday', dow.path, '%s#range' % dow.label, 'values %s' % sorted(set(map(str, dow.value.values()))),
                  '%s weekday table has values outside 0..7 or fewer than seven distinct days: %s' % (cul, bad_range[:5]), dow.line)
        # C06.numeric : digit spellings the month / day groups can capture, plus the canonical ranges
        mwords, mgroups = regs.language('month')
        dwords, dgroups = regs.language('day')
        if not mwords or not dwords:
            raise AnalysisError('%s: no `month`/`day` group found in the wired date regexes' % cul)
        mdig = sorted({w for w in mwords if w.isdigit()} | {str(i) for i in range(1, 13)} | {'%02d' % i for i in range(1, 10)})
        ddig = sorted({w for w in dwords if w.isdigit()} | {str(i) for i in range(1, 32)} | {'%02d' % i for i in range(1, 10)})
        badm = {k2: (e, g) for k2, e, g in numeric_problems(moy.value, mdig, mnorm)}
        badd = {k2: (e, g) for k2, e, g in numeric_problems(dom.value, ddig, dnorm)}
        for key in mdig:
            o = origin(moy, key)
            chk.judge(key not in badm, 'C06.numeric', o.path, "%s[%r]" % (o.label, key), '%s -> %s' % (key, moy.value.get(key)),
                      '%s numeric month %r maps to %r' % (cul, key, moy.value.get(key)), o.line)
        for key in ddig:
            o = origin(dom, key)
            chk.judge(key not in badd, 'C06.numeric', o.path, "%s[%r]" % (o.label, key), '%s -> %s' % (key, dom.value.get(key)),
                      '%s numeric day %r maps to %r' % (cul, key, dom.value.get(key)), o.line)
        outm = sorted(k2 for k2, v2 in moy.value.items() if not (isinstance(v2, int) and 1 <= mnorm(v2) <= 12))
        outd = sorted(k2 for k2, v2 in dom.value.items() if not (isinstance(v2, int) and 1 <= dnorm(v2) <= 31))
        chk.judge(not outm, 'C06.numeric', moy.path, '%s#range' % moy.label, 'out of 1..12: %s' % outm[:8],
                  '%s month table has values outside 1..12 for %s' % (cul, outm[:8]), moy.line)
        chk.judge(not outd, 'C06.numeric', dom.path, '%s#range' % dom.label, 'out of 1..31: %s' % outd[:8],
                  '%s day table has values outside 1..31 for %s' % (cul, outd[:8]), dom.line)

        # C06.capturable
        calib = 0
        for w in sorted(mwords):
            if w in moy.value:
                o = origin(moy, w)
                chk.ok('C06.capturable', o.path, "%s[%r]" % (o.label, w), 'in regex language, in table', o.line)
                continue
            wit = regs.witness(w)
            n = month_abbreviates(cul, w)
            if wit and n is not None:
                chk.bad('C06.capturable', moy.path, "%s[%r]" % (moy.label, w), 'captured, no table entry',
                        '%s: %s captures month=%r on input %r but %s has no such key (abbreviates month %d): match_to_date '
                        'builds month 0' % (cul, wit[1], w, wit[0], moy.label, n), moy.line)
            elif wit:
                chk.exempt('C06.capturable', moy.path, "%s[%r]" % (moy.label, w),
                           'captured on %r but abbreviates no reference month (regex artefact; not an input C06 quantifies over)' % wit[0],
                           'captured, no table entry, not a month spelling', moy.line)
                chk.observe('%s: regex artefact %r is captured by %s (input %r) and has no %s entry' % (cul, w, wit[1], wit[0], moy.label))
            else:
                chk.exempt('C06.capturable', moy.path, "%s[%r]" % (moy.label, w),
                           'in the over-approximated language L+ only: no witness input found', 'no witness', moy.line)
                chk.observe('%s: spelling %r is in L+ of a month group, not in %s, and no witness input was found' % (cul, w, moy.label))
        # calibration: the witness search must be able to exercise this culture's patterns
        for w in list(FULL_MONTHS[cul])[:12]:
            if w in mwords and regs.witness(w):
                calib += 1
        if calib < 6:
            raise AnalysisError('%s: witness search reaches only %d of the 12 month names - contexts do not fit the '
                                'date patterns any more' % (cul, calib))
        # control for the capturable detector: a spelling known to be in the table must be reported once it is removed
        if not capt_control:
            w0 = next(w for w in FULL_MONTHS[cul] if w in mwords)
            capt_control = w0 in mwords and regs.witness(w0) is not None and month_abbreviates(cul, w0) is not None
    chk.control('C06.capturable', capt_control)
    rule_order(chk, idx, W, dp_cfgs)
    rule_textindex(chk, idx)
    rule_flags(chk, idx, W)
    chk.exhaustive = False



# =====================================================================================================
# C06.order - the numeric layout 'a/b/yyyy' is read in the culture's day/month order: the *ordered* list of date regexes
# (the parser takes the first one that spans the text) is evaluated from the configuration's __init__
# =====================================================================================================

class _ResStr(str):
    """a resource string that remembers where it came from"""

    def __new__(cls, value, rcls, attr):
        o = str.__new__(cls, value)
        o.rcls, o.attr = rcls, attr
        return o


DAY_MONTH_ORDER = {'english': 'MD', 'chinese': 'MD', 'spanish': 'DM', 'french': 'DM', 'portuguese': 'DM', 'german': 'DM',
                   'italian': 'DM', 'dutch': 'DM'}


def _stored_keys(st):
    """environment keys (locals, 'obj.attr' slots) a statement may bind or mutate in place"""
    keys = set()

    def key_of(t):
        if isinstance(t, ast.Name):
            return t.id
        if isinstance(t, ast.Attribute) and isinstance(t.value, ast.Name):
            return '%s.%s' % (t.value.id, t.attr)
        return None

    for n in ast.walk(st):
        if isinstance(n, (ast.Name, ast.Attribute)) and isinstance(n.ctx, (ast.Store, ast.Del)):
            keys.add(key_of(n))
        elif isinstance(n, ast.Subscript) and isinstance(n.ctx, (ast.Store, ast.Del)):
            keys.add(key_of(n.value))
        elif isinstance(n, ast.Call) and isinstance(n.func, ast.Attribute) and n.func.attr in (
                'append', 'extend', 'insert', 'remove', 'pop', 'sort', 'reverse', 'clear', 'update', 'setdefault'):
            keys.add(key_of(n.func.value))
    keys.discard(None)
    return keys


def ordered_date_regexes(idx, W, cls, flag, info=None):
    """interpret the extractor configuration's __init__ with its format flag(s) set to `flag`: the date regex list in order.
    `info` (a dict, optional) receives 'line' (last statement that binds or grows the list) and 'declared' (the day/month/year
    order constants of the resources the constructor consulted, e.g. {'FrenchDateTime.DefaultLanguageFallback': 'DMY'})"""
    from .c08 import MiniEval, Undetermined, _Return, _Raised
    k, init = idx.find_method(cls, '__init__')
    if init is None:
        raise AnalysisError('%s has no __init__' % cls.name)

    def res(node):
        if isinstance(node, ast.Attribute) and isinstance(node.value, ast.Name):
            rc = idx.resolve_class(k.mod, node.value)
            if rc is not None and '.resources.' in rc.mod.name:
                vals = W.R.values(rc)
                if node.attr in vals:
                    v = vals[node.attr]
                    if info is not None and isinstance(v, str) and sorted(v) == ['D', 'M', 'Y']:
                        info.setdefault('declared', {})['%s.%s' % (rc.name, node.attr)] = v
                    return _ResStr(v, rc.name, node.attr) if isinstance(v, str) else v
            if rc is not None and node.attr in class_consts_cached(idx, rc):
                return class_consts_cached(idx, rc)[node.attr]
        raise Undetermined('attribute %s' % ast.unparse(node)[:40])

    def hook(call, args, env):
        if _callee_name(call) in ('get_safe_reg_exp', 'compile') and args:
            return True, args[0]
        return False, None

    ev = MiniEval(idx, k, res)
    ev.call_hook = hook
    env = {'self': '<self>'}
    for a in init.args.args[1:]:
        env[a.arg] = flag
    for st in init.body:
        try:
            ev.block([st], env)
        except (Undetermined, _Raised):
            # the statement could not be interpreted: whatever it may (re)bind or grow is unknown from here on, so a
            # later read of it is undetermined too (a skipped `if flag: a, b = b, a` must not leave the old order behind)
            for key in _stored_keys(st):
                env.pop(key, None)
            continue
        except _Return:
            break
    for key in ('self._date_regex_list', 'self._date_regex'):
        lst = env.get(key)
        if isinstance(lst, list) and lst and all(isinstance(x, str) for x in lst):
            if info is not None:
                info['line'] = max((st.lineno for st in init.body if key in _stored_keys(st)), default=init.lineno)
            return lst
    raise AnalysisError('%s.__init__: the ordered date regex list cannot be interpreted' % cls.name)


_CONSTS_CACHE = {}


def class_consts_cached(idx, cls):
    if cls.qual not in _CONSTS_CACHE:
        _CONSTS_CACHE[cls.qual] = class_consts(idx, cls.qual)
    return _CONSTS_CACHE[cls.qual]


# day <= 12 and month <= 12, so both readings are valid dates and only the list order decides.  The blank-after-separator
# spellings matter on their own: a culture may catch the compact spelling with an earlier regex of fixed order
# (French DateExtractor3) and leave the spaced one to the pair of regexes whose precedence the DMY/MDY fallback selects.
ORDER_LAYOUTS = ('5/6/2016', '5-6-2016', '5 / 6 / 2016', '5 - 6 - 2016', '5/ 6/ 2016')


def first_reading(patterns, prefix, text):
    """(pattern label, month, day) of the first regex - in list order - that spans the text as parse_basic_regex_match requires"""
    for pat in patterns:
        try:
            pp = PyPattern(str(pat))
        except rx.RxError:
            continue
        for s2, off in ((text, 0), (prefix + text, len(prefix))):
            m = pp.re.search(s2)
            if m and m.start() == off and m.end() == len(s2):
                return getattr(pat, 'attr', '?'), pp.group(m, 'month'), pp.group(m, 'day')
            if m:
                break
    return None


def rule_order(chk, idx, W, dp_cfgs):
    chk.rule('C06.order', "the numeric layout a/b/yyyy is read in the culture's day/month order by the first date regex (in list order) "
             "that spans it", floor=8, control=True)
    ex_cfgs = W.culture_classes(DT + 'base_date.DateExtractorConfiguration')
    for cul in CULTURES:
        if cul not in ex_cfgs:
            raise AnalysisError('no DateExtractorConfiguration subclass for culture %s' % cul)
        cls = ex_cfgs[cul]
        pv = W.resolve(dp_cfgs[cul], 'date_token_prefix')
        prefix = pv[0].value if pv and isinstance(pv[0].value, str) else ''
        cases = [(False, DAY_MONTH_ORDER[cul])]
        k, init = idx.find_method(cls, '__init__')
        if init is not None and any('dmy' in a.arg.lower() for a in init.args.args):
            cases.append((True, 'DM'))
        for flag, order in cases:
            info = {}
            lst = ordered_date_regexes(idx, W, cls, flag, info)
            decl = ', '.join('%s = %r' % kv for kv in sorted(info.get('declared', {}).items()))
            for text in ORDER_LAYOUTS:
                r = first_reading(lst, prefix, text)
                cons = '%s[%s%s]' % (cls.name, text, ', day-first flag set' if flag else '')
                if r is None:
                    chk.exempt('C06.order', cls.mod.path, cons, 'no wired date regex spans this layout', 'not accepted')
                    continue
                want = ('5', '6') if order == 'MD' else ('6', '5')
                got = (str(r[1]).lstrip('0'), str(r[2]).lstrip('0'))
                chk.judge(got == want, 'C06.order', cls.mod.path, cons, '%s: month %s day %s' % (r[0], r[1], r[2]),
                          "%s: %r is read by %s (first in list order) as month %s, day %s; the %s order is %s, i.e. month %s, day %s%s"
                          % (cul, text, r[0], r[1], r[2], 'requested day-first' if flag else "culture's", 'day/month' if order == 'DM' else 'month/day',
                             want[0], want[1], ' (the constructor consults %s)' % decl if decl else ''), info.get('line'))
    md = _ResStr(r'(?<month>\d{1,2})/(?<day>\d{1,2})/(?<year>\d{4})', 'Control', 'MonthFirst')
    dm = _ResStr(r'(?<day>\d{1,2})/(?<month>\d{1,2})/(?<year>\d{4})', 'Control', 'DayFirst')
    r0, r1 = first_reading([md, dm], '', '5/6/2016'), first_reading([dm, md], '', '5/6/2016')
    chk.control('C06.order', r0 is not None and r1 is not None and (r0[1], r0[2]) == ('5', '6') and (r1[1], r1[2]) == ('6', '5'))


# =====================================================================================================
# C06.textindex - reading one character of the text at a regex match boundary (S[m.end() + k], S[m.start() - k]) needs a
# dominating bound test: m.end() may equal len(S) (IndexError, swallowed by the model: every entity of the query is lost),
# m.start() may be 0 (a negative index silently reads from the other end)
# =====================================================================================================

def _lin(e):
    """(base text or None, constant) of  <position> +/- c  where <position> is m.end() / m.start() / len(S) / nothing"""
    if isinstance(e, ast.Constant) and isinstance(e.value, int) and not isinstance(e.value, bool):
        return None, e.value
    if isinstance(e, ast.BinOp) and isinstance(e.op, (ast.Add, ast.Sub)):
        l, r = _lin(e.left), _lin(e.right)
        if l is None or r is None:
            return None
        sgn = 1 if isinstance(e.op, ast.Add) else -1
        if r[0] is None:
            return l[0], l[1] + sgn * r[1]
        if l[0] is None and sgn == 1:
            return r[0], l[1] + r[1]
        return None
    if isinstance(e, ast.Call) and isinstance(e.func, ast.Attribute) and e.func.attr in ('end', 'start') and not e.args:
        return ast.unparse(e), 0
    if isinstance(e, ast.Call) and isinstance(e.func, ast.Name) and e.func.id == 'len' and len(e.args) == 1:
        return ast.unparse(e), 0
    return None


def _conjuncts(t, neg=False):
    """atomic comparisons known to hold when test t is true (neg: when it is false)"""
    if isinstance(t, ast.UnaryOp) and isinstance(t.op, ast.Not):
        yield from _conjuncts(t.operand, not neg)
    elif isinstance(t, ast.BoolOp) and ((isinstance(t.op, ast.And) and not neg) or (isinstance(t.op, ast.Or) and neg)):
        for v in t.values:
            yield from _conjuncts(v, neg)
    elif isinstance(t, ast.Compare) and len(t.ops) == 1:
        yield t, neg


_FLIP = {ast.Lt: ast.GtE, ast.LtE: ast.Gt, ast.Gt: ast.LtE, ast.GtE: ast.Lt}


def _implies_lt(cmp_, neg, lo, hi):
    """does the comparison (negated if neg) imply  lo + k < hi  ? returns the largest such k or None; lo/hi are base texts"""
    op = type(cmp_.ops[0])
    if neg:
        op = _FLIP.get(op)
    if op is None:
        return None
    a, b = _lin(cmp_.left), _lin(cmp_.comparators[0])
    if a is None or b is None:
        return None
    if op in (ast.Gt, ast.GtE):          # b < a
        a, b = b, a
        op = ast.Lt if op is ast.Gt else ast.LtE
    if op not in (ast.Lt, ast.LtE):
        return None
    if a[0] != lo or b[0] != hi:
        return None
    # lo + a1 < hi + b1  =>  lo + (a1 - b1) < hi ;  <= gives one less
    return (a[1] - b[1]) - (1 if op is ast.LtE else 0)


def text_index_reads(fn):
    """[(subscript node, 'upper'|'lower', needed k, satisfied?, evidence text)] for S[m.end()+k] / S[m.start()-k] reads"""
    parents = {}
    for n in ast.walk(fn):
        for ch in ast.iter_child_nodes(n):
            parents[id(ch)] = n
    out = []
    for node in ast.walk(fn):
        if not (isinstance(node, ast.Subscript) and isinstance(node.ctx, ast.Load) and not isinstance(node.slice, ast.Slice)
                and isinstance(node.value, ast.Name)):
            continue
        lf = _lin(node.slice)
        if lf is None or lf[0] is None or not lf[0].endswith(('.end()', '.start()')):
            continue
        S = node.value.id
        # facts that hold here: tests of enclosing ifs / whiles / conditional expressions, earlier operands of enclosing `and`
        # chains, negations of earlier guard clauses that leave the block
        facts = []
        cur = node
        while id(cur) in parents:
            par = parents[id(cur)]
            if isinstance(par, (ast.If, ast.While)) and cur is not par.test:
                in_body = any(cur is st for st in par.body)
                facts.extend(_conjuncts(par.test, neg=not in_body))
            elif isinstance(par, ast.IfExp) and cur is not par.test:
                facts.extend(_conjuncts(par.test, neg=cur is par.orelse))
            elif isinstance(par, ast.BoolOp) and isinstance(par.op, ast.And):
                i = next(j for j, v in enumerate(par.values) if v is cur)
                for v in par.values[:i]:
                    facts.extend(_conjuncts(v))
            for field in ('body', 'orelse'):
                blk = getattr(par, field, None)
                if isinstance(blk, list) and any(cur is st for st in blk):
                    i = next(j for j, st in enumerate(blk) if st is cur)
                    for st in blk[:i]:
                        if isinstance(st, ast.If) and not st.orelse and st.body and isinstance(st.body[-1], (ast.Continue, ast.Return, ast.Break, ast.Raise)):
                            facts.extend(_conjuncts(st.test, neg=True))
            cur = par
        base, k = lf
        if base.endswith('.end()') and k >= 0:
            best = [r for r in (_implies_lt(c, ng, base, 'len(%s)' % S) for c, ng in facts) if r is not None]
            ok = any(r >= k for r in best)
            out.append((node, 'upper', k, ok, '; '.join(ast.unparse(c) for c, ng in facts)[:120]))
        if base.endswith('.start()') and k < 0:
            # need  0 <= start + k, i.e.  (-k - 1) < start
            ok = False
            for c, ng in facts:
                op = type(c.ops[0])
                if ng:
                    op = _FLIP.get(op)
                a, b = _lin(c.left), _lin(c.comparators[0])
                if op is None or a is None or b is None:
                    continue
                if op in (ast.Lt, ast.LtE):
                    a, b, op = b, a, (ast.Gt if op is ast.Lt else ast.GtE)
                if op in (ast.Gt, ast.GtE) and a[0] == base and b[0] is None:
                    # start + a1 > b1  (>=)  =>  start >= b1 - a1 + 1  (b1 - a1)
                    least = b[1] - a[1] + (1 if op is ast.Gt else 0)
                    if least >= -k:
                        ok = True
            out.append((node, 'lower', -k, ok, '; '.join(ast.unparse(c) for c, ng in facts)[:120]))
    return out


def rule_textindex(chk, idx):
    # floor 0: the expected number of such reads is "however many the code has" - today one, none after a rewrite with a slice
    # (source[end:end + 1]); the positive control below keeps the rule from passing vacuously
    chk.rule('C06.textindex', 'a character of the text read at a regex match boundary is dominated by a bound test that keeps the index inside the text',
             floor=0, control=True)
    for mod, cls, fn in idx.functions():
        if not mod.name.startswith(DT) or '.resources.' in mod.name:
            continue
        q = (cls.name + '.' if cls else '') + fn.name
        for node, side, k, ok, ev in text_index_reads(fn):
            cons = '%s: %s' % (q, ast.unparse(node))
            if side == 'upper':
                msg = ('%s reads %s, but nothing on the way there ensures %s < len(%s): when the match ends at the end of the text the read raises '
                       'IndexError, which the model swallows - every entity of the query is lost' % (q, ast.unparse(node), ast.unparse(node.slice), node.value.id))
            else:
                msg = ('%s reads %s, but nothing on the way there ensures the index is not negative: at the start of the text it silently reads '
                       'from the other end' % (q, ast.unparse(node)))
            chk.judge(ok, 'C06.textindex', mod.path, cons, '%s bound: %s' % (side, 'guarded by ' + ev if ok else 'no dominating test (%s)' % (ev or 'none')),
                      msg, node.lineno)
    ctl = ast.parse("def f(self, source):\n    for match in ms:\n        if match.start() > 0:\n"
                    "            if source[match.start() - 1] == '-' and source[match.end()] == '-':\n                continue\n").body[0]
    rs = text_index_reads(ctl)
    chk.control('C06.textindex', any(side == 'upper' and not ok for _, side, _, ok, _ in rs) and any(side == 'lower' and ok for _, side, _, ok, _ in rs))


# =====================================================================================================
# C06.flags - flag discipline: results that carry a success/matched flag are objects (always truthy, or None when
# the helper found nothing at all); using the object itself as the flag is the port slip behind the
# `if relative_match:` family of defects
# =====================================================================================================

import collections as _collections

FLAG_FIELDS = ('success', 'matched')

# use sites triaged on the pinned tree (differential runs against the real extractor; see the report)
FLAG_TRIAGED = {
    ('BaseDateExtractor.starts_with_basic_date', 'match'):
        'triaged: the truthiness test makes "starts with a date" mean "contains a date"; differential run of the real English '
        'extractor (2016 inputs, 102 differ) - in every differing input the present behaviour keeps the fully specified date '
        'that the `.success` variant drops, so no C06 input fails because of it',
}


def _callee(c):
    f = c.func
    return f.attr if isinstance(f, ast.Attribute) else (f.id if isinstance(f, ast.Name) else None)


def _bound_names(t):
    """names (re)bound by an assignment target - not the bases of attribute / subscript stores"""
    if isinstance(t, ast.Name):
        return [t.id]
    if isinstance(t, (ast.Tuple, ast.List)):
        return [x for e in t.elts for x in _bound_names(e)]
    if isinstance(t, ast.Starred):
        return _bound_names(t.value)
    return []


class FlagTypes:
    """which classes carry a flag, which functions always return such an object, which locals hold one"""

    def __init__(self, idx, scope=('recognizers_date_time', 'recognizers_text')):
        self.idx = idx
        self.flag = {}
        mods = [m for m in idx.mods.values() if m.name.startswith(scope)]
        for m in mods:
            for c in m.classes.values():
                for f in FLAG_FIELDS:
                    has = f in c.methods
                    init = c.methods.get('__init__')
                    if init is not None:
                        for n in ast.walk(init):
                            t = n.targets[0] if isinstance(n, ast.Assign) else (n.target if isinstance(n, ast.AnnAssign) else None)
                            if isinstance(t, ast.Attribute) and _is_name(t.value, 'self') and t.attr == f:
                                has = True
                    if has:
                        self.flag.setdefault(c.name, f)
            for name, v in m.assigns.items():
                if isinstance(v, ast.Call) and _callee(v) == 'namedtuple' and len(v.args) == 2:
                    try:
                        fields = ast.literal_eval(v.args[1])
                    except Exception:
                        continue
                    if isinstance(fields, str):
                        fields = fields.replace(',', ' ').split()
                    for f in FLAG_FIELDS:
                        if f in fields:
                            self.flag.setdefault(name, f)
        self.funcs = [(m, c, f) for m in mods for (_, c, f) in idx.functions(m)]
        self.byname = _collections.defaultdict(list)
        for m, c, f in self.funcs:
            self.byname[f.name].append(f)
        self.prod = {}
        self._assigns = {}
        for _ in range(4):
            changed = False
            for m, c, f in self.funcs:
                lt = self.local_types(f, c)
                ts = []
                for r in ast.walk(f):
                    if not isinstance(r, ast.Return):
                        continue
                    if r.value is None or (isinstance(r.value, ast.Constant) and r.value.value is None):
                        ts.append(('<none>', True))
                    else:
                        ts.append(self.expr_type(r.value, lt, c))
                real = [t for t in ts if t and t[0] != '<none>']
                if real and all(t is not None for t in ts) and len({t[0] for t in real}) == 1:
                    v = (real[0][0], any(t[1] for t in ts))
                    if self.prod.get(id(f)) != v:
                        self.prod[id(f)] = v
                        changed = True
            if not changed:
                break

    @staticmethod
    def _abstract(f):
        return not any(isinstance(n, ast.Return) and n.value is not None for n in ast.walk(f)) and \
            (any(isinstance(n, ast.Raise) for n in ast.walk(f)) or all(isinstance(b, (ast.Pass, ast.Expr)) for b in f.body))

    def name_type(self, name):
        fs = [f for f in self.byname.get(name, []) if not self._abstract(f)]
        if not fs:
            return None
        ts = {self.prod.get(id(f)) for f in fs}
        if None in ts or len({t[0] for t in ts}) != 1:
            return None
        return (next(iter(ts))[0], any(t[1] for t in ts))

    def expr_type(self, e, lt, cls=None):
        if isinstance(e, ast.Call):
            cn = _callee(e)
            if cn in self.flag:
                return (cn, False)
            if cls is not None and isinstance(e.func, ast.Attribute) and _is_name(e.func.value, 'self'):
                k, f = self.idx.find_method(cls, cn)        # self-call: resolved through the MRO
                if f is not None and not self._abstract(f):
                    return self.prod.get(id(f))
            return self.name_type(cn)
        if isinstance(e, ast.Name):
            return lt.get(e.id)
        return None

    def assigns_of(self, fn):
        if id(fn) in self._assigns:
            return self._assigns[id(fn)]
        asg = _collections.defaultdict(list)
        for n in ast.walk(fn):
            if isinstance(n, ast.Assign) and len(n.targets) == 1 and isinstance(n.targets[0], ast.Name):
                asg[n.targets[0].id].append(n.value)
            elif isinstance(n, ast.AnnAssign) and n.value is not None and isinstance(n.target, ast.Name):
                asg[n.target.id].append(n.value)
            elif isinstance(n, ast.Assign):
                for t in n.targets:
                    for x in _bound_names(t):
                        asg[x].append(False)
            elif isinstance(n, (ast.For, ast.AugAssign, ast.comprehension)):
                for x in _bound_names(n.target):
                    asg[x].append(False)
            elif isinstance(n, ast.With):
                for it in n.items:
                    if it.optional_vars is not None:
                        for x in _bound_names(it.optional_vars):
                            asg[x].append(False)
        for a in fn.args.args + fn.args.kwonlyargs:
            asg[a.arg].append(False)
        self._assigns[id(fn)] = asg
        return asg

    def local_types(self, fn, cls=None):
        """{local: (flag class, nullable, none_initialised)} for locals that only ever hold such a result (or None)"""
        asg = self.assigns_of(fn)
        out = {}
        for _ in range(3):
            for k, vs in asg.items():
                ts, none_init = [], False
                for v in vs:
                    if v is False:
                        ts.append(None)
                    elif isinstance(v, ast.Constant) and v.value is None:
                        none_init = True
                        ts.append(('<none>', True))
                    else:
                        t = self.expr_type(v, out, cls)
                        if t is not None and len(t) == 3 and t[2]:
                            none_init = True          # copy of a None-initialised holder
                        ts.append(t)
                real = [t for t in ts if t and t[0] != '<none>']
                if real and all(t is not None for t in ts) and len({t[0] for t in real}) == 1:
                    out[k] = (real[0][0], any(t[1] for t in ts), none_init)
        return out


def _bool_leaves(e, neg=False):
    """(leaf, negated?) of a boolean expression"""
    if isinstance(e, ast.BoolOp):
        for v in e.values:
            yield from _bool_leaves(v, neg)
    elif isinstance(e, ast.UnaryOp) and isinstance(e.op, ast.Not):
        yield from _bool_leaves(e.operand, not neg)
    else:
        yield e, neg


def flag_uses(ft, fn, cls=None):
    """[(kind, local, flag class, lineno)] kind: 'field' (x.success in a boolean context), 'guarded' (bare x as a None
    guard whose flag is read in the same test, in the guarded body, or after the early exit it guards), 'holder' (bare x,
    x is None-initialised: plain None guard), 'bare' (bare x used as the flag)"""
    lt = ft.local_types(fn, cls)
    if not lt:
        return []

    def is_read(n, var):
        return isinstance(n, ast.Attribute) and isinstance(n.value, ast.Name) and n.value.id == var \
            and n.attr == ft.flag[lt[var][0]]

    def reads_in(nodes, var):
        return any(is_read(x, var) for nd in nodes for x in ast.walk(nd))

    all_reads = _collections.defaultdict(list)
    for n in ast.walk(fn):
        if isinstance(n, ast.Attribute) and isinstance(n.value, ast.Name) and n.value.id in lt and is_read(n, n.value.id):
            all_reads[n.value.id].append(n.lineno)
    # enclosing If / While / IfExp statements of every node (a use under `if x.success:` is already decided)
    enclosing = {}

    def mark(node, stack):
        for ch in ast.iter_child_nodes(node):
            if isinstance(node, (ast.If, ast.While, ast.IfExp)) and ch is not node.test:
                sub = stack + [node]
            else:
                sub = stack
            enclosing[id(ch)] = sub
            mark(ch, sub)
    mark(fn, [])
    sites = []       # (test expr, owning statement or None)
    for n in ast.walk(fn):
        if isinstance(n, (ast.If, ast.While, ast.IfExp, ast.Assert)):
            sites.append((n.test, n))
        elif isinstance(n, ast.comprehension):
            for c in n.ifs:
                sites.append((c, None))
    in_tests = {id(x) for t, _ in sites for x in ast.walk(t)}
    for n in ast.walk(fn):
        if (isinstance(n, ast.BoolOp) or (isinstance(n, ast.UnaryOp) and isinstance(n.op, ast.Not))) and id(n) not in in_tests:
            sites.append((n, None))
            in_tests |= {id(x) for x in ast.walk(n)}
    out, seen = [], set()
    for test, st in sites:
        for lf, neg in _bool_leaves(test):
            if id(lf) in seen:
                continue
            seen.add(id(lf))
            if isinstance(lf, ast.Attribute) and isinstance(lf.value, ast.Name) and lf.value.id in lt and is_read(lf, lf.value.id):
                out.append(('field', lf.value.id, lt[lf.value.id][0], lf.lineno))
                continue
            if not (isinstance(lf, ast.Name) and lf.id in lt):
                continue
            var = lf.id
            cls, nullable, none_init = lt[var]
            ok = reads_in([test], var) or any(reads_in([a.test], var) for a in enclosing.get(id(lf), []))
            if not ok and nullable and st is not None:
                if isinstance(st, ast.IfExp):
                    ok = reads_in([st.orelse if neg else st.body], var)
                elif isinstance(st, (ast.If, ast.While)):
                    taken, other = (st.orelse, st.body) if neg else (st.body, st.orelse)
                    ok = reads_in(taken, var)
                    if not ok and other and isinstance(other[-1], (ast.Return, ast.Continue, ast.Break, ast.Raise)):
                        end = getattr(st, 'end_lineno', st.lineno)
                        ok = any(l > end for l in all_reads[var])
            if ok:
                out.append(('guarded', var, cls, lf.lineno))
            elif none_init:
                out.append(('holder', var, cls, lf.lineno))
            else:
                out.append(('bare', var, cls, lf.lineno))
    return out


_FLAG_CONTROL = '''
def basic_regex_match(self, source):
    relative_match = RegExpUtility.match_end(self.config.strict_relative_regex, source[0:start], True)
    if relative_match:
        start = relative_match.index
    ret.append(Token(start, end))
'''


def rule_flags(chk, idx, W):
    chk.rule('C06.flags', 'a result object that carries a success/matched flag is never itself used as the flag', floor=60, control=True)
    ft = FlagTypes(idx)
    for need in ('ConditionalMatch', 'DateTimeResolutionResult'):
        if need not in ft.flag:
            raise AnalysisError('flag discipline: class %s (with a success field) not found' % need)
    for need in ('match_begin', 'match_end'):
        t = ft.name_type(need)
        if not t or t[0] != 'ConditionalMatch':
            raise AnalysisError('flag discipline: RegExpUtility.%s is no longer recognised as returning ConditionalMatch' % need)
    # CheckBothBeforeAfter evaluated per culture (a use site under that switch is unreachable while it is False everywhere)
    cbba = set()
    ucfgs = {}
    for q in ('base_date.DateTimeUtilityConfiguration', 'utilities.DateTimeUtilityConfiguration'):
        ucfgs.update(W.culture_classes(DT + q))
    for cul, cfg in ucfgs.items():
        try:
            for v in W.resolve(cfg, 'check_both_before_after'):
                cbba.add(v.value)
        except AnalysisError:
            cbba.add(None)
    for m, c, fn in ft.funcs:
        if not m.name.startswith('recognizers_date_time'):
            continue
        uses = flag_uses(ft, fn, c)
        if not uses:
            continue
        qual = '%s.%s' % (c.name, fn.name) if c else fn.name
        # statements guarded by `<x>.check_both_before_after`
        dead = set()
        if cbba == {False}:
            for n in ast.walk(fn):
                if isinstance(n, ast.If) and isinstance(n.test, ast.Attribute) and n.test.attr == 'check_both_before_after':
                    for b in n.body:
                        for x in ast.walk(b):
                            if hasattr(x, 'lineno'):
                                dead.add(x.lineno)
        per = _collections.Counter()
        for kind, var, cls, ln in uses:
            per[(kind, var, cls)] += 1
            n_th = per[(kind, var, cls)]
            cons = '%s::%s' % (qual, var)
            detail = '%s %s#%d' % (cls, {'field': 'flag read', 'guarded': 'None guard, flag read follows',
                                         'holder': 'None guard of a None-initialised holder', 'bare': 'object used as the flag'}[kind], n_th)
            if kind != 'bare':
                chk.ok('C06.flags', m.path, cons, detail, ln)
            elif ln in dead:
                chk.exempt('C06.flags', m.path, cons, 'unreachable: guarded by check_both_before_after, which is False in every culture', detail, ln)
                chk.observe('%s:%d %s: `%s` (a %s) is tested for truthiness instead of .%s - dead code today (CheckBothBeforeAfter is False everywhere)'
                            % (m.rel, ln, qual, var, cls, ft.flag[cls]))
            elif (qual, var) in FLAG_TRIAGED:
                chk.exempt('C06.flags', m.path, cons, FLAG_TRIAGED[(qual, var)], detail, ln)
                chk.observe('%s:%d %s: `%s` (a %s) is tested for truthiness instead of .%s (triaged, see exemption)'
                            % (m.rel, ln, qual, var, cls, ft.flag[cls]))
            else:
                chk.bad('C06.flags', m.path, cons, detail,
                        '%s: `%s` holds a %s (always truthy%s) and is tested as if it were its `.%s` flag; the flag is never read '
                        'at or after this point' % (qual, var, cls, ', or None when nothing matched at all' if cls == 'ConditionalMatch' else '',
                                                    ft.flag[cls]), ln)
    ctl = ast.parse(_FLAG_CONTROL).body[0]
    chk.control('C06.flags', any(u[0] == 'bare' for u in flag_uses(ft, ctl)))
    chk.extra['flag_classes'] = dict(ft.flag)
    chk.extra['flag_producers'] = len(ft.prod)


# ---------------------------------------------------------------------------------------------------------------
# generic rules (lead): cross-cutting necessary conditions scoped to the modules this property is anchored in
# (sa/generic.py: filter predicates depend on their element; regex group names read by the code exist)

def _generic_rules(chk):
    import re as _re_
    from ..index import get_index as _gi
    from ..consteval import Resources as _Res
    from .. import generic as _g
    idx_ = _gi()
    scope = _re_.compile('^(base_)?date(_(?!time|period)|$)')
    flt = lambda name: bool(scope.search(name.rsplit('.', 1)[-1]))
    _g.rule_group_names(chk, idx_, _Res(idx_), 'C06.groups', 'recognizers_date_time', flt, floor=3)
    _g.rule_filter_predicates(chk, idx_, 'C06.filters', 'recognizers_date_time', floor=10)
    _g.rule_index_guards(chk, idx_, 'C06.index-guards', 'recognizers_date_time', floor=9)


_run_before_generic = run


def run(chk):       # noqa: F811
    _run_before_generic(chk)
    _generic_rules(chk)
