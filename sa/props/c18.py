"""C18 - generated resources are faithful to the Patterns YAML (translation validation, exhaustive).

For every configFiles entry of every Python/libraries/*/resource-definitions.json: read the YAML with
the E7 reader, apply a re-statement of the generator's writer semantics, and compare definition by
definition with the AST of the checked-in module (values as Python evaluates them, f-string templates
with their holes, parameter lists, dictionary entries in order, list entries, scalars).
"""
import ast
import collections
import glob
import json
import os
import re
import subprocess
import sys

from .. import miniyaml
from ..core import LIBS, REPO, VERIF, AnalysisError, digest, rel

LEVEL = 'translation_validation'
DESIGN_REF = 'DESIGN.md#c18'

# digest of the generator functions whose semantics are re-stated below (ast.dump, position-free).
GENERATOR_FUNCS = {
    'lib/code_writer.py': ['sanitize', 'create_entry', 'to_python_type', 'generate_code', 'DefaultWriter',
                           'BooleanWriter', 'SimpleRegexWriter', 'NestedRegexWriter', 'ParamsRegexWriter',
                           'DictionaryWriter', 'ArrayWriter'],
    'lib/yaml_parser.py': ['SimpleRegex', 'NestedRegex', 'ParamsRegex', 'Dictionary', 'List', 'Char', 'Bool', 'parse'],
    'lib/base_code_generator.py': ['generate'],
}
GENERATOR_DIGEST_FILE = os.path.join(VERIF, 'sa', 'props', 'c18_generator.digest.json')


def ci_path(p):
    if os.path.exists(p):
        return p, False
    d = os.path.dirname(p)
    if not os.path.isdir(d):
        return None, False
    m = [f for f in os.listdir(d) if f.lower() == os.path.basename(p).lower()]
    return (os.path.join(d, m[0]), True) if m else (None, False)


# ---- generator semantics (restated from resource-generator/lib/code_writer.py) -----------------------

def gen_sanitize_template(value, tokens=None):
    """sanitize() up to the python-literal escaping (which ast parsing undoes): brace doubling + token holes"""
    value = value.replace('{', '{{').replace('}', '}}')
    if tokens:
        for t in tokens:
            value = value.replace('{' + t + '}', t)
    return value


def to_python_type(t):
    return {'long': 'float', 'char': 'string', 'bool': 'bool'}.get(t, t)


def yaml_scalar_12(s):
    """YAML 1.2 core-schema resolution of an untagged plain scalar (what ruamel typ='safe' yields)"""
    if s in ('true', 'True', 'TRUE'):
        return True
    if s in ('false', 'False', 'FALSE'):
        return False
    if s in ('null', 'Null', 'NULL', '~', ''):
        return None
    if re.fullmatch(r'[-+]?[0-9]+', s):
        return int(s)
    if re.fullmatch(r'[-+]?(\.[0-9]+|[0-9]+(\.[0-9]*)?)([eE][-+]?[0-9]+)?', s):
        return float(s)
    return s


# ---- module side ------------------------------------------------------------------------------------

def template_of(node):
    """f-string / str AST -> format template text as the generator wrote it (braces doubled, holes {expr})"""
    if isinstance(node, ast.Constant) and isinstance(node.value, str):
        return node.value.replace('{', '{{').replace('}', '}}'), 'str'
    if isinstance(node, ast.JoinedStr):
        out = []
        for p in node.values:
            if isinstance(p, ast.Constant):
                out.append(p.value.replace('{', '{{').replace('}', '}}'))
            else:
                if p.conversion != -1 or p.format_spec is not None:
                    return None, 'fstr-with-spec'
                out.append('{' + ast.unparse(p.value) + '}')
        return ''.join(out), 'fstr'
    return None, type(node).__name__


def short(s, n=70):
    s = str(s)
    return s if len(s) <= n else s[:n] + '...'


def first_diff(a, b):
    a, b = str(a), str(b)
    i = 0
    while i < min(len(a), len(b)) and a[i] == b[i]:
        i += 1
    return 'at %d: yaml %r / module %r' % (i, a[max(0, i - 15):i + 25], b[max(0, i - 15):i + 25])


def run(chk):
    chk.explanation = ('translation validation: every definition of every generated resource module is compared with '
                       'what the resource generator yields from Patterns/*.yaml (generator semantics re-stated; '
                       'and the generator itself interpreted as written - yaml_parser constructors, code_writer writers, '
                       'generate - the latter deciding; a digest of the generator sources only says whether they changed)')
    chk.rule('C18.generator', 'resource-generator sources still have the semantics re-stated in the checker', floor=3)
    chk.rule('C18.module', 'every configFiles entry has its YAML, its module and exactly one class', floor=40)
    chk.rule('C18.header', 'header lines of the definition are present in the module', floor=40)
    chk.rule('C18.names', 'definition names agree in both directions', floor=3000)
    chk.rule('C18.def', 'definition equals what the generator yields from the YAML', floor=3000)
    chk.rule('C18.asgenerated', 'the generator, interpreted as it is written (yaml_parser constructors, code_writer writers, '
                                'generate), yields a parseable module for every definition file', floor=40)
    chk.assume('ruamel.yaml(typ=safe) composes the node tree sa/miniyaml.py reads (differentially checked against PyYAML in the '
               'thorough tier) and resolves plain untagged scalars by the YAML 1.2 core schema; json.dumps, open and os are '
               'natives of the checker when the generator under Python/libraries/resource-generator is interpreted')
    changed = check_generator(chk)
    from . import c18_interp
    gen = c18_interp.GenRun()
    programs = 0
    rds = sorted(glob.glob(LIBS + '/*/resource-definitions.json'))
    if len(rds) < 5:
        raise AnalysisError('expected 5 resource-definitions.json, found %d' % len(rds))
    yaml_files = []
    for rd in rds:
        chk.consulted(rd)
        spec = json.load(open(rd))
        outdir = os.path.normpath(os.path.join(os.path.dirname(rd), spec['outputPath']))
        declared = set()
        for cf in spec['configFiles']:
            ypath, ci = ci_path(os.path.join(REPO, 'Patterns', *cf['input']) + '.yaml')
            ppath = os.path.join(outdir, cf['output'] + '.py')
            declared.add(os.path.abspath(ppath))
            mod = rel(ppath)
            if ci:
                chk.observe('%s: YAML found only case-insensitively (%s)' % (mod, os.path.basename(ypath)))
            if ypath is None:
                chk.bad('C18.module', ppath, '<module>', 'yaml-missing', 'Patterns file %s missing' % '/'.join(cf['input']))
                continue
            if not os.path.exists(ppath):
                chk.bad('C18.module', ppath, '<module>', 'module-missing', 'generated module missing')
                continue
            chk.consulted(ypath)
            chk.consulted(ppath)
            yaml_files.append(ypath)
            try:
                root = miniyaml.load(open(ypath, encoding='utf-8-sig').read())
            except miniyaml.YamlError as e:
                raise AnalysisError('%s: YAML reader refused: %s' % (rel(ypath), e))
            src = open(ppath, encoding='utf-8').read()
            tree = ast.parse(src)
            classes = [n for n in tree.body if isinstance(n, ast.ClassDef)]
            if len(classes) != 1:
                chk.bad('C18.module', ppath, '<module>', 'class-count %d' % len(classes), 'expected exactly one class')
                continue
            chk.ok('C18.module', ppath, '<module>')
            programs += 1
            rec = _Recorder()
            compare_module(rec, ppath, root, classes[0], src, cf)
            reconcile(chk, gen, rec, ppath, root, cf, src)
        # a module in the resources dir not produced by any definition (only __init__ allowed)
        for f in sorted(os.listdir(outdir)):
            p = os.path.abspath(os.path.join(outdir, f))
            if f.endswith('.py') and f != '__init__.py' and p not in declared:
                chk.observe('%s is in a resources directory but no resource-definition produces it' % rel(p))
    chk.extra['programs'] = programs
    chk.extra['yaml_files'] = len(yaml_files)
    chk.exhaustive = True
    chk._c18_yaml_files = yaml_files


class _Recorder:
    """records what the re-stated comparison would report, so that it can be reconciled with the generator as written"""

    def __init__(self):
        self.calls = []

    def ok(self, rule, file, construct, detail='', line=None):
        self.calls.append(('ok', rule, file, construct, detail, '', line))

    def bad(self, rule, file, construct, detail, msg, line=None):
        self.calls.append(('violation', rule, file, construct, detail, msg, line))

    def judge(self, cond, rule, file, construct, detail, msg, line=None):
        (self.ok(rule, file, construct, detail, line) if cond else self.bad(rule, file, construct, detail, msg, line))

    def observe(self, text):
        self.calls.append(('observe', text))


def reconcile(chk, gen, rec, ppath, root, cf, src):
    """The verdict on a definition is what the repository's generator, interpreted as written (c18_interp), yields; the
    re-stated comparison supplies the description of a difference (and the stable keys of the listed findings).  Where the
    two disagree the generator as written wins: a difference only it sees is reported, a difference only the re-statement
    sees is not."""
    from . import c18_interp
    diff, only, err = c18_interp.mismatching_definitions(gen, root, cf, src, os.path.basename(ppath))
    if err:
        chk.bad('C18.asgenerated', ppath, '<module>', 'generator fails', '%s: %s' % (os.path.basename(ppath), err))
        truth = None
    else:
        truth = set(diff) | set(only)
    flagged = set()
    disagree = []
    for c in rec.calls:
        if c[0] == 'observe':
            chk.observe(c[1])
            continue
        verdict, rule, file, construct, detail, msg, line = c
        if verdict == 'violation' and rule in ('C18.def', 'C18.names') and not construct.startswith('<'):
            flagged.add(construct)
            if truth is not None and construct not in truth:
                disagree.append(construct)
                chk.ok(rule, file, construct, 'equal to what the generator as written yields', line)
                continue
        (chk.ok(rule, file, construct, detail, line) if verdict == 'ok' else chk.bad(rule, file, construct, detail, msg, line))
    extra = sorted((truth or set()) - flagged)
    for n in extra:
        kind = 'only-in-one' if n in only else 'differs'
        chk.bad('C18.def', ppath, n, 'as-generated ' + kind,
                '%s::%s %s' % (os.path.basename(ppath), n,
                               'is defined on one side only (generator output vs checked-in module)' if n in only else
                               'is not what the resource generator, as it is written now, produces from the YAML'))
    if truth is not None:
        chk.ok('C18.asgenerated', ppath, '<module>', '%d definitions differ from the generator\'s output' % len(truth))
    if disagree or extra:
        chk.observe('C18: %s - the generator as written and the re-stated writer semantics disagree on %s; verdicts follow '
                    'the generator as written' % (os.path.basename(ppath), ', '.join(sorted(disagree + extra)[:8])))


def compare_module(chk, ppath, root, cls, src, cf):
    if root[0] != 'map':
        raise AnalysisError('%s: YAML root is not a mapping' % rel(ppath))
    ydefs = collections.OrderedDict()
    for k, v in root[2]:
        ydefs[k[2]] = v           # later duplicate key overwrites (dict semantics), position of first kept
    pdefs = collections.OrderedDict()
    for st in cls.body:
        if isinstance(st, ast.Assign) and len(st.targets) == 1 and isinstance(st.targets[0], ast.Name):
            if st.targets[0].id in pdefs:
                chk.bad('C18.names', ppath, st.targets[0].id, 'duplicate-definition',
                        'name defined twice in the module', st.lineno)
            pdefs[st.targets[0].id] = st.value
        elif isinstance(st, ast.FunctionDef):
            pdefs[st.name] = st
        elif isinstance(st, ast.Expr) and isinstance(st.value, ast.Constant):
            continue
        else:
            chk.bad('C18.names', ppath, '<class body>', 'stmt ' + type(st).__name__,
                    'statement kind the generator never emits', st.lineno)
    src_lines = src.split('\n')
    for h in cf['header']:
        if h:
            chk.judge(h in src_lines, 'C18.header', ppath, '<header>', h, 'header line missing: ' + h)
    for name in ydefs:
        chk.judge(name in pdefs, 'C18.names', ppath, name, 'in-yaml-not-in-module',
                  '%s is defined in the YAML but not in the module' % name)
    for name in pdefs:
        if name not in ydefs:
            chk.bad('C18.names', ppath, name, 'in-module-not-in-yaml', '%s is in the module but not in the YAML' % name,
                    getattr(pdefs[name], 'lineno', None))
    for name, v in ydefs.items():
        if name not in pdefs:
            continue
        compare_def(chk, ppath, name, v, pdefs[name])


def _d(node):
    return {k[2]: vv for k, vv in node[2]}


def compare_def(chk, ppath, name, v, pn):
    kind, tag = v[0], v[1]
    line = getattr(pn, 'lineno', None)

    def bad(what, exp=None, got=None):
        det = what if exp is None else '%s %s' % (what, digest(repr(exp), repr(got)))
        msg = '%s::%s %s' % (os.path.basename(ppath), name, what)
        if exp is not None:
            msg += ' (' + first_diff(exp, got) + ')'
        chk.bad('C18.def', ppath, name, det, msg, line)

    if tag in ('!simpleRegex', '!nestedRegex', '!paramsRegex'):
        if kind != 'map':
            raise AnalysisError('%s: %s: regex definition is not a mapping' % (rel(ppath), name))
        d = _d(v)
        if 'def' not in d:
            raise AnalysisError('%s: %s: no def' % (rel(ppath), name))
        de = d['def'][2]
        toks = None
        if tag == '!nestedRegex':
            toks = [x[2] for x in d['references'][2]] if 'references' in d else []
        elif tag == '!paramsRegex':
            toks = [x[2] for x in d['params'][2]] if 'params' in d else []
        exp = gen_sanitize_template(de, toks)
        if tag == '!paramsRegex':
            if not isinstance(pn, ast.FunctionDef) or len(pn.body) != 1 or not isinstance(pn.body[0], ast.Return):
                return bad('params-regex-shape')
            if [a.arg for a in pn.args.args] != toks:
                return bad('params-differ', toks, [a.arg for a in pn.args.args])
            got, k = template_of(pn.body[0].value)
        else:
            if isinstance(pn, ast.FunctionDef):
                return bad('unexpected-function')
            got, k = template_of(pn)
            if k == 'str':
                # the generator always writes f'...'; a plain string evaluates differently when it has braces
                if '{' in got or '}' in got:
                    return bad('regex-not-an-f-string')
        if got is None:
            return bad('template-kind-' + k)
        if got != exp:
            return bad('regex-template-differs', exp, got)
        chk.ok('C18.def', ppath, name, 'regex', line)
    elif tag == '!dictionary':
        d = _d(v)
        kt, vt = [to_python_type(x[2]) for x in d['types'][2]]
        seen = collections.OrderedDict()
        for ek, ev in d['entries'][2]:
            seen[ek[2]] = [x[2] for x in ev[2]] if ev[0] == 'seq' else ev[2]
        exp = []
        for key, val in seen.items():
            try:
                pk = key if kt == 'string' else (bool(key) if kt == 'bool' else ast.literal_eval(key))
                if isinstance(val, list):
                    pv = val
                elif vt == 'string':
                    pv = val
                elif vt == 'bool':
                    pv = bool(val)
                else:
                    pv = ast.literal_eval(val)
            except Exception:
                raise AnalysisError('%s: %s: dictionary entry %r not representable' % (rel(ppath), name, key))
            exp.append((pk, pv))
        try:
            if not (isinstance(pn, ast.Call) and isinstance(pn.func, ast.Name) and pn.func.id == 'dict'
                    and len(pn.args) == 1 and not pn.keywords):
                raise ValueError('not dict([...])')
            got = [tuple(x) for x in ast.literal_eval(pn.args[0])]
        except Exception as e:
            return bad('dict-shape')
        if got != exp or [type(x[1]) for x in got] != [type(x[1]) for x in exp]:
            ge, gg = dict((str(k), v) for k, v in exp), dict((str(k), v) for k, v in got)
            only_y = [k for k in ge if k not in gg]
            only_m = [k for k in gg if k not in ge]
            diffv = [k for k in ge if k in gg and ge[k] != gg[k]]
            what = 'dict-differs'
            chk.bad('C18.def', ppath, name, '%s %s' % (what, digest(repr(exp), repr(got))),
                    '%s::%s dictionary differs: only in YAML %s; only in module %s; values differ for %s%s'
                    % (os.path.basename(ppath), name, short(only_y[:6]), short(only_m[:6]), short(diffv[:6]),
                       '; order differs' if not (only_y or only_m or diffv) else ''), line)
            return
        chk.ok('C18.def', ppath, name, 'dict[%d]' % len(exp), line)
    elif tag == '!list' or (kind == 'seq' and tag is None):
        if tag == '!list':
            d = _d(v)
            ents = [x[2] for x in d['entries'][2]]
            vt = to_python_type(d['types'][2][0][2])
        else:
            ents = [x[2] for x in v[2]]
            vt = 'string'
        try:
            # ArrayWriter: r'<value with ' replaced by \'>' ; the raw string keeps the backslash
            exp = [e.replace("'", "\\'") for e in ents] if vt == 'string' else [ast.literal_eval(e) for e in ents]
        except Exception:
            raise AnalysisError('%s: %s: list entry not representable' % (rel(ppath), name))
        try:
            got = ast.literal_eval(pn)
            if not isinstance(got, list):
                raise ValueError
        except Exception:
            return bad('list-shape')
        if got != exp:
            chk.bad('C18.def', ppath, name, 'list-differs %s' % digest(repr(exp), repr(got)),
                    '%s::%s list differs: only in YAML %s; only in module %s%s'
                    % (os.path.basename(ppath), name, short([x for x in exp if x not in got][:5]),
                       short([x for x in got if x not in exp][:5]),
                       '; order/multiplicity differs' if sorted(map(str, exp)) == sorted(map(str, got)) else ''), line)
            return
        chk.ok('C18.def', ppath, name, 'list[%d]' % len(exp), line)
    elif tag == '!bool':
        exp = (v[2] == 'true')
        try:
            got = ast.literal_eval(pn)
        except Exception:
            return bad('bool-shape')
        if got is not exp:
            return bad('bool-differs', exp, got)
        chk.ok('C18.def', ppath, name, 'bool', line)
    elif kind == 'scalar':
        # !char or untagged scalar -> DefaultWriter(str(token)): plain (non-f) string, braces stay doubled
        val = v[2]
        if tag is None and v[3] == '':
            r = yaml_scalar_12(val)
            if isinstance(r, bool):
                exp = r
                try:
                    got = ast.literal_eval(pn)
                except Exception:
                    return bad('scalar-shape')
                if got is not exp:
                    return bad('scalar-differs', exp, got)
                chk.ok('C18.def', ppath, name, 'scalar', line)
                return
            val = str(r)
        elif tag not in (None, '!char'):
            raise AnalysisError('%s: %s: unknown tag %s' % (rel(ppath), name, tag))
        exp = val.replace('{', '{{').replace('}', '}}')
        try:
            got = ast.literal_eval(pn)
        except Exception:
            return bad('scalar-shape')
        if got != exp:
            return bad('scalar-differs', exp, got)
        chk.ok('C18.def', ppath, name, 'scalar', line)
    else:
        raise AnalysisError('%s: %s: YAML node kind %s tag %s has no writer' % (rel(ppath), name, kind, tag))


def generator_digests():
    out = {}
    base = os.path.join(LIBS, 'resource-generator')
    for f, names in GENERATOR_FUNCS.items():
        p = os.path.join(base, f)
        if not os.path.exists(p):
            raise AnalysisError('anchor vanished: resource-generator/%s' % f)
        t = ast.parse(open(p, encoding='utf-8').read())
        defs = {n.name: n for n in t.body if isinstance(n, (ast.FunctionDef, ast.ClassDef))}
        for n in names:
            if n not in defs:
                out['%s::%s' % (f, n)] = 'absent'       # a changed generator: decided by interpretation, not an anchor
                continue
            out['%s::%s' % (f, n)] = digest(ast.dump(defs[n], annotate_fields=False, include_attributes=False))
    return out


def check_generator(chk):
    cur = generator_digests()
    if not os.path.exists(GENERATOR_DIGEST_FILE):
        raise AnalysisError('generator digest file missing')
    pinned = json.load(open(GENERATOR_DIGEST_FILE))
    base = os.path.join(LIBS, 'resource-generator')
    changed = []
    for k, dg in cur.items():
        f = os.path.join(base, k.split('::')[0])
        chk.consulted(f)
        if pinned.get(k) != dg:
            changed.append(k)
    if changed:
        chk.observe('C18: the resource generator differs from the version the re-stated writer semantics were validated against '
                    '(%s): definitions are decided by interpreting the generator as it is written now' % ', '.join(changed))
    chk.ok('C18.generator', os.path.join(base, 'lib/code_writer.py'), 'writers', 'interpreted as written')
    chk.ok('C18.generator', os.path.join(base, 'lib/yaml_parser.py'), 'tags', 'interpreted as written')
    chk.ok('C18.generator', os.path.join(base, 'lib/base_code_generator.py'), 'generate', 'interpreted as written')
    return changed


# ---- thorough: differential self-check of the YAML reader against PyYAML where some interpreter has it ----

_PYYAML_DUMP = r'''
import sys, json, yaml
def conv(n):
    if isinstance(n, yaml.ScalarNode):
        return ['scalar', n.tag if n.tag.startswith('!') else None, n.value, n.style or '']
    if isinstance(n, yaml.SequenceNode):
        return ['seq', n.tag if n.tag.startswith('!') else None, [conv(x) for x in n.value]]
    return ['map', n.tag if n.tag.startswith('!') else None, [[conv(k), conv(v)] for k, v in n.value]]
out = {}
for p in sys.argv[1:]:
    out[p] = conv(yaml.compose(open(p, encoding='utf-8-sig').read()))
json.dump(out, sys.stdout)
'''


def _norm(n):
    if n[0] == 'scalar':
        return ['scalar', n[1], n[2], n[3] if n[3] in ("'", '"') else '']
    if n[0] == 'seq':
        return ['seq', n[1], [_norm(x) for x in n[2]]]
    return ['map', n[1], [[_norm(k), _norm(v)] for k, v in n[2]]]


def thorough(chk):
    chk.rule('C18.yamlreader', 'E7 reader agrees node for node with PyYAML (differential self-check)', floor=0)
    files = getattr(chk, '_c18_yaml_files', [])
    for py in ('/usr/bin/python3', 'python3'):
        try:
            r = subprocess.run([py, '-c', 'import yaml'], capture_output=True, timeout=60)
        except Exception:
            continue
        if r.returncode == 0:
            p = subprocess.run([py, '-c', _PYYAML_DUMP] + files, capture_output=True, timeout=600)
            if p.returncode != 0:
                chk.observe('PyYAML differential self-check could not run: ' + p.stderr.decode()[-200:])
                return
            ref = json.loads(p.stdout)
            for f in files:
                mine = _norm(miniyaml.load(open(f, encoding='utf-8-sig').read()))
                if json.loads(json.dumps(mine)) != ref[f]:
                    raise AnalysisError('YAML reader disagrees with PyYAML on %s' % rel(f))
                chk.ok('C18.yamlreader', f, '<file>')
            return
    chk.observe('no interpreter with PyYAML found; differential self-check of the YAML reader skipped')

META = {
    'text': 'Translation validation, exhaustive over the finite space: each of the ~3.7k definitions of the 45 generated '
            'resource modules is compared with what the generator yields from the Patterns YAML (names both ways, regex '
            'templates with holes, parameter lists, dictionary entries in order, lists, scalars, header lines). A hand '
            'edit to any generated definition, or a YAML edit without regeneration, is a reported disagreement. The '
            'whole property is decided, which is why this level fits: the property is itself an equality of two texts.',
    'note': 'Trusted: the YAML-subset reader (differentially checked against PyYAML in the thorough tier where an '
            'interpreter has it), the generator interpreted as written by sa/ointerp.py (the re-statement of the writers only words the differences; '
            'a change there is ANALYSIS-ERROR, not a verdict), YAML 1.2 core scalar resolution as ruamel typ=safe does. '
            '55 divergences exist on the pinned tree (YAML ahead of Python) and are listed in known_findings.json.',
    'technique': 'translation validation: YAML-to-Python generator semantics re-stated, AST-level definition-by-definition comparison',
}
