"""C17 - culture routing and model caching never serve the wrong model.

Decided from the ASTs of recognizers_text/{culture,model,recognizer}.py and of every `Recognizer` subclass:

 (i)   Culture.* codes are distinct lower-case literals; `_get_supported_culture_codes` returns exactly that set
 (ii)  `map_to_nearest_language` agrees with the reference decision table on an exhaustive partition of
       culture strings (evaluated by a whitelisting interpreter over the AST - nothing from /repo is executed)
 (iii) `Recognizer.__init__` stores target_culture / options / a fresh ModelFactory before registering;
       `Recognizer.get_model` forwards model type, mapped culture (own target_culture when None), the caller's
       fallback flag and self.options
 (iv)  `ModelFactory.get_model`: every exit returns a value guarded non-None or raises ValueError; the fallback
       lookup is control dependent on the flag and on the primary miss, and asks for Culture.English
 (v)   CacheKey = (model_type, culture, options) compared on all fields; both cache accessors build the key from
       their three parameters; `try_get_model` uses one triple for lookup, construction and insertion; the cache
       has one writer; `register_model` refuses duplicates
 (vi)  registration tables: name <-> model class is a bijection, names are unique across recognisers, no duplicate
       (name, culture), language of the components, Culture.* literals inside a lambda, options forwarding,
       every getter asks for a name that is registered for English and forwards culture / fallback
 (vii) every recogniser validates `options` (raise ValueError) before `super().__init__`, forwards its three
       parameters; the public recognize_* helpers forward culture / options / fallback / query (/ reference)

Helper machinery in this module (Interp, PathEnum, registrations(), getter evaluation) is shared with C19.
"""
import ast
import copy

from ..core import AnalysisError
from ..index import get_index

LEVEL = 'other'
DESIGN_REF = 'DESIGN.md#c17'
META = {
    'text': 'culture table, culture mapping decision table, routing CFG of Recognizer.get_model / ModelFactory.get_model, '
            'cache key and its single writer, registration tables of all Recognizer subclasses wired to their language, '
            'option validation and forwarding (structural clauses only)',
    'note': 'Not decided: that the model built for a culture behaves like that culture (C19 / execution); '
            'initialize_models\' identity comparison of culture strings (eager initialisation only); thread safety of the '
            'process-wide cache; hash-only weakening of a hand-written CacheKey.__hash__ (performance, not routing). '
            'map_to_nearest_language is decided on a finite partition of inputs (every supported code in three letter '
            'cases, one regional variant per language prefix, an unknown language, falsy inputs, every literal the function '
            'mentions); data independence beyond that partition rests on the interpreter whitelist.',
    'technique': 'ast path enumeration with symbolic substitution (roles of parameters inferred bottom-up from CacheKey), '
                 'whitelisting AST interpreter on a finite input partition, table agreement over register_model calls',
}

# culture members whose language differs from the member name (accepted by table, see DESIGN C17 vi)
LANGUAGE_OF_MEMBER = {'SpanishMexican': 'Spanish', 'EnglishOthers': 'English'}
# getter overrides "culture starts with <prefix> -> Culture.<member>" that are cross-platform behaviour
# (.NET / JavaScript / Java SequenceRecognizer route ja-* to the Chinese phone/ip/url configuration)
ACCEPTED_ROUTES = {('ja', 'Chinese')}

TEXT = 'recognizers_text'


# =====================================================================================================
# small AST helpers
# =====================================================================================================

def dump(e):
    return ast.dump(e) if isinstance(e, ast.AST) else repr(e)


def is_static(fn):
    return any(isinstance(d, ast.Name) and d.id == 'staticmethod' for d in fn.decorator_list)


def params_of(fn, method=True):
    a = fn.args
    names = [x.arg for x in a.posonlyargs + a.args]
    if method and not is_static(fn) and names:
        names = names[1:]
    return names


def defaults_of(fn, method=True):
    """param name -> default expr (positional and keyword-only)"""
    a = fn.args
    pos = a.posonlyargs + a.args
    out = {}
    for p, d in zip(pos[len(pos) - len(a.defaults):], a.defaults):
        out[p.arg] = d
    for p, d in zip(a.kwonlyargs, a.kw_defaults):
        if d is not None:
            out[p.arg] = d
    return out


def bind_call(call, callee, what, method=True):
    """map callee parameter name -> argument expression of `call` (no *args / **kwargs)"""
    if any(isinstance(x, ast.Starred) for x in call.args) or any(k.arg is None for k in call.keywords):
        raise AnalysisError('%s: call with * / ** arguments is not understood' % what)
    if callee.args.vararg or callee.args.kwarg:
        raise AnalysisError('%s: callee %s takes * / ** parameters' % (what, callee.name))
    names = params_of(callee, method)
    out = {}
    if len(call.args) > len(names):
        raise AnalysisError('%s: %d positional arguments for %s(%s)' % (what, len(call.args), callee.name, ', '.join(names)))
    for n, a in zip(names, call.args):
        out[n] = a
    allowed = set(names) | {x.arg for x in callee.args.kwonlyargs}
    for k in call.keywords:
        if k.arg not in allowed or k.arg in out:
            raise AnalysisError('%s: keyword %s does not bind to %s(%s)' % (what, k.arg, callee.name, ', '.join(names)))
        out[k.arg] = k.value
    return out


def self_attr(e, name=None):
    return (isinstance(e, ast.Attribute) and isinstance(e.value, ast.Name) and e.value.id == 'self'
            and (name is None or e.attr == name))


def is_none(e):
    return isinstance(e, ast.Constant) and e.value is None


def names_in(e):
    return {n.id for n in ast.walk(e) if isinstance(n, ast.Name)}


def source_order(node):
    """pre-order, source-order traversal (ast.walk is breadth first)"""
    yield node
    for ch in ast.iter_child_nodes(node):
        yield from source_order(ch)


# =====================================================================================================
# symbolic path enumeration (if / return / raise / assign / expr; no loops, no try)
# =====================================================================================================

SYM = '§'


class Path:
    def __init__(self, events, exit_, syms):
        self.events = events          # ('cond', test, pol, line) | ('store', target, value, line) | ('expr', expr, line)
        self.exit = exit_             # ('return', expr|None, line) | ('raise', expr|None, line) | ('fall', None, line)
        self.syms = syms
        self.facts = set()
        for ev in events:
            if ev[0] == 'cond':
                for atom, pol in flatten(ev[1], ev[2]):
                    self.facts.add((dump(atom), pol))

    def holds(self, atom, pol=True):
        return (dump(atom), pol) in self.facts

    def expand(self, e):
        return expand(e, self.syms)

    def show(self, e):
        return 'None' if e is None else ast.unparse(self.expand(e))

    def index_of(self, pred):
        for i, ev in enumerate(self.events):
            if pred(ev):
                return i
        return None


def flatten(test, pol):
    """literals implied by `test` having truth value `pol`; comparisons normalised to positive operators"""
    if isinstance(test, ast.UnaryOp) and isinstance(test.op, ast.Not):
        yield from flatten(test.operand, not pol)
        return
    if isinstance(test, ast.BoolOp):
        if (isinstance(test.op, ast.And) and pol) or (isinstance(test.op, ast.Or) and not pol):
            for v in test.values:
                yield from flatten(v, pol)
            return
    if isinstance(test, ast.Compare) and len(test.ops) == 1:
        flip = {ast.IsNot: ast.Is, ast.NotEq: ast.Eq, ast.NotIn: ast.In}
        for neg, posop in flip.items():
            if isinstance(test.ops[0], neg):
                yield ast.Compare(left=test.left, ops=[posop()], comparators=test.comparators), not pol
                return
    yield test, pol


def expand(e, syms):
    class X(ast.NodeTransformer):
        def visit_Name(self, n):
            if n.id.startswith(SYM):
                return self.visit(copy.deepcopy(syms[n.id]))
            return n
    return X().visit(copy.deepcopy(e))


def _trivial(e):
    while isinstance(e, ast.Attribute):
        e = e.value
    return isinstance(e, (ast.Name, ast.Constant))


class PathEnum:
    LIMIT = 400

    def __init__(self, fn, what):
        self.fn = fn
        self.what = what
        self.syms = {}
        self._n = 0
        self.paths = []
        body = list(fn.body)
        if body and isinstance(body[0], ast.Expr) and isinstance(body[0].value, ast.Constant) \
                and isinstance(body[0].value.value, str):
            body = body[1:]
        for env, events, ex in self._exec(body, {}, []):
            if ex is None:
                ex = ('fall', None, fn.body[-1].lineno)
            self.paths.append(Path(events, ex, self.syms))
            if len(self.paths) > self.LIMIT:
                raise AnalysisError('%s: more than %d paths' % (what, self.LIMIT))

    def _subst(self, e, env):
        bound = set()
        for n in ast.walk(e):
            if isinstance(n, ast.comprehension):
                bound |= names_in(n.target)
            elif isinstance(n, ast.Lambda):
                bound |= {a.arg for a in n.args.args}

        class S(ast.NodeTransformer):
            def visit_Name(self, n):
                if isinstance(n.ctx, ast.Load) and n.id in env and n.id not in bound:
                    return copy.deepcopy(env[n.id])
                return n
        return S().visit(copy.deepcopy(e))

    def _alternatives(self, e, depth=0):
        """[(conditions, expression)] with every conditional expression (outside lambdas / comprehensions) resolved to
        one of its branches; conditions = [(test, polarity)] in evaluation order"""
        target = []

        def find(n):
            if target or isinstance(n, (ast.Lambda, ast.ListComp, ast.SetComp, ast.DictComp, ast.GeneratorExp)):
                return
            if isinstance(n, ast.IfExp):
                target.append(n)
                return
            for ch in ast.iter_child_nodes(n):
                find(ch)
        find(e)
        if not target or depth > 6:
            return [([], e)]
        node = target[0]

        def replace(n, branch):
            if n is node:
                return copy.deepcopy(branch)
            n2 = copy.copy(n)
            for field, val in ast.iter_fields(n):
                if isinstance(val, ast.AST):
                    setattr(n2, field, replace(val, branch))
                elif isinstance(val, list):
                    setattr(n2, field, [replace(x, branch) if isinstance(x, ast.AST) else x for x in val])
            return n2
        out = []
        for pol, branch in ((True, node.body), (False, node.orelse)):
            for conds, v in self._alternatives(replace(e, branch), depth + 1):
                out.append(([(node.test, pol)] + conds, v))
        return out

    def _bind(self, env, name, value):
        if _trivial(value):
            env[name] = value
        else:
            self._n += 1
            k = '%s%d' % (SYM, self._n)
            self.syms[k] = value
            env[name] = ast.Name(id=k, ctx=ast.Load())

    def _exec(self, stmts, env, events):
        if not stmts:
            yield env, events, None
            return
        st, rest = stmts[0], stmts[1:]
        line = st.lineno
        if isinstance(st, ast.If):
            test = self._subst(st.test, env)
            for branch, pol in ((st.body, True), (st.orelse, False)):
                ev = events + [('cond', test, pol, line)]
                for e2, ev2, ex in self._exec(list(branch), dict(env), ev):
                    if ex is not None:
                        yield e2, ev2, ex
                    else:
                        yield from self._exec(rest, e2, ev2)
            return
        if isinstance(st, ast.Return):
            if st.value is None:
                yield env, events, ('return', None, line)
                return
            for conds, v in self._alternatives(self._subst(st.value, env)):
                yield env, events + [('cond', t, pol, line) for t, pol in conds], ('return', v, line)
            return
        if isinstance(st, ast.Raise):
            yield env, events, ('raise', None if st.exc is None else self._subst(st.exc, env), line)
            return
        if isinstance(st, ast.Pass):
            yield from self._exec(rest, env, events)
            return
        if isinstance(st, ast.Expr):
            for conds, v in self._alternatives(self._subst(st.value, env)):
                yield from self._exec(rest, env, events + [('cond', t, pol, line) for t, pol in conds] + [('expr', v, line)])
            return
        if isinstance(st, (ast.Assign, ast.AnnAssign)):
            if isinstance(st, ast.AnnAssign):
                if st.value is None:
                    yield from self._exec(rest, env, events)
                    return
                targets = [st.target]
            else:
                targets = st.targets
            alts = self._alternatives(self._subst(st.value, env))
            if len(alts) > 1:
                # `x = a if t else b` is the statement `if t: x = a else: x = b`
                for conds, v in alts:
                    st2 = copy.copy(st)
                    st2.value = v
                    yield from self._exec([st2] + rest, env, events + [('cond', t, pol, line) for t, pol in conds])
                return
            value = alts[0][1]
            env = dict(env)
            events = list(events)
            for t in targets:
                if isinstance(t, ast.Name):
                    self._bind(env, t.id, value)
                    value = env[t.id]
                    if isinstance(value, ast.Name) and value.id.startswith(SYM) and \
                            not any(ev[0] == 'bind' and ev[1] == value.id for ev in events):
                        events.append(('bind', value.id, line))
                elif isinstance(t, (ast.Subscript, ast.Attribute)):
                    events.append(('store', self._subst(t, env), value, line))
                else:
                    raise AnalysisError('%s:%d assignment target %s is not understood' % (self.what, line, type(t).__name__))
            yield from self._exec(rest, env, events)
            return
        raise AnalysisError('%s:%d statement %s is not understood by the path enumerator'
                            % (self.what, line, type(st).__name__))


def non_none_on(path, value):
    """is `value` known to be not None on `path` (explicit None test or truthiness)?"""
    if value is None or is_none(value):
        return False
    if isinstance(value, ast.Constant):
        return True
    isnone = ast.Compare(left=value, ops=[ast.Is()], comparators=[ast.Constant(value=None)])
    eqnone = ast.Compare(left=value, ops=[ast.Eq()], comparators=[ast.Constant(value=None)])
    return path.holds(isnone, False) or path.holds(eqnone, False) or path.holds(value, True)


def flag_true_on(path, flag):
    t = ast.Constant(value=True)
    return (path.holds(ast.Compare(left=flag, ops=[ast.Is()], comparators=[t]), True)
            or path.holds(ast.Compare(left=flag, ops=[ast.Eq()], comparators=[t]), True)
            or path.holds(flag, True))


def none_on(path, value):
    n = ast.Constant(value=None)
    return (path.holds(ast.Compare(left=value, ops=[ast.Is()], comparators=[n]), True)
            or path.holds(ast.Compare(left=value, ops=[ast.Eq()], comparators=[n]), True)
            or path.holds(value, False))


def is_value_error(exc):
    if exc is None:
        return False
    if isinstance(exc, ast.Call):
        exc = exc.func
    return isinstance(exc, ast.Name) and exc.id == 'ValueError'


# =====================================================================================================
# whitelisting interpreter over function ASTs (concrete values; fails closed on anything else)
# =====================================================================================================

class Crash(Exception):
    """the interpreted code would raise"""

    def __init__(self, kind, msg=''):
        Exception.__init__(self, '%s: %s' % (kind, msg))
        self.kind = kind
        self.msg = msg


class _Ret(Exception):
    def __init__(self, v):
        self.v = v


class _Brk(Exception):
    pass


class _Cont(Exception):
    pass


class ClassVal:
    def __init__(self, cls):
        self.cls = cls

    def __repr__(self):
        return '<class %s>' % self.cls.qual


class InstVal:
    def __init__(self, cls, args, kwargs):
        self.cls = cls
        self.args = args
        self.kwargs = kwargs

    def __repr__(self):
        return '<%s instance>' % self.cls.name


class FuncVal:
    def __init__(self, mod, node, cls=None):
        self.mod = mod
        self.node = node
        self.cls = cls


class Opaque:
    def __init__(self, tag):
        self.tag = tag

    def __repr__(self):
        return '<opaque %s>' % self.tag


class SelfVal:
    """receiver object with hooked methods and given attributes"""

    def __init__(self, attrs=None, methods=None):
        self.attrs = attrs or {}
        self.methods = methods or {}


class Hook:
    def __init__(self, fn):
        self.fn = fn


STR_METHODS = {'lower', 'upper', 'strip', 'lstrip', 'rstrip', 'split', 'rsplit', 'startswith', 'endswith', 'replace',
               'find', 'rfind', 'index', 'count', 'casefold', 'title', 'capitalize', 'partition', 'rpartition', 'join',
               'isalpha', 'isdigit', 'isupper', 'islower', 'swapcase', 'format'}
LIST_METHODS = {'append', 'extend', 'insert', 'pop', 'index', 'count', 'copy', 'remove', 'reverse', 'sort'}
DICT_METHODS = {'get', 'keys', 'values', 'items'}
BUILTINS = {'len': len, 'list': list, 'tuple': tuple, 'set': set, 'sorted': sorted, 'any': any, 'all': all, 'str': str,
            'bool': bool, 'min': min, 'max': max, 'int': int, 'enumerate': lambda x: list(enumerate(x)),
            'reversed': lambda x: list(reversed(x)), 'next': next, 'iter': iter, 'zip': lambda *a: list(zip(*a))}
PLAIN = (str, int, bool, type(None), float)


class Interp:
    def __init__(self, idx, hooks=None, on_instantiate=None, budget=200000):
        self.idx = idx
        self.hooks = hooks or {}
        self.on_instantiate = on_instantiate
        self.budget = budget
        self._attr_cache = {}
        self._depth = 0

    # ---- entry
    def call(self, mod, fn, args, kwargs=None, cls=None, what=None):
        what = what or fn.name
        a = fn.args
        if a.vararg or a.kwarg:
            raise AnalysisError('%s: * / ** parameters are not interpreted' % what)
        names = [x.arg for x in a.posonlyargs + a.args]
        if len(args) > len(names):
            raise Crash('TypeError', '%s() takes %d positional arguments but %d were given' % (fn.name, len(names), len(args)))
        env = dict(zip(names, args))
        kwargs = kwargs or {}
        for k, v in kwargs.items():
            if k in env or k not in names + [x.arg for x in a.kwonlyargs]:
                raise Crash('TypeError', '%s() got an unexpected keyword %s' % (fn.name, k))
            env[k] = v
        dflt = {}
        pos = a.posonlyargs + a.args
        for p, d in zip(pos[len(pos) - len(a.defaults):], a.defaults):
            dflt[p.arg] = d
        for p, d in zip(a.kwonlyargs, a.kw_defaults):
            if d is not None:
                dflt[p.arg] = d
        for n in names + [x.arg for x in a.kwonlyargs]:
            if n not in env:
                if n in dflt:
                    env[n] = self.ev(dflt[n], {}, mod, cls, what)
                else:
                    raise Crash('TypeError', '%s() missing argument %s' % (fn.name, n))
        self._depth += 1
        if self._depth > 30:
            raise AnalysisError('%s: interpretation too deep' % what)
        try:
            self.block(fn.body, env, mod, cls, what)
        except _Ret as r:
            return r.v
        finally:
            self._depth -= 1
        return None

    def _tick(self, what):
        self.budget -= 1
        if self.budget < 0:
            raise AnalysisError('%s: interpretation budget exhausted' % what)

    # ---- statements
    def block(self, stmts, env, mod, cls, what):
        for st in stmts:
            self.stmt(st, env, mod, cls, what)

    def stmt(self, st, env, mod, cls, what):
        self._tick(what)
        w = '%s:%d' % (what, st.lineno)
        if isinstance(st, ast.Expr):
            self.ev(st.value, env, mod, cls, w)
        elif isinstance(st, ast.Assign):
            v = self.ev(st.value, env, mod, cls, w)
            for t in st.targets:
                self.assign(t, v, env, mod, cls, w)
        elif isinstance(st, ast.AnnAssign):
            if st.value is not None:
                self.assign(st.target, self.ev(st.value, env, mod, cls, w), env, mod, cls, w)
        elif isinstance(st, ast.AugAssign):
            if not isinstance(st.target, ast.Name):
                raise AnalysisError('%s: augmented assignment to %s not interpreted' % (w, type(st.target).__name__))
            cur = self.ev(ast.Name(id=st.target.id, ctx=ast.Load()), env, mod, cls, w)
            env[st.target.id] = self.binop(st.op, cur, self.ev(st.value, env, mod, cls, w), w)
        elif isinstance(st, ast.If):
            self.block(st.body if self.truth(self.ev(st.test, env, mod, cls, w), w) else st.orelse, env, mod, cls, what)
        elif isinstance(st, ast.For):
            seq = self.ev(st.iter, env, mod, cls, w)
            if not isinstance(seq, (list, tuple, str, set, dict)):
                raise AnalysisError('%s: iteration over %r not interpreted' % (w, seq))
            broke = False
            for item in list(seq):
                self.assign(st.target, item, env, mod, cls, w)
                try:
                    self.block(st.body, env, mod, cls, what)
                except _Brk:
                    broke = True
                    break
                except _Cont:
                    continue
            if not broke:
                self.block(st.orelse, env, mod, cls, what)
        elif isinstance(st, ast.Return):
            raise _Ret(None if st.value is None else self.ev(st.value, env, mod, cls, w))
        elif isinstance(st, ast.Pass):
            pass
        elif isinstance(st, ast.Break):
            raise _Brk()
        elif isinstance(st, ast.Continue):
            raise _Cont()
        elif isinstance(st, ast.Raise):
            name = '?'
            e = st.exc.func if isinstance(st.exc, ast.Call) else st.exc
            if isinstance(e, ast.Name):
                name = e.id
            raise Crash(name, 'raised at %s' % w)
        else:
            raise AnalysisError('%s: statement %s is not interpreted' % (w, type(st).__name__))

    def assign(self, t, v, env, mod, cls, w):
        if isinstance(t, ast.Name):
            env[t.id] = v
        elif isinstance(t, (ast.Tuple, ast.List)):
            if not isinstance(v, (list, tuple)) or len(v) != len(t.elts):
                raise AnalysisError('%s: unpacking not interpreted' % w)
            for tt, vv in zip(t.elts, v):
                self.assign(tt, vv, env, mod, cls, w)
        elif isinstance(t, ast.Subscript):
            obj = self.ev(t.value, env, mod, cls, w)
            k = self.ev(t.slice, env, mod, cls, w)
            if not isinstance(obj, (list, dict)):
                raise AnalysisError('%s: subscript store on %r not interpreted' % (w, obj))
            try:
                obj[k] = v
            except (IndexError, TypeError, KeyError) as e:
                raise Crash(type(e).__name__, str(e))
        else:
            raise AnalysisError('%s: assignment target %s not interpreted' % (w, type(t).__name__))

    # ---- values
    def truth(self, v, w):
        if isinstance(v, PLAIN) or isinstance(v, (list, tuple, set, dict)):
            return bool(v)
        if isinstance(v, (ClassVal, InstVal, FuncVal, Hook)):
            return True
        raise AnalysisError('%s: truth value of %r unknown' % (w, v))

    def binop(self, op, a, b, w):
        ok = (isinstance(a, str) and isinstance(b, str)) or (isinstance(a, (int, float)) and isinstance(b, (int, float))) \
            or (isinstance(a, list) and isinstance(b, list))
        try:
            if isinstance(op, ast.Add) and ok:
                return a + b
            if isinstance(a, (int, float)) and isinstance(b, (int, float)):
                if isinstance(op, ast.Sub):
                    return a - b
                if isinstance(op, ast.Mult):
                    return a * b
                if isinstance(a, int) and isinstance(b, int):
                    if isinstance(op, ast.BitAnd):
                        return a & b
                    if isinstance(op, ast.BitOr):
                        return a | b
                    if isinstance(op, ast.BitXor):
                        return a ^ b
                    if isinstance(op, ast.LShift) and 0 <= b <= 64:
                        return a << b
                    if isinstance(op, ast.RShift) and 0 <= b <= 64:
                        return a >> b
                    if isinstance(op, ast.Pow) and 0 <= b <= 64:
                        return a ** b
                    if isinstance(op, ast.FloorDiv):
                        return a // b
                    if isinstance(op, ast.Mod):
                        return a % b
        except ZeroDivisionError as e:
            raise Crash('ZeroDivisionError', str(e))
        raise AnalysisError('%s: operator %s on %r, %r not interpreted' % (w, type(op).__name__, a, b))

    def class_attr(self, cv, name, w):
        k, node = self.idx.class_attr(cv.cls, name)
        if node is not None:
            key = (k.qual, name)
            if key not in self._attr_cache:
                self._attr_cache[key] = None
                self._attr_cache[key] = self.ev(node, {}, k.mod, k, '%s.%s' % (k.name, name))
            return self._attr_cache[key]
        k, fn = self.idx.find_method(cv.cls, name)
        if fn is not None:
            return FuncVal(k.mod, fn, k)
        raise Crash('AttributeError', 'type object %s has no attribute %s' % (cv.cls.name, name))

    def global_name(self, name, mod, cls, w):
        if name in self.hooks:
            return Hook(self.hooks[name])
        if cls is not None and name in cls.attrs:      # class-body scope while evaluating a class attribute
            return self.class_attr(ClassVal(cls), name, w)
        r = self.idx.resolve(mod, name)
        if r is not None:
            if r[0] == 'class':
                return ClassVal(r[1])
            if r[0] == 'func':
                return FuncVal(r[1], r[2])
            if r[0] == 'const':
                return self.ev(r[2], {}, r[1], None, '%s.%s' % (r[1].name, name))
            if r[0] == 'module':
                return Opaque('module ' + r[1].name)
        tree = getattr(mod, 'tree', None)
        if tree is not None:
            for st in tree.body:
                if isinstance(st, ast.AnnAssign) and isinstance(st.target, ast.Name) and st.target.id == name and st.value is not None:
                    return self.ev(st.value, {}, mod, None, '%s.%s' % (mod.name, name))
        if name in BUILTINS:
            return Hook(lambda args, kwargs, f=BUILTINS[name]: f(*args, **kwargs))
        raise AnalysisError('%s: name %s cannot be resolved' % (w, name))

    def ev(self, e, env, mod, cls, w):
        self._tick(w)
        if isinstance(e, ast.Constant):
            return e.value
        if isinstance(e, ast.Name):
            if e.id in env:
                return env[e.id]
            return self.global_name(e.id, mod, cls, w)
        if isinstance(e, ast.Attribute):
            obj = self.ev(e.value, env, mod, cls, w)
            return self.getattr(obj, e.attr, w)
        if isinstance(e, ast.Call):
            return self.ev_call(e, env, mod, cls, w)
        if isinstance(e, ast.BoolOp):
            v = None
            for x in e.values:
                v = self.ev(x, env, mod, cls, w)
                t = self.truth(v, w)
                if isinstance(e.op, ast.And) and not t:
                    return v
                if isinstance(e.op, ast.Or) and t:
                    return v
            return v
        if isinstance(e, ast.UnaryOp):
            v = self.ev(e.operand, env, mod, cls, w)
            if isinstance(e.op, ast.Not):
                return not self.truth(v, w)
            if isinstance(e.op, ast.USub) and isinstance(v, (int, float)):
                return -v
            if isinstance(e.op, ast.Invert) and isinstance(v, int):
                return ~v
            raise AnalysisError('%s: unary %s not interpreted' % (w, type(e.op).__name__))
        if isinstance(e, ast.BinOp):
            return self.binop(e.op, self.ev(e.left, env, mod, cls, w), self.ev(e.right, env, mod, cls, w), w)
        if isinstance(e, ast.Compare):
            left = self.ev(e.left, env, mod, cls, w)
            for op, r in zip(e.ops, e.comparators):
                right = self.ev(r, env, mod, cls, w)
                if not self.compare(op, left, right, w):
                    return False
                left = right
            return True
        if isinstance(e, ast.IfExp):
            return self.ev(e.body if self.truth(self.ev(e.test, env, mod, cls, w), w) else e.orelse, env, mod, cls, w)
        if isinstance(e, (ast.List, ast.Tuple, ast.Set)):
            vals = [self.ev(x, env, mod, cls, w) for x in e.elts]
            return vals if isinstance(e, ast.List) else tuple(vals) if isinstance(e, ast.Tuple) else set(vals)
        if isinstance(e, ast.Dict):
            if any(k is None for k in e.keys):
                raise AnalysisError('%s: dict unpacking not interpreted' % w)
            return {self.ev(k, env, mod, cls, w): self.ev(v, env, mod, cls, w) for k, v in zip(e.keys, e.values)}
        if isinstance(e, ast.Subscript):
            obj = self.ev(e.value, env, mod, cls, w)
            if isinstance(e.slice, ast.Slice):
                lo = None if e.slice.lower is None else self.ev(e.slice.lower, env, mod, cls, w)
                hi = None if e.slice.upper is None else self.ev(e.slice.upper, env, mod, cls, w)
                st = None if e.slice.step is None else self.ev(e.slice.step, env, mod, cls, w)
                if isinstance(obj, (str, list, tuple)):
                    return obj[lo:hi:st]
                raise AnalysisError('%s: slice of %r not interpreted' % (w, obj))
            k = self.ev(e.slice, env, mod, cls, w)
            if isinstance(obj, (str, list, tuple, dict)):
                try:
                    return obj[k]
                except (IndexError, KeyError, TypeError) as ex:
                    raise Crash(type(ex).__name__, str(ex))
            raise AnalysisError('%s: subscript of %r not interpreted' % (w, obj))
        if isinstance(e, (ast.ListComp, ast.SetComp, ast.GeneratorExp)):
            out = []
            self.comp(e.generators, 0, dict(env), lambda en: out.append(self.ev(e.elt, en, mod, cls, w)), mod, cls, w)
            return set(out) if isinstance(e, ast.SetComp) else out
        if isinstance(e, ast.JoinedStr):
            parts = []
            for p in e.values:
                if isinstance(p, ast.Constant):
                    parts.append(p.value)
                else:
                    v = self.ev(p.value, env, mod, cls, w)
                    if p.conversion != -1 or p.format_spec is not None or not isinstance(v, (str, int)):
                        raise AnalysisError('%s: f-string part not interpreted' % w)
                    parts.append(str(v))
            return ''.join(parts)
        raise AnalysisError('%s: expression %s is not interpreted' % (w, type(e).__name__))

    def comp(self, gens, i, env, emit, mod, cls, w):
        if i == len(gens):
            emit(env)
            return
        g = gens[i]
        seq = self.ev(g.iter, env, mod, cls, w)
        if not isinstance(seq, (list, tuple, str, set, dict)):
            raise AnalysisError('%s: comprehension over %r not interpreted' % (w, seq))
        for item in list(seq):
            self.assign(g.target, item, env, mod, cls, w)
            if all(self.truth(self.ev(c, env, mod, cls, w), w) for c in g.ifs):
                self.comp(gens, i + 1, env, emit, mod, cls, w)

    def compare(self, op, a, b, w):
        if isinstance(op, (ast.Is, ast.IsNot)):
            if a is None or b is None or isinstance(a, bool) or isinstance(b, bool):
                r = a is b
            elif isinstance(a, (ClassVal, InstVal, Opaque)) or isinstance(b, (ClassVal, InstVal, Opaque)):
                r = a is b
            else:
                raise AnalysisError('%s: identity comparison of %r and %r not interpreted' % (w, a, b))
            return r if isinstance(op, ast.Is) else not r
        if isinstance(op, (ast.Eq, ast.NotEq)):
            if isinstance(a, Opaque) or isinstance(b, Opaque):
                r = a is b
            elif isinstance(a, ClassVal) and isinstance(b, ClassVal):
                r = a.cls is b.cls
            else:
                r = a == b
            return r if isinstance(op, ast.Eq) else not r
        if isinstance(op, (ast.In, ast.NotIn)):
            if not isinstance(b, (str, list, tuple, set, dict)) or (isinstance(b, str) and not isinstance(a, str)):
                if isinstance(b, str):
                    raise Crash('TypeError', "'in <string>' requires string as left operand")
                raise AnalysisError('%s: membership in %r not interpreted' % (w, b))
            r = a in b
            return r if isinstance(op, ast.In) else not r
        num = (int, float)
        if (isinstance(a, num) and isinstance(b, num)) or (isinstance(a, str) and isinstance(b, str)):
            if isinstance(op, ast.Lt):
                return a < b
            if isinstance(op, ast.LtE):
                return a <= b
            if isinstance(op, ast.Gt):
                return a > b
            if isinstance(op, ast.GtE):
                return a >= b
        raise AnalysisError('%s: comparison %s of %r and %r not interpreted' % (w, type(op).__name__, a, b))

    def getattr(self, obj, name, w):
        if isinstance(obj, SelfVal):
            if name in obj.methods:
                return Hook(obj.methods[name])
            if name in obj.attrs:
                return obj.attrs[name]
            raise AnalysisError('%s: self.%s is not modelled' % (w, name))
        if isinstance(obj, ClassVal):
            return self.class_attr(obj, name, w)
        if isinstance(obj, str) and name in STR_METHODS:
            return Hook(lambda args, kwargs, f=getattr(obj, name): self._plain_call(f, args, kwargs, w))
        if isinstance(obj, list) and name in LIST_METHODS:
            return Hook(lambda args, kwargs, f=getattr(obj, name): self._plain_call(f, args, kwargs, w))
        if isinstance(obj, dict) and name in DICT_METHODS:
            return Hook(lambda args, kwargs, f=getattr(obj, name): self._plain_call(f, args, kwargs, w, listify=True))
        if obj is None:
            raise Crash('AttributeError', "'NoneType' object has no attribute '%s'" % name)
        if isinstance(obj, (str, list, dict, int, tuple, set)):
            raise AnalysisError('%s: method %s of %s is not on the whitelist' % (w, name, type(obj).__name__))
        raise AnalysisError('%s: attribute %s of %r not interpreted' % (w, name, obj))

    def _plain_call(self, f, args, kwargs, w, listify=False):
        try:
            r = f(*args, **kwargs)
        except (TypeError, ValueError, IndexError, KeyError, AttributeError) as e:
            raise Crash(type(e).__name__, str(e))
        return list(r) if listify and not isinstance(r, PLAIN) and not isinstance(r, (ClassVal, InstVal)) else r

    def ev_call(self, e, env, mod, cls, w):
        if any(isinstance(a, ast.Starred) for a in e.args) or any(k.arg is None for k in e.keywords):
            raise AnalysisError('%s: * / ** call not interpreted' % w)
        f = self.ev(e.func, env, mod, cls, w)
        args = [self.ev(a, env, mod, cls, w) for a in e.args]
        kwargs = {k.arg: self.ev(k.value, env, mod, cls, w) for k in e.keywords}
        if isinstance(f, Hook):
            try:
                return f.fn(args, kwargs)
            except (TypeError, ValueError) as ex:
                raise Crash(type(ex).__name__, str(ex))
        if isinstance(f, FuncVal):
            if f.cls is not None and not is_static(f.node):
                raise AnalysisError('%s: call of non-static method %s.%s not interpreted' % (w, f.cls.name, f.node.name))
            return self.call(f.mod, f.node, args, kwargs, None, '%s>%s' % (w, f.node.name))
        if isinstance(f, ClassVal):
            if self.on_instantiate:
                self.on_instantiate(f.cls, args, kwargs, w)
            return InstVal(f.cls, args, kwargs)
        if f is None:
            raise Crash('TypeError', "'NoneType' object is not callable (%s)" % ast.unparse(e.func))
        raise AnalysisError('%s: call of %r not interpreted' % (w, f))


# =====================================================================================================
# anchors, parameter roles and the routing core (shared with C19)
# =====================================================================================================

def role_of_field(name):
    n = name.lower().replace('_', '')
    if 'cult' in n or 'lang' in n or 'locale' in n:
        return 'culture'
    if 'opt' in n:
        return 'options'
    if 'type' in n or 'name' in n or 'model' in n:
        return 'model_type'
    return None


def path_nodes(path):
    """every expression evaluated on a path exactly once: event expressions, the exit expression and the
    symbols they reach"""
    seen = set()
    todo = []
    for ev in path.events:
        if ev[0] == 'cond':
            todo.append(ev[1])
        elif ev[0] == 'store':
            todo.extend([ev[1], ev[2]])
        elif ev[0] == 'expr':
            todo.append(ev[1])
        elif ev[0] == 'bind':
            todo.append(ast.Name(id=ev[1], ctx=ast.Load()))
    if path.exit[1] is not None:
        todo.append(path.exit[1])
    while todo:
        e = todo.pop()
        for n in ast.walk(e):
            if isinstance(n, ast.Name) and n.id.startswith(SYM) and n.id not in seen:
                seen.add(n.id)
                todo.append(path.syms[n.id])
        yield e


def self_calls(path, name):
    """[(symbol or None, Call)] for calls self.<name>(...) evaluated on the path"""
    out = []
    seen = set()
    for e in path_nodes(path):
        for n in ast.walk(e):
            if isinstance(n, ast.Call) and self_attr(n.func, name) and id(n) not in seen:
                seen.add(id(n))
                out.append(n)
    return out


def sym_of(path, call):
    for k, v in path.syms.items():
        if v is call:
            return k
    return None


def facts_before(path, pos):
    out = set()
    for ev in path.events[:pos]:
        if ev[0] == 'cond':
            for atom, pol in flatten(ev[1], ev[2]):
                out.add((dump(atom), pol))
    return out


class _Sub:
    """a path restricted to the conditions before an event (same query interface)"""

    def __init__(self, path, pos):
        self.facts = facts_before(path, pos)

    def holds(self, atom, pol=True):
        return (dump(atom), pol) in self.facts


class Routing:
    def __init__(self, idx):
        self.idx = idx
        self.culture_mod = idx.mod(TEXT + '.culture')
        self.model_mod = idx.mod(TEXT + '.model')
        self.recognizer_mod = idx.mod(TEXT + '.recognizer')
        self.Culture = self._cls(self.culture_mod, 'Culture')
        self.ModelFactory = self._cls(self.model_mod, 'ModelFactory')
        self.Model = self._cls(self.model_mod, 'Model')
        self.Recognizer = self._cls(self.recognizer_mod, 'Recognizer')
        self.interp = Interp(idx)
        self.members = {}
        for st in self.Culture.node.body:
            tgt = val = None
            if isinstance(st, ast.AnnAssign) and isinstance(st.target, ast.Name):
                tgt, val = st.target.id, st.value
            elif isinstance(st, ast.Assign) and len(st.targets) == 1 and isinstance(st.targets[0], ast.Name):
                tgt, val = st.targets[0].id, st.value
            if tgt is None or tgt.startswith('_') or val is None:
                continue
            self.members[tgt] = (val, st.lineno)
        if len(self.members) < 5:
            raise AnalysisError('Culture has only %d members - anchor changed' % len(self.members))
        self.codes = {n: v.value for n, (v, _) in self.members.items()
                      if isinstance(v, ast.Constant) and isinstance(v.value, str)}
        self.recognizers = sorted(idx.subclasses(self.Recognizer), key=lambda c: c.qual)
        self.findings = []
        self._seen = set()
        self.roles = {}
        self._regs = None
        self._analysed = False

    # ---- anchors
    def _cls(self, mod, name):
        if name not in mod.classes:
            raise AnalysisError('anchor vanished: class %s in %s' % (name, mod.rel))
        return mod.classes[name]

    def meth(self, cls, name):
        if name not in cls.methods:
            raise AnalysisError('anchor vanished: %s.%s in %s' % (cls.name, name, cls.mod.rel))
        return cls.methods[name]

    def culture_member(self, mod, e):
        """`Culture.X` (through any import alias of the Culture class) -> 'X' | None"""
        if isinstance(e, ast.Attribute) and isinstance(e.value, ast.Name):
            c = self.idx.resolve_class(mod, e.value)
            if c is self.Culture and e.attr in self.members:
                return e.attr
        return None

    def culture_const(self, mod, cls, e, depth=0):
        """expression that denotes a Culture member through class / module constants -> member | None"""
        if depth > 5:
            return None
        m = self.culture_member(mod, e)
        if m:
            return m
        if isinstance(e, ast.Attribute) and isinstance(e.value, ast.Name):
            if e.value.id in ('self', 'cls') and cls is not None:
                c = cls
            else:
                c = self.idx.resolve_class(mod, e.value)
            if c is not None:
                k, node = self.idx.class_attr(c, e.attr)
                if node is not None:
                    return self.culture_const(k.mod, k, node, depth + 1)
        if isinstance(e, ast.Name):
            r = self.idx.resolve(mod, e.id)
            if r and r[0] == 'const':
                return self.culture_const(r[1], None, r[2], depth + 1)
        return None

    def language_of_member(self, member):
        return LANGUAGE_OF_MEMBER.get(member, member)

    def languages(self):
        return {self.language_of_member(m).lower() for m in self.members}

    def language_of_class(self, c):
        """language a class is specific to: its name starts with a language name (EnglishNumberExtractor). Classes that
        merely live in a language package without carrying its name (english/parsers.py: PhoneNumberParser, IpParser)
        are shared by all cultures upstream and count as culture-agnostic."""
        n = c.name.lower()
        best = None
        for lang in self.languages():
            if n.startswith(lang) and (best is None or len(lang) > len(best)):
                best = lang
        return best

    def map_culture(self, code):
        fn = self.meth(self.Culture, 'map_to_nearest_language')
        if not is_static(fn):
            raise AnalysisError('Culture.map_to_nearest_language is no longer a staticmethod')
        return self.interp.call(self.culture_mod, fn, [code], None, None, 'Culture.map_to_nearest_language')

    def supported_codes(self):
        fn = self.meth(self.Culture, '_get_supported_culture_codes')
        v = self.interp.call(self.culture_mod, fn, [] if is_static(fn) else [None], None, None,
                             'Culture._get_supported_culture_codes')
        if not isinstance(v, (list, tuple, set)) or not all(isinstance(x, str) for x in v):
            raise AnalysisError('Culture._get_supported_culture_codes does not evaluate to a list of strings')
        return list(v)

    # ---- findings
    def finding(self, ok, rule, mod, construct, detail, msg='', line=None):
        k = (bool(ok), rule, mod.path, construct, detail)
        if k not in self._seen:
            self._seen.add(k)
            self.findings.append((bool(ok), rule, mod.path, construct, detail, msg, line))
        return bool(ok)

    # ---- key types
    def key_fields(self, name):
        """(fields, kind, node) of a key type defined in model.py"""
        r = self.idx.resolve(self.model_mod, name)
        if r is None:
            raise AnalysisError('anchor vanished: %s in %s' % (name, self.model_mod.rel))
        if r[0] == 'const':
            node = r[2]
            if isinstance(node, ast.Call) and isinstance(node.func, (ast.Name, ast.Attribute)) \
                    and (node.func.id if isinstance(node.func, ast.Name) else node.func.attr) == 'namedtuple' \
                    and len(node.args) >= 2:
                f = node.args[1]
                if isinstance(f, (ast.List, ast.Tuple)) and all(isinstance(x, ast.Constant) for x in f.elts):
                    return [x.value for x in f.elts], 'namedtuple', node
                if isinstance(f, ast.Constant) and isinstance(f.value, str):
                    return f.value.replace(',', ' ').split(), 'namedtuple', node
            raise AnalysisError('%s in %s is not a namedtuple(...) with literal fields' % (name, self.model_mod.rel))
        if r[0] == 'class':
            c = r[1]
            ann = [st.target.id for st in c.node.body if isinstance(st, ast.AnnAssign) and isinstance(st.target, ast.Name)]
            if any(ast.unparse(b).endswith('NamedTuple') for b in c.node.bases):
                return ann, 'class-namedtuple', c
            if any('dataclass' in ast.unparse(d) for d in c.node.decorator_list):
                return ann, 'dataclass', c
            init = c.methods.get('__init__')
            if init is not None:
                fields = []
                for n in ast.walk(init):
                    if isinstance(n, (ast.Assign, ast.AnnAssign)):
                        for t in (n.targets if isinstance(n, ast.Assign) else [n.target]):
                            if self_attr(t) and t.attr not in fields:
                                fields.append(t.attr)
                return fields, 'class', c
        raise AnalysisError('%s in %s has a shape the checker does not understand' % (name, self.model_mod.rel))

    def key_call_roles(self, call, keyname, what):
        """KeyType(...) call -> role -> argument expression"""
        fields, kind, node = self.key_fields(keyname)
        if any(isinstance(x, ast.Starred) for x in call.args) or any(k.arg is None for k in call.keywords):
            raise AnalysisError('%s: %s built with * / **' % (what, keyname))
        if kind == 'class':
            init = node.methods['__init__']
            b = bind_call(call, init, what)
            byfield = {}
            for n in ast.walk(init):
                if isinstance(n, (ast.Assign, ast.AnnAssign)) and n.value is not None:
                    for t in (n.targets if isinstance(n, ast.Assign) else [n.target]):
                        if self_attr(t) and isinstance(n.value, ast.Name) and n.value.id in b:
                            byfield[t.attr] = b[n.value.id]
        else:
            byfield = dict(zip(fields, call.args))
            for k in call.keywords:
                byfield[k.arg] = k.value
        out = {}
        for f, a in byfield.items():
            r = role_of_field(f)
            if r is None:
                raise AnalysisError('%s: key field %s of %s cannot be classified' % (what, f, keyname))
            out[r] = a
        return out

    def check_key_type(self, name, want):
        mod = self.model_mod
        fields, kind, node = self.key_fields(name)
        roles = [role_of_field(f) for f in fields]
        line = node.lineno if isinstance(node, ast.AST) else node.node.lineno
        self.finding(sorted(r or '?' for r in roles) == sorted(want), 'C17.cache-key', mod, name,
                     'fields by role: %s' % ', '.join(sorted(r or '?' for r in roles)),
                     '%s has fields %s; the key must consist of exactly %s' % (name, fields, sorted(want)), line)
        if kind == 'namedtuple':
            self.finding(True, 'C17.cache-key', mod, name + ' equality', 'namedtuple: tuple equality and hash over all fields')
            return
        c = node
        eq, hs = c.methods.get('__eq__'), c.methods.get('__hash__')
        if kind == 'dataclass':
            deco = ' '.join(ast.unparse(d) for d in c.node.decorator_list)
            excluded = []
            for st in c.node.body:
                if isinstance(st, ast.AnnAssign) and isinstance(st.value, ast.Call):
                    for k in st.value.keywords:
                        if k.arg in ('compare',) and isinstance(k.value, ast.Constant) and k.value.value is False:
                            excluded.append(st.target.id)
            self.finding(not excluded, 'C17.cache-key', mod, name + ' equality',
                         'dataclass fields excluded from comparison: %s' % (excluded or 'none'),
                         'fields %s do not take part in == ; two different keys compare equal' % excluded, c.node.lineno)
            hashable = 'frozen=True' in deco or 'unsafe_hash=True' in deco or 'eq=False' in deco or hs is not None
            self.finding(hashable, 'C17.cache-key', mod, name + ' hashable', 'dataclass(%s)' % deco,
                         'a dataclass with eq and without frozen / unsafe_hash is unhashable: every cache access raises',
                         c.node.lineno)
            if eq is None:
                return
        if eq is None and hs is None:
            self.finding(True, 'C17.cache-key', mod, name + ' equality',
                         '%s: inherited equality' % kind)
            return
        if eq is not None:
            used = {n.attr for n in ast.walk(eq) if isinstance(n, ast.Attribute) and isinstance(n.value, ast.Name)}
            tuple_cmp = any(isinstance(n, ast.Call) and isinstance(n.func, ast.Name) and n.func.id in ('tuple', 'astuple')
                            for n in ast.walk(eq))
            missing = [f for f in fields if f not in used]
            self.finding(tuple_cmp or not missing, 'C17.cache-key', mod, name + '.__eq__',
                         'fields compared: %s' % ('all (tuple)' if tuple_cmp else sorted(set(fields) & used)),
                         '__eq__ ignores %s: keys that differ only there are served the same cached model' % missing,
                         eq.lineno)
            self.finding(hs is not None, 'C17.cache-key', mod, name + '.__hash__ defined', 'defined=%s' % (hs is not None),
                         '__eq__ without __hash__ makes the key unhashable: every cache access raises', eq.lineno)
        if hs is not None and eq is not None:
            usedh = {n.attr for n in ast.walk(hs) if isinstance(n, ast.Attribute) and isinstance(n.value, ast.Name)}
            usede = {n.attr for n in ast.walk(eq) if isinstance(n, ast.Attribute) and isinstance(n.value, ast.Name)}
            extra = sorted((usedh - usede) & set(fields))
            self.finding(not extra, 'C17.cache-key', mod, name + '.__hash__',
                         'hash fields not compared by __eq__: %s' % (extra or 'none'),
                         '__hash__ uses %s which __eq__ ignores (contract broken)' % extra, hs.lineno)

    # ---- the chain
    def analyse(self):
        if self._analysed:
            return
        self._analysed = True
        self.check_key_type('CacheKey', ['model_type', 'culture', 'options'])
        self.check_key_type('ModelCtorKey', ['model_type', 'culture'])
        self._cache_attrs()
        self._accessors()
        self._try_get_model()
        self._factory_get_model()
        self._factory_register()
        self._recognizer_core()

    def _cache_attrs(self):
        MF = self.ModelFactory
        self.cache_attrs = set()
        for n, v in MF.attrs.items():
            if isinstance(v, ast.Dict) or (isinstance(v, ast.Call) and isinstance(v.func, ast.Name) and v.func.id == 'dict'):
                self.cache_attrs.add(n)
        if not self.cache_attrs:
            raise AnalysisError('ModelFactory has no class-level dict (model cache) in %s' % self.model_mod.rel)

    def is_cache(self, e):
        if isinstance(e, ast.Attribute) and isinstance(e.value, ast.Name) and e.value.id in ('ModelFactory', 'self', 'cls'):
            a = e.attr
            if a.startswith('_ModelFactory'):
                a = a[len('_ModelFactory'):]
            return a in self.cache_attrs
        return False

    def _key_in(self, path, e, keyname):
        e = path.expand(e)
        for n in source_order(e):
            if isinstance(n, ast.Call) and isinstance(n.func, ast.Name) and n.func.id == keyname:
                return n
        return None

    def _roles_from_key(self, fn, kc, keyname, construct, want):
        """CacheKey(...) built inside fn -> {param: role}; findings on C17.cache-key"""
        ps = params_of(fn)
        byrole = self.key_call_roles(kc, keyname, construct)
        roles, bad = {}, []
        for r in want:
            a = byrole.get(r)
            if a is None:
                bad.append('%s missing' % r)
            elif not (isinstance(a, ast.Name) and a.id in ps):
                bad.append('%s <- %s (not a parameter)' % (r, ast.unparse(a)))
            elif a.id in roles:
                bad.append('%s <- %s (already used for %s)' % (r, a.id, roles[a.id]))
            else:
                roles[a.id] = r
        detail = '%s(%s)' % (keyname, ', '.join('%s<-%s' % (r, ('$%d' % ps.index(byrole[r].id))
                                                             if isinstance(byrole.get(r), ast.Name) and byrole[r].id in ps
                                                             else (ast.unparse(byrole[r]) if r in byrole else 'missing'))
                                              for r in want))
        self.finding(not bad, 'C17.cache-key', self.model_mod, construct, detail,
                     'the key is not built from the three parameters: %s' % '; '.join(bad), kc.lineno if hasattr(kc, 'lineno') else fn.lineno)
        return roles

    def _accessors(self):
        MF, mod = self.ModelFactory, self.model_mod
        want = ['model_type', 'culture', 'options']
        # reader
        fn = self.meth(MF, 'get_model_from_cache')
        pe = PathEnum(fn, '%s ModelFactory.get_model_from_cache' % mod.rel)
        roles = None
        good_exit = False
        for p in pe.paths:
            kind, e, line = p.exit
            if kind == 'raise':
                self.finding(False, 'C17.cache-key', mod, 'ModelFactory.get_model_from_cache', 'exit: raise',
                             'the cache reader raises on some path; a miss must yield None', line)
                continue
            if e is None or is_none(e):
                continue
            ex = p.expand(e)
            key = None
            if isinstance(ex, ast.Call) and isinstance(ex.func, ast.Attribute) and ex.func.attr == 'get' \
                    and self.is_cache(ex.func.value) and ex.args:
                dflt = ex.args[1] if len(ex.args) > 1 else None
                for k in ex.keywords:
                    if k.arg == 'default':
                        dflt = k.value
                if dflt is not None and not is_none(dflt):
                    self.finding(False, 'C17.cache-key', mod, 'ModelFactory.get_model_from_cache',
                                 'miss -> %s' % ast.unparse(dflt), 'a cache miss yields %s instead of None' % ast.unparse(dflt), line)
                key = ex.args[0]
            elif isinstance(ex, ast.Subscript) and self.is_cache(ex.value):
                key = ex.slice
                if not p.holds(ast.Compare(left=e.slice, ops=[ast.In()], comparators=[e.value]), True):
                    self.finding(False, 'C17.cache-key', mod, 'ModelFactory.get_model_from_cache', 'unguarded subscript',
                                 'cache[key] without a membership test raises KeyError on a miss instead of yielding None', line)
            else:
                self.finding(False, 'C17.cache-key', mod, 'ModelFactory.get_model_from_cache',
                             'returns %s' % ast.unparse(ex), 'the reader returns something that is not a lookup in the model cache', line)
                continue
            kc = key if (isinstance(key, ast.Call) and isinstance(key.func, ast.Name) and key.func.id == 'CacheKey') else None
            if kc is None:
                self.finding(False, 'C17.cache-key', mod, 'ModelFactory.get_model_from_cache',
                             'lookup key %s' % ast.unparse(key), 'the lookup key is not a CacheKey(...)', line)
                continue
            roles = self._roles_from_key(fn, kc, 'CacheKey', 'ModelFactory.get_model_from_cache', want)
            good_exit = True
        if not good_exit and roles is None:
            raise AnalysisError('%s ModelFactory.get_model_from_cache: no cache lookup recognised' % mod.rel)
        self.roles['get_model_from_cache'] = roles or {}
        # writer
        fn = self.meth(MF, 'register_model_in_cache')
        pe = PathEnum(fn, '%s ModelFactory.register_model_in_cache' % mod.rel)
        roles = None
        for p in pe.paths:
            for ev in p.events:
                if ev[0] != 'store':
                    continue
                tgt = p.expand(ev[1])
                if not (isinstance(tgt, ast.Subscript) and self.is_cache(tgt.value)):
                    continue
                key = tgt.slice
                if not (isinstance(key, ast.Call) and isinstance(key.func, ast.Name) and key.func.id == 'CacheKey'):
                    self.finding(False, 'C17.cache-key', mod, 'ModelFactory.register_model_in_cache',
                                 'store key %s' % ast.unparse(key), 'the cache is written under something that is not a CacheKey(...)', ev[3])
                    continue
                roles = self._roles_from_key(fn, key, 'CacheKey', 'ModelFactory.register_model_in_cache', want)
                val = ev[2]
                ps = params_of(fn)
                okv = isinstance(val, ast.Name) and val.id in ps and val.id not in roles
                self.finding(okv, 'C17.cache-key', mod, 'ModelFactory.register_model_in_cache value',
                             'stores %s' % (('$%d' % ps.index(val.id)) if isinstance(val, ast.Name) and val.id in ps else p.show(val)),
                             'the value written to the cache is not the model parameter', ev[3])
                if okv:
                    roles[val.id] = 'model'
        if roles is None:
            raise AnalysisError('%s ModelFactory.register_model_in_cache: no store into the model cache recognised' % mod.rel)
        self.roles['register_model_in_cache'] = roles

    def _bind_roles(self, call, callee, callee_roles, what):
        """role -> argument expression for a call to a function whose parameter roles are known"""
        b = bind_call(call, callee, what)
        return {callee_roles[p]: a for p, a in b.items() if p in callee_roles}

    def _own_roles(self, fn, calls, callee, callee_roles, what, want):
        """infer {own param: role} from calls that forward own parameters"""
        ps = params_of(fn)
        roles = {}
        for c in calls:
            for r, a in self._bind_roles(c, callee, callee_roles, what).items():
                if r in want and isinstance(a, ast.Name) and a.id in ps:
                    if roles.get(a.id, r) != r:
                        self.finding(False, 'C17.triple', self.model_mod, what, '%s used as %s and %s' % (a.id, roles[a.id], r),
                                     'parameter %s is passed in two different roles' % a.id, c.lineno)
                    roles.setdefault(a.id, r)
        return roles

    def _try_get_model(self):
        MF, mod = self.ModelFactory, self.model_mod
        fn = self.meth(MF, 'try_get_model')
        what = 'ModelFactory.try_get_model'
        pe = PathEnum(fn, '%s %s' % (mod.rel, what))
        rd, wr = self.meth(MF, 'get_model_from_cache'), self.meth(MF, 'register_model_in_cache')
        rd_roles, wr_roles = self.roles['get_model_from_cache'], self.roles['register_model_in_cache']
        want = ['model_type', 'culture', 'options']
        lookups = [c for p in pe.paths for c in self_calls(p, 'get_model_from_cache')]
        lookups = list({id(c): c for c in lookups}.values())
        ps = params_of(fn)
        inline = {}
        for p in pe.paths:
            for e in path_nodes(p):
                for n in ast.walk(e):
                    if isinstance(n, ast.Call) and isinstance(n.func, ast.Attribute) and n.func.attr in ('get', 'setdefault') \
                            and self.is_cache(n.func.value) and n.args and id(n) not in inline:
                        inline[id(n)] = (p, n)
        if not lookups and not inline:
            raise AnalysisError('%s %s never consults the model cache (no get_model_from_cache call, no read of %s)'
                                % (mod.rel, what, sorted(self.cache_attrs)))
        roles = self._own_roles(fn, lookups, rd, rd_roles, what, want) if lookups else {}
        # the cache read inline (ModelFactory.__cache.get(key) / .setdefault(key, ...)): the key decides the verdict
        for p, n in inline.values():
            key = p.expand(n.args[0])
            kc = key if isinstance(key, ast.Call) and isinstance(key.func, ast.Name) and key.func.id in ('CacheKey', 'ModelCtorKey') \
                else None
            if kc is None:
                self.finding(False, 'C17.triple', mod, what + ' inline cache access', '.%s(%s)' % (n.func.attr, ast.unparse(key)),
                             'the model cache is accessed under a key that is not a CacheKey(...)', n.lineno)
                continue
            byrole = self.key_call_roles(kc, kc.func.id, what)
            for r, a in byrole.items():
                if isinstance(a, ast.Name) and a.id in ps:
                    roles.setdefault(a.id, r)
            missing = [r for r in want if not (isinstance(byrole.get(r), ast.Name) and roles.get(byrole[r].id) == r)]
            self.finding(kc.func.id == 'CacheKey' and not missing, 'C17.triple', mod, what + ' inline cache .%s' % n.func.attr,
                         '%s(%s)' % (kc.func.id, ', '.join('%s<-%s' % (r, ('$' + r) if r not in missing else
                                                                ('missing' if r not in byrole else ast.unparse(byrole[r])))
                                                       for r in want)),
                         'the process-wide model cache is accessed under %s without %s: models built for one value are served '
                         'for every other' % (kc.func.id, ', '.join(missing)), n.lineno)
        if not lookups and len(ps) == 3:
            left = [r for r in want if r not in roles.values()]
            free = [q for q in ps if q not in roles]
            if len(left) == 1 and len(free) == 1:
                roles[free[0]] = left[0]          # role hidden by the violation above: the remaining parameter
        self.roles['try_get_model'] = roles

        def triple(byrole):
            out = []
            for r in want:
                a = byrole.get(r)
                out.append('%s<-%s' % (r, '$' + roles[a.id] if isinstance(a, ast.Name) and a.id in roles
                                       else ('missing' if a is None else ast.unparse(a))))
            return ', '.join(out)

        def same_triple(byrole, fields=want):
            return all(isinstance(byrole.get(r), ast.Name) and roles.get(byrole[r].id) == r for r in fields)

        for c in lookups:
            br = self._bind_roles(c, rd, rd_roles, what)
            self.finding(same_triple(br), 'C17.triple', mod, what + ' lookup', triple(br),
                         'the cache lookup does not use try_get_model\'s own (model type, culture, options)', c.lineno)
        n_constructed = 0
        for p in pe.paths:
            kind, e, line = p.exit
            if kind == 'raise':
                self.finding(False, 'C17.triple', mod, what + ' exit', 'raise %s' % p.show(e),
                             'try_get_model raises; a miss must yield None so that get_model can fall back', line)
                continue
            if e is None or is_none(e):
                continue
            val = p.syms.get(e.id) if isinstance(e, ast.Name) and e.id.startswith(SYM) else e
            inline_call = isinstance(val, ast.Call) and id(val) in inline
            if inline_call and val.func.attr == 'setdefault':
                built = val.args[1] if len(val.args) > 1 else None
                bv = p.expand(built) if built is not None else None
                is_ctor = isinstance(bv, ast.Call) and any(self_attr(x, 'model_factories') for x in ast.walk(bv.func)) \
                    and len(bv.args) == 1 and isinstance(bv.args[0], ast.Name) and roles.get(bv.args[0].id) == 'options'
                self.finding(is_ctor, 'C17.triple', mod, what + ' construction', 'published with cache.setdefault(key, %s)'
                             % ('ctor($options)' if is_ctor else (ast.unparse(bv) if bv is not None else 'nothing')),
                             'the value published in the cache is not the registered constructor applied to the options', line)
                n_constructed += 1 if is_ctor else 0
                continue
            if (isinstance(val, ast.Call) and self_attr(val.func, 'get_model_from_cache')) or inline_call:
                self.finding(non_none_on(p, e), 'C17.triple', mod, what + ' cached exit',
                             'returns the cached model %s' % ('only when it is not None' if non_none_on(p, e) else 'unguarded'),
                             'the cached value is returned without a None test: a miss never constructs the model', line)
                continue
            # constructed model: ctor(options) with ctor = self.model_factories.get(ModelCtorKey(...))
            ok_ctor = False
            detail = 'returns %s' % p.show(e)
            if isinstance(val, ast.Call):
                ctor = val.func
                cv = p.syms.get(ctor.id) if isinstance(ctor, ast.Name) and ctor.id.startswith(SYM) else ctor
                kc = self._key_in(p, cv, 'ModelCtorKey') if cv is not None else None
                cvx = p.expand(cv)
                from_table = any(self_attr(n, 'model_factories') for n in ast.walk(cvx))
                if kc is not None and from_table:
                    kr = self.key_call_roles(kc, 'ModelCtorKey', what)
                    arg_ok = len(val.args) + len(val.keywords) == 1 and \
                        isinstance((val.args + [k.value for k in val.keywords])[0], ast.Name) and \
                        roles.get((val.args + [k.value for k in val.keywords])[0].id) == 'options'
                    key_ok = same_triple(kr, ['model_type', 'culture'])
                    detail = 'ctor[%s](%s)' % (triple(kr).replace(', options<-missing', ''),
                                                ', '.join(p.show(a) if not (isinstance(a, ast.Name) and a.id in roles)
                                                          else '$' + roles[a.id] for a in val.args))
                    self.finding(arg_ok and key_ok, 'C17.triple', mod, what + ' construction', detail,
                                           'the model is not constructed by the constructor registered for (model type, culture) '
                                           'applied to the options', line)
                    n_constructed += 1
                    # insertion
                    ins = [ev for ev in p.events if ev[0] == 'expr' and isinstance(ev[1], ast.Call)
                           and self_attr(ev[1].func, 'register_model_in_cache')]
                    if not ins:
                        self.finding(False, 'C17.triple', mod, what + ' insertion', 'no insertion on the constructing path',
                                     'the constructed model is not entered into the cache', line)
                    for ev in ins:
                        br = self._bind_roles(ev[1], wr, wr_roles, what)
                        model_ok = 'model' in br and dump(br['model']) == dump(e)
                        self.finding(same_triple(br) and model_ok, 'C17.triple', mod, what + ' insertion',
                                     '%s, model<-%s' % (triple(br), 'constructed' if model_ok else p.show(br.get('model'))),
                                     'the model is cached under a key other than the (model type, culture, options) it was looked up '
                                     'and constructed with, or something else is cached', ev[2])
                    continue
            self.finding(False, 'C17.triple', mod, what + ' exit', detail,
                         'try_get_model returns something that is neither the cached nor the freshly constructed model', line)
        if n_constructed == 0:
            self.finding(False, 'C17.triple', mod, what + ' construction', 'no constructing path',
                         'no path of try_get_model constructs a model from the registered constructor', fn.lineno)
        # nobody else inserts
        for p in pe.paths:
            for ev in p.events:
                if ev[0] == 'store' and any(self.is_cache(n) for n in ast.walk(p.expand(ev[1]))):
                    self.finding(False, 'C17.triple', mod, what + ' direct store', p.show(ev[1]),
                                 'try_get_model writes the cache directly', ev[3])

    def _factory_get_model(self):
        MF, mod = self.ModelFactory, self.model_mod
        fn = self.meth(MF, 'get_model')
        what = 'ModelFactory.get_model'
        pe = PathEnum(fn, '%s %s' % (mod.rel, what))
        tg = self.meth(MF, 'try_get_model')
        tg_roles = self.roles['try_get_model']
        want = ['model_type', 'culture', 'options']
        calls = list({id(c): c for p in pe.paths for c in self_calls(p, 'try_get_model')}.values())
        if not calls:
            raise AnalysisError('%s %s never calls try_get_model' % (mod.rel, what))
        roles = self._own_roles(fn, calls, tg, tg_roles, what, want)
        ps = params_of(fn)
        rest = [p for p in ps if p not in roles]
        if len(rest) != 1:
            if not any(not f[0] for f in self.findings) or len(ps) != 4:
                raise AnalysisError('%s %s: cannot identify the fallback flag among parameters %s (roles %s)'
                                    % (mod.rel, what, ps, roles))
            # an earlier violation (a key field is missing) hides a role: continue with the positional convention
            roles = dict(zip(ps, ['model_type', 'culture', 'fallback', 'options']))
            rest = [ps[2]]
        flag = ast.Name(id=rest[0], ctx=ast.Load())
        roles[rest[0]] = 'fallback'
        self.roles['factory.get_model'] = roles

        def classify(call):
            br = self._bind_roles(call, tg, tg_roles, what)
            c = br.get('culture')
            others = all(isinstance(br.get(r), ast.Name) and roles.get(br[r].id) == r for r in ('model_type', 'options'))
            if isinstance(c, ast.Name) and roles.get(c.id) == 'culture':
                return 'primary', None, others
            m = self.culture_const(mod, MF, c) if c is not None else None
            if m is not None:
                return 'fallback', m, others
            return 'other', ast.unparse(c) if c is not None else 'missing', others

        kinds = {}
        for c in calls:
            k, m, others = classify(c)
            kinds[id(c)] = (k, m)
            if k == 'primary':
                self.finding(others, 'C17.fallback', mod, what + ' primary lookup', 'try_get_model($model_type, $culture, $options)' if others else ast.unparse(c),
                             'the primary lookup does not forward model type and options', c.lineno)
            elif k == 'fallback':
                self.finding(m == 'English' and others, 'C17.fallback', mod, what + ' fallback lookup',
                             'try_get_model($model_type, Culture.%s, $options)' % m if others else ast.unparse(c),
                             'the fallback lookup must ask for Culture.English with the caller\'s model type and options', c.lineno)
            else:
                self.finding(False, 'C17.fallback', mod, what + ' lookup', 'culture <- %s' % m,
                             'a lookup asks for a culture that is neither the requested one nor the default culture', c.lineno)
        seen_exit = set()
        for p in pe.paths:
            kind, e, line = p.exit
            on_path = self_calls(p, 'try_get_model')
            prim = [c for c in on_path if kinds[id(c)][0] == 'primary']
            fb = [c for c in on_path if kinds[id(c)][0] == 'fallback']
            prim_syms = [ast.Name(id=sym_of(p, c), ctx=ast.Load()) for c in prim if sym_of(p, c)]
            # fallback lookups are control dependent on flag and on the primary miss
            for c in fb:
                k = sym_of(p, c)
                pos = p.index_of(lambda ev: ev[0] == 'bind' and ev[1] == k) if k else None
                if pos is None:
                    pos = len(p.events)
                sub = _Sub(p, pos)
                dep_flag = flag_true_on(sub, flag)
                dep_miss = bool(prim_syms) and all(none_on(sub, s) for s in prim_syms)
                key = ('fbdep', dep_flag, dep_miss)
                if key not in seen_exit:
                    seen_exit.add(key)
                    self.finding(dep_flag and dep_miss, 'C17.fallback', mod, what + ' fallback guard',
                                 'fallback lookup under: flag is True=%s, primary lookup is None=%s' % (dep_flag, dep_miss),
                                 'the English fallback lookup is not control dependent on %s' %
                                 ('the fallback flag' if not dep_flag else 'the primary lookup having missed'), c.lineno)
            if kind == 'return':
                val = p.syms.get(e.id) if (e is not None and isinstance(e, ast.Name) and e.id.startswith(SYM)) else None
                which = kinds.get(id(val), ('other', None))[0] if val is not None else 'other'
                nn = e is not None and non_none_on(p, e)
                key = ('ret', which, nn)
                if key in seen_exit:
                    continue
                seen_exit.add(key)
                if which == 'other':
                    self.finding(False, 'C17.fallback', mod, what + ' exit', 'returns %s' % p.show(e),
                                 'an exit returns something that is not the result of a model lookup (None when bare)', line)
                else:
                    self.finding(nn, 'C17.fallback', mod, what + ' exit', 'returns the %s model, known not None=%s' % (which, nn),
                                 'an exit can return None instead of raising ValueError', line)
            elif kind == 'raise':
                misses = all(none_on(p, ast.Name(id=sym_of(p, c), ctx=ast.Load())) for c in on_path if sym_of(p, c))
                ve = is_value_error(e)
                key = ('raise', ve, misses)
                if key in seen_exit:
                    continue
                seen_exit.add(key)
                self.finding(ve and misses, 'C17.fallback', mod, what + ' exit',
                             'raises %s, all lookups on the path known None=%s' % (p.show(e).split('(')[0], misses),
                             'the failing exit must raise ValueError, and only after every lookup missed', line)
            else:
                if ('fall',) not in seen_exit:
                    seen_exit.add(('fall',))
                    self.finding(False, 'C17.fallback', mod, what + ' exit', 'falls off the end (returns None)',
                                 'a path returns None implicitly instead of raising ValueError', line)
        for needed, label in (('primary', 'returns the primary model'), ('fallback', 'returns the fallback model')):
            if not any(k[0] == 'ret' and k[1] == needed for k in seen_exit):
                self.finding(False, 'C17.fallback', mod, what + ' exit', 'no path ' + label,
                             'no path of get_model %s' % label, fn.lineno)
        if not any(k[0] == 'raise' for k in seen_exit):
            self.finding(False, 'C17.fallback', mod, what + ' exit', 'no raising path',
                         'get_model never raises: an unknown culture with fallback disabled is not rejected', fn.lineno)

    def _factory_register(self):
        MF, mod = self.ModelFactory, self.model_mod
        fn = self.meth(MF, 'register_model')
        what = 'ModelFactory.register_model'
        pe = PathEnum(fn, '%s %s' % (mod.rel, what))
        ps = params_of(fn)
        roles = None
        stored = False
        for p in pe.paths:
            for ev in p.events:
                if ev[0] != 'store':
                    continue
                tgt = p.expand(ev[1])
                if not (isinstance(tgt, ast.Subscript) and self_attr(tgt.value, 'model_factories')):
                    continue
                stored = True
                kc = tgt.slice if isinstance(tgt.slice, ast.Call) and isinstance(tgt.slice.func, ast.Name) \
                    and tgt.slice.func.id == 'ModelCtorKey' else None
                if kc is None:
                    self.finding(False, 'C17.register', mod, what, 'key %s' % ast.unparse(tgt.slice),
                                 'constructors are registered under something that is not a ModelCtorKey', ev[3])
                    continue
                roles = self._roles_from_key(fn, kc, 'ModelCtorKey', what, ['model_type', 'culture'])
                val = ev[2]
                if isinstance(val, ast.Name) and val.id in ps and val.id not in roles:
                    roles[val.id] = 'ctor'
                else:
                    self.finding(False, 'C17.register', mod, what + ' value', 'stores %s' % p.show(val),
                                 'the registered value is not the constructor parameter', ev[3])
                # duplicate refusal: store only when `key in self.model_factories` is known False
                keyexpr = ev[1].slice
                test = ast.Compare(left=keyexpr, ops=[ast.In()], comparators=[ev[1].value])
                refused = p.holds(test, False)
                self.finding(refused, 'C17.register', mod, what + ' duplicate',
                             'stores only when the key is not yet registered=%s' % refused,
                             'a second registration for the same (model type, culture) silently replaces the first', ev[3])
        if not stored or roles is None:
            raise AnalysisError('%s %s: no store into self.model_factories recognised' % (mod.rel, what))
        silent = [p for p in pe.paths if p.exit[0] != 'raise'
                  and not any(ev[0] == 'store' and isinstance(ev[1], ast.Subscript) and self_attr(ev[1].value, 'model_factories')
                              for ev in p.events)]
        self.finding(not silent, 'C17.register', mod, what + ' unconditional',
                     'every non-raising path stores the constructor=%s' % (not silent),
                     'ModelFactory.register_model returns without storing the constructor on some path', fn.lineno)
        dup_raise = any(p.exit[0] == 'raise' and not any(ev[0] == 'store' for ev in p.events) for p in pe.paths)
        self.finding(dup_raise, 'C17.register', mod, what + ' duplicate raise', 'a duplicate raises=%s' % dup_raise,
                     'a duplicate registration is not rejected with an exception', fn.lineno)
        self.roles['factory.register_model'] = roles

    def _recognizer_core(self):
        R, mod = self.Recognizer, self.recognizer_mod
        MF = self.ModelFactory
        # --- __init__
        fn = self.meth(R, '__init__')
        pe = PathEnum(fn, '%s Recognizer.__init__' % mod.rel)
        ps = params_of(fn)
        roles = {}
        for p in pe.paths:
            stores = {}
            for i, ev in enumerate(p.events):
                if ev[0] == 'store' and self_attr(ev[1]):
                    stores[ev[1].attr] = (i, ev[2], ev[3])
            reg = p.index_of(lambda ev: ev[0] == 'expr' and isinstance(ev[1], ast.Call)
                             and self_attr(ev[1].func, 'initialize_configuration'))
            for attr in ('target_culture', 'options'):
                s = stores.get(attr)
                ok = s is not None and isinstance(s[1], ast.Name) and s[1].id in ps
                if ok:
                    roles[s[1].id] = attr
                self.finding(ok, 'C17.state', mod, 'Recognizer.__init__ self.%s' % attr,
                             'self.%s <- %s' % (attr, 'parameter' if ok else ('missing' if s is None else p.show(s[1]))),
                             'get_model reads self.%s, which __init__ does not initialise from its parameter' % attr,
                             s[2] if s else fn.lineno)
            s = stores.get('model_factory')
            val = p.expand(s[1]) if s else None
            okf = s is not None and isinstance(val, ast.Call) and self.idx.resolve_class(mod, val.func) is MF and not val.args
            self.finding(okf and reg is not None and s[0] < reg, 'C17.state', mod, 'Recognizer.__init__ self.model_factory',
                         'fresh ModelFactory() before initialize_configuration()=%s' % bool(okf and reg is not None and s[0] < reg),
                         'each recogniser needs its own ModelFactory, created before the registrations run', s[2] if s else fn.lineno)
        if len(ps) == 3:
            for q, r in zip(ps, ['target_culture', 'options', 'lazy']):     # roles a violation hid: positional convention
                if q not in roles and r not in roles.values():
                    roles[q] = r
        self.roles['Recognizer.__init__'] = roles
        # --- who else writes self.options / self.target_culture / self.model_factory
        for c in [R] + self.recognizers:
            for name, m in c.methods.items():
                if c is R and name == '__init__':
                    continue
                for n in ast.walk(m):
                    if isinstance(n, ast.Attribute) and isinstance(n.ctx, (ast.Store, ast.Del)) and self_attr(n) \
                            and n.attr in ('options', 'target_culture', 'model_factory'):
                        self.finding(False, 'C17.state', c.mod, '%s.%s' % (c.name, name), 'writes self.%s' % n.attr,
                                     'self.%s is reassigned after construction: cached models and later requests disagree' % n.attr,
                                     n.lineno)
        # --- get_model
        fn = self.meth(R, 'get_model')
        what = 'Recognizer.get_model'
        pe = PathEnum(fn, '%s %s' % (mod.rel, what))
        fg = self.meth(MF, 'get_model')
        fg_roles = self.roles['factory.get_model']
        ps = params_of(fn)
        groles = {}
        seen = set()
        forms = set()
        mapfn = self.meth(self.Culture, 'map_to_nearest_language')
        for p in pe.paths:
            kind, e, line = p.exit
            ex = p.expand(e) if e is not None else None
            if not (kind == 'return' and isinstance(ex, ast.Call) and isinstance(ex.func, ast.Attribute)
                    and ex.func.attr == 'get_model' and self_attr(ex.func.value, 'model_factory')):
                self.finding(False, 'C17.forward', mod, what + ' exit', '%s %s' % (kind, p.show(e)),
                             'an exit of Recognizer.get_model is not `return self.model_factory.get_model(...)`', line)
                continue
            br = self._bind_roles(ex, fg, fg_roles, what)
            problems = []
            for r in ('model_type', 'fallback'):
                a = br.get(r)
                if isinstance(a, ast.Name) and a.id in ps and groles.get(a.id, r) == r:
                    groles[a.id] = r
                else:
                    problems.append('%s <- %s' % (r, 'missing' if a is None else ast.unparse(a)))
            a = br.get('options')
            if not self_attr(a, 'options'):
                problems.append('options <- %s' % ('missing' if a is None else ast.unparse(a)))
            c = br.get('culture')
            form = None
            if isinstance(c, ast.Call) and isinstance(c.func, ast.Attribute) and c.func.attr == mapfn.name \
                    and self.idx.resolve_class(mod, c.func.value) is self.Culture and len(c.args) == 1 and not c.keywords:
                x = c.args[0]
                if isinstance(x, ast.Name) and x.id in ps and groles.get(x.id, 'culture') == 'culture':
                    groles[x.id] = 'culture'
                    if p.holds(ast.Compare(left=x, ops=[ast.Is()], comparators=[ast.Constant(value=None)]), False) \
                            or p.holds(x, True):
                        form = 'map($culture) when $culture is given'
                    else:
                        form = 'map($culture) unconditionally'
                elif self_attr(x, 'target_culture'):
                    cp = [q for q in ps if groles.get(q) == 'culture'] or [q for q in ps if q not in groles]
                    given = any(p.holds(ast.Compare(left=ast.Name(id=q, ctx=ast.Load()), ops=[ast.Is()],
                                                    comparators=[ast.Constant(value=None)]), True)
                                or p.holds(ast.Name(id=q, ctx=ast.Load()), False) for q in cp)
                    form = 'map(self.target_culture) when $culture is None' if given else 'map(self.target_culture) unconditionally'
                else:
                    problems.append('culture <- map(%s)' % ast.unparse(x))
            else:
                problems.append('culture <- %s (not Culture.map_to_nearest_language(...))' % ('missing' if c is None else ast.unparse(c)))
            if form:
                forms.add(form)
            detail = 'model_factory.get_model(model_type<-$model_type, culture<-%s, fallback<-$fallback, options<-self.options)' \
                % (form or '?') if not problems else '; '.join(problems)
            if detail in seen:
                continue
            seen.add(detail)
            self.finding(not problems and form is not None and 'unconditionally' not in form, 'C17.forward', mod, what, detail,
                         'Recognizer.get_model does not forward (model type, mapped culture, fallback flag, self.options): %s'
                         % ('; '.join(problems) or form), line)
        for need in ('map($culture) when $culture is given', 'map(self.target_culture) when $culture is None'):
            if need not in forms and not any('unconditionally' in f for f in forms):
                self.finding(False, 'C17.forward', mod, what + ' paths', 'missing: ' + need,
                             'no path of Recognizer.get_model uses %s' % need, fn.lineno)
        self.roles['Recognizer.get_model'] = groles
        # --- register_model forwards its three parameters
        fn = self.meth(R, 'register_model')
        fr = self.meth(MF, 'register_model')
        fr_roles = self.roles['factory.register_model']
        rroles = {}
        found = False
        pe0 = PathEnum(fn, '%s Recognizer.register_model' % mod.rel)
        fwd, seen_fwd = [], set()
        for p0 in pe0.paths:
            for e0 in path_nodes(p0):
                for n0 in ast.walk(p0.expand(e0)):
                    if isinstance(n0, ast.Call) and isinstance(n0.func, ast.Attribute) and n0.func.attr == 'register_model' \
                            and self_attr(n0.func.value, 'model_factory') and dump(n0) not in seen_fwd:
                        seen_fwd.add(dump(n0))
                        fwd.append(n0)
        for n in fwd:
            if True:
                found = True
                br = self._bind_roles(n, fr, fr_roles, 'Recognizer.register_model')
                ps = params_of(fn)
                ok = True
                for r in ('model_type', 'culture', 'ctor'):
                    a = br.get(r)
                    if isinstance(a, ast.Name) and a.id in ps and a.id not in rroles:
                        rroles[a.id] = r
                    else:
                        ok = False
                self.finding(ok, 'C17.register', mod, 'Recognizer.register_model',
                             'forwards (model_type, culture, ctor) = (%s)' % ', '.join(
                                 '$%d' % ps.index(q) for q in sorted(rroles, key=lambda q: ['model_type', 'culture', 'ctor'].index(rroles[q]))),
                             'Recognizer.register_model does not forward its three parameters unchanged', n.lineno)
        if not found:
            raise AnalysisError('%s Recognizer.register_model does not call self.model_factory.register_model' % mod.rel)
        self.roles['Recognizer.register_model'] = rroles
        # every registration made by initialize_configuration must reach the factory: register_model is unconditional up to
        # argument validation (a path may raise, it may not return without forwarding)
        pe = PathEnum(fn, '%s Recognizer.register_model' % mod.rel)

        def forwards(p):
            return any(isinstance(n, ast.Call) and isinstance(n.func, ast.Attribute) and n.func.attr == 'register_model'
                       and self_attr(n.func.value, 'model_factory') for e in path_nodes(p) for n in ast.walk(p.expand(e)))
        dropping = [p for p in pe.paths if p.exit[0] != 'raise' and not forwards(p)]
        conds = sorted({'%s is %s' % (p.show(ev[1]), ev[2]) for p in dropping for ev in p.events if ev[0] == 'cond'})
        self.finding(not dropping, 'C17.register', mod, 'Recognizer.register_model unconditional',
                     'every non-raising path forwards the registration' if not dropping else 'dropped when: ' + '; '.join(conds),
                     'Recognizer.register_model silently drops a registration when %s: a culture the recogniser was not created for '
                     'is then answered by the English model (or by whatever an earlier recogniser cached)' % '; '.join(conds),
                     dropping[0].exit[2] if dropping else fn.lineno)


# =====================================================================================================
# registration tables and getters (shared with C19)
# =====================================================================================================

class Reg:
    __slots__ = ('rc', 'owner', 'name', 'member', 'lam', 'call')

    def __init__(self, rc, owner, name, member, lam, call):
        self.rc, self.owner, self.name, self.member, self.lam, self.call = rc, owner, name, member, lam, call

    @property
    def construct(self):
        return "%s.register_model('%s', Culture.%s)" % (self.rc.name, self.name, self.member)


def as_lambda(rt, mod, ctor, local_defs, what):
    """the constructor argument of register_model as a lambda: a lambda, the name of a local / module-level `def` whose
    body is a single return (or of a local `name = lambda ...`); anything else is not understood"""
    if isinstance(ctor, ast.Lambda):
        return ctor
    fn = None
    if isinstance(ctor, ast.Name):
        fn = local_defs.get(ctor.id)
        if fn is None:
            r = rt.idx.resolve(mod, ctor.id)
            if r and r[0] == 'func':
                fn = r[2]
    if isinstance(fn, ast.Lambda):
        return fn
    if isinstance(fn, ast.FunctionDef):
        body = [st for st in fn.body if not (isinstance(st, ast.Expr) and isinstance(st.value, ast.Constant))]
        if len(body) == 1 and isinstance(body[0], ast.Return) and body[0].value is not None and not fn.decorator_list:
            lam = ast.Lambda(args=fn.args, body=body[0].value)
            return ast.fix_missing_locations(ast.copy_location(lam, fn))
        raise AnalysisError('%s: constructor function %s is not a single `return <model>`' % (what, fn.name))
    raise AnalysisError('%s: constructor argument %s is neither a lambda nor a function the reader can resolve'
                        % (what, ast.unparse(ctor)))


def close_lambda(lam, binding):
    """Python closure semantics for a constructor lambda created inside `for v in (a, b, ...)`: the lambda runs after the
    loop, so a free occurrence of the loop variable denotes the LAST value; a parameter default (`c=v`) is evaluated when
    the lambda is created and denotes this iteration's value. binding: loop variable -> (current value expr, last value expr).
    Returns a copy of the lambda with those occurrences replaced by the value expressions."""
    lam = copy.deepcopy(lam)
    a = lam.args
    pos = a.posonlyargs + a.args
    early = {}
    for prm, d in list(zip(pos[len(pos) - len(a.defaults):], a.defaults)) + \
            [(q, d) for q, d in zip(a.kwonlyargs, a.kw_defaults) if d is not None]:
        if isinstance(d, ast.Name) and d.id in binding:
            early[prm.arg] = binding[d.id][0]
    own = {x.arg for x in pos + a.kwonlyargs}

    class S(ast.NodeTransformer):
        def __init__(self, shadow):
            self.shadow = shadow

        def visit_Lambda(self, n):
            inner = {x.arg for x in n.args.posonlyargs + n.args.args + n.args.kwonlyargs}
            n.body = S(self.shadow | inner).visit(n.body)
            return n

        def visit_Name(self, n):
            if not isinstance(n.ctx, ast.Load) or n.id in self.shadow:
                return n
            if n.id in early:
                return ast.copy_location(copy.deepcopy(early[n.id]), n)
            if n.id in binding and n.id not in own:
                return ast.copy_location(copy.deepcopy(binding[n.id][1]), n)
            return n
    lam.body = S(set()).visit(lam.body)
    ast.fix_missing_locations(lam)
    return lam


def registrations(rt):
    """every self.register_model(name, Culture.X, lambda) of every Recognizer subclass"""
    if rt._regs is not None:
        return rt._regs
    rt.analyse()
    idx = rt.idx
    reg_fn = rt.meth(rt.Recognizer, 'register_model')
    roles = rt.roles.get('Recognizer.register_model') or {}
    if sorted(roles.values()) != ['ctor', 'culture', 'model_type']:
        roles = dict(zip(params_of(reg_fn), ['model_type', 'culture', 'ctor']))
    out = []
    rt.conditional_regs = []
    if not rt.recognizers:
        raise AnalysisError('no subclass of Recognizer found in the index')
    for rc in rt.recognizers:
        k, fn = idx.find_method(rc, 'initialize_configuration')
        if fn is None or k is rt.Recognizer:
            raise AnalysisError('%s does not define initialize_configuration' % rc.qual)
        from ..inline import normalise_registrations
        fn = normalise_registrations(idx, k.mod, rc, fn)    # a table of rows + loop + helper method reads like the flat list
        found = []

        def one(node, binding):
            what = '%s:%d register_model' % (k.mod.rel, node.lineno)
            if not (isinstance(node.func.value, ast.Name) and node.func.value.id == 'self'):
                raise AnalysisError('%s on a receiver other than self' % what)
            b = bind_call(node, reg_fn, what)
            by_role = {roles[p]: a for p, a in b.items() if p in roles}
            name, cult, ctor = by_role.get('model_type'), by_role.get('culture'), by_role.get('ctor')
            if not (isinstance(name, ast.Constant) and isinstance(name.value, str)):
                raise AnalysisError('%s: model type name is not a string literal' % what)
            if isinstance(cult, ast.Name) and cult.id in binding:
                cult = binding[cult.id][0]            # argument: evaluated at call time, this iteration's value
            member = rt.culture_member(k.mod, cult) if cult is not None else None
            if member is None:
                raise AnalysisError('%s: culture argument %s is not a Culture member'
                                    % (what, ast.unparse(cult) if cult is not None else '<missing>'))
            ctor = as_lambda(rt, k.mod, ctor, local_defs, what)
            found.append(Reg(rc, k, name.value, member, close_lambda(ctor, binding) if binding else ctor, node))

        def has_registration(node):
            return any(isinstance(x, ast.Call) and isinstance(x.func, ast.Attribute) and x.func.attr == 'register_model'
                       for x in ast.walk(node))

        def walk(stmts, binding):
            for st in stmts:
                if not has_registration(st):
                    continue
                if isinstance(st, ast.For):
                    what = '%s:%d' % (k.mod.rel, st.lineno)
                    if not isinstance(st.target, ast.Name) or not isinstance(st.iter, (ast.Tuple, ast.List)) or not st.iter.elts \
                            or st.orelse or any(isinstance(x, (ast.Break, ast.Continue)) for x in ast.walk(st)):
                        raise AnalysisError('%s: registrations inside a loop the reader cannot unroll (%s)'
                                            % (what, ast.unparse(st).split('\n')[0]))
                    elts = [binding[e.id][0] if isinstance(e, ast.Name) and e.id in binding else e for e in st.iter.elts]
                    for e in elts:
                        if rt.culture_member(k.mod, e) is None:
                            raise AnalysisError('%s: loop value %s is not a Culture member' % (what, ast.unparse(e)))
                    for e in elts:
                        walk(st.body, dict(binding, **{st.target.id: (e, elts[-1])}))
                elif isinstance(st, (ast.While, ast.AsyncFor, ast.FunctionDef, ast.AsyncFunctionDef, ast.ClassDef)):
                    raise AnalysisError('%s:%d registrations inside %s are not understood' % (k.mod.rel, st.lineno, type(st).__name__))
                elif isinstance(st, (ast.If, ast.With, ast.Try)):
                    if isinstance(st, ast.If):
                        rt.conditional_regs.append((rc, k, st))
                    for fld in ('body', 'orelse', 'finalbody'):
                        walk(getattr(st, fld, []) or [], binding)
                    for h in getattr(st, 'handlers', []) or []:
                        walk(h.body, binding)
                else:
                    for node in source_order(st):
                        if isinstance(node, ast.Call) and isinstance(node.func, ast.Attribute) and node.func.attr == 'register_model':
                            one(node, binding)
        local_defs = {}
        for x in ast.walk(fn):
            if x is not fn and isinstance(x, ast.FunctionDef):
                local_defs[x.name] = x
            elif isinstance(x, ast.Assign) and isinstance(x.value, ast.Lambda):
                for t in x.targets:
                    if isinstance(t, ast.Name):
                        local_defs[t.id] = x.value
        walk(fn.body, {})
        out.extend(found)
        n = len(found)
        if n == 0:
            raise AnalysisError('%s.initialize_configuration registers nothing' % rc.qual)
    rt._regs = out
    return out


def model_class_of(rt, reg):
    """class instantiated by the registration's lambda (its body must be a call of a class)"""
    body = reg.lam.body
    if isinstance(body, ast.Call):
        return rt.idx.resolve_class(reg.owner.mod, body.func)
    return None


def lambda_components(lam):
    body = lam.body
    if isinstance(body, ast.Call) and len(body.args) == 1 and not body.keywords \
            and isinstance(body.args[0], (ast.List, ast.Tuple)) and body.args[0].elts:
        return list(body.args[0].elts)
    return [body]


def languages_in(rt, mod, node):
    """[(language, class name)] of language-package classes referenced below node, in source order"""
    out = []
    for n in source_order(node):
        if isinstance(n, ast.Name) and isinstance(n.ctx, ast.Load):
            c = rt.idx.resolve_class(mod, n)
            if c is not None:
                lang = rt.language_of_class(c)
                if lang:
                    out.append((lang, c.name))
    return out


def classify_param(name):
    n = name.lower()
    if 'fallback' in n or 'default' in n:
        return 'fallback'
    if 'cult' in n:
        return 'culture'
    if 'opt' in n:
        return 'options'
    if 'ref' in n:
        return 'reference'
    if 'query' in n or 'text' in n or 'source' in n or 'input' in n:
        return 'query'
    if 'lazy' in n:
        return 'lazy'
    return None


def _calls_get_model(fn):
    return any(isinstance(n, ast.Call) and self_attr(n.func, 'get_model') for n in ast.walk(fn))


def _self_calls(fn):
    return {n.func.attr for n in ast.walk(fn) if isinstance(n, ast.Call) and self_attr(n.func)}


def getters_of(rt, rc):
    """model getters of a recogniser class (own or inherited below Recognizer): methods that call self.get_model, directly
    or through one same-class helper.  A method that calls self.get_model and is itself called by a sibling is that
    helper - it is inlined into its callers, not judged as a getter."""
    methods = []
    for k in rt.idx.mro(rc):
        if k is rt.Recognizer:
            break
        for name, fn in k.methods.items():
            if not name.startswith('__') and not any(m[1].name == name for m in methods):
                methods.append((k, fn))
    direct = {fn.name for k, fn in methods if _calls_get_model(fn)}
    called = set()
    for k, fn in methods:
        called |= (_self_calls(fn) - {fn.name})
    helpers = direct & called
    out = []
    for k, fn in methods:
        if fn.name in helpers:
            continue
        if fn.name in direct or (_self_calls(fn) & helpers):
            out.append((k, fn))
    return out


MAX_HELPER_DEPTH = 2


class _SelfMethods(dict):
    """methods of `self` while a getter is interpreted: get_model is recorded; any other method of the recogniser class
    (below Recognizer; static or not) is inlined - parameters bound to the call's arguments, defaults evaluated - down to
    MAX_HELPER_DEPTH nested levels; deeper nesting fails closed"""

    def __init__(self, rt, k, base, depth, what):
        dict.__init__(self, base)
        self.rt, self.k, self.base, self.depth, self.what = rt, k, base, depth, what

    def _find(self, name):
        hk, hfn = self.rt.idx.find_method(self.k, name)
        if hfn is None or hk is self.rt.Recognizer or hk not in self.rt.idx.mro(self.k):
            return None
        below = self.rt.idx.mro(self.k)
        if self.rt.Recognizer in below and below.index(hk) > below.index(self.rt.Recognizer):
            return None
        return hk, hfn

    def __contains__(self, name):
        return name in self.base or self._find(name) is not None

    def __getitem__(self, name):
        if name in self.base:
            return self.base[name]
        hk, hfn = self._find(name)
        w = '%s>%s' % (self.what, name)
        if self.depth >= MAX_HELPER_DEPTH:
            raise AnalysisError('%s: helper methods nested deeper than %d levels are not followed (self.%s)'
                                % (self.what, MAX_HELPER_DEPTH, name))
        if any(isinstance(d, ast.Name) and d.id == 'property' for d in hfn.decorator_list):
            raise AnalysisError('%s: self.%s is a property - not modelled' % (self.what, name))
        rt = self.rt
        if is_static(hfn):
            return lambda args, kwargs: rt.interp.call(hk.mod, hfn, list(args), kwargs, hk, w)
        inner = SelfVal(methods=_SelfMethods(rt, self.k, self.base, self.depth + 1, w))
        if any(isinstance(d, ast.Name) and d.id == 'classmethod' for d in hfn.decorator_list):
            return lambda args, kwargs: rt.interp.call(hk.mod, hfn, [ClassVal(self.k)] + list(args), kwargs, hk, w)
        return lambda args, kwargs: rt.interp.call(hk.mod, hfn, [inner] + list(args), kwargs, hk, w)


FALLBACK = Opaque('the getter\'s fallback argument')


def getter_route(rt, k, fn, code):
    """evaluate a get_*_model method for a concrete culture argument -> (name, culture value, fallback forwarded?)"""
    gm = rt.meth(rt.Recognizer, 'get_model')
    gm_params = params_of(gm)
    gm_roles = rt.roles.get('Recognizer.get_model') or {}
    if sorted(gm_roles.values()) != ['culture', 'fallback', 'model_type']:
        gm_roles = dict(zip(gm_params, ['model_type', 'culture', 'fallback']))
    calls = []
    token = Opaque('model')

    def hook(args, kwargs):
        b = dict(zip(gm_params, args))
        b.update(kwargs)
        calls.append({gm_roles[p]: v for p, v in b.items() if p in gm_roles})
        return token

    ps = params_of(fn)
    kinds = {p: classify_param(p) for p in ps}
    if sorted(kinds.values(), key=str) != sorted(['culture', 'fallback'], key=str):
        raise AnalysisError('%s:%d %s.%s: parameters %s are not (culture, fallback)' % (k.mod.rel, fn.lineno, k.name, fn.name, ps))
    env_args = {p: (code if kinds[p] == 'culture' else FALLBACK) for p in ps}
    what = '%s %s.%s' % (k.mod.rel, k.name, fn.name)
    me = SelfVal(methods=_SelfMethods(rt, k, {'get_model': hook}, 0, what))
    r = rt.interp.call(k.mod, fn, [me], env_args, k, what)
    if r is not token or len(calls) != 1:
        raise AnalysisError('%s: for culture %r the getter does not return the result of exactly one self.get_model call' % (what, code))
    c = calls[0]
    return c.get('model_type'), c.get('culture'), c.get('fallback') is FALLBACK


def culture_inputs(rt):
    """representative culture arguments: every supported code in three letter cases, one regional variant per
    language prefix, an unknown language, None and ''"""
    codes = sorted(set(rt.codes.values()))
    out = [None, '']
    for c in codes:
        out += [c, c.upper(), c.title()]
    for p in sorted({c.split('-')[0] for c in codes}):
        for v in (p + '-zz', p.upper() + '-ZZ'):
            if v.lower() not in codes:
                out.append(v)
    unk = next(u for u in ('xx', 'qq', 'zz', 'ww', 'yy') if not any(c.startswith(u) or u.startswith(c.split('-')[0]) for c in codes))
    out += [unk + '-yy', unk.upper() + '-YY']
    return out


def reference_map(code, supported):
    """the decision table of the property statement (language = sub-tag before the first '-')"""
    if not code:
        return None
    c = code.lower()
    if c in supported:
        return c
    lang = c.split('-')[0].strip()
    cands = [s for s in supported if s.split('-')[0] == lang]
    if len(cands) == 1:
        return cands[0]
    stars = [s for s in cands if '*' in s]
    if len(cands) > 1 and len(stars) == 1:
        return stars[0]
    return c


# =====================================================================================================
# rules
# =====================================================================================================

def code_problem(node):
    """why a Culture member value is not an acceptable culture code (None when fine)"""
    if not (isinstance(node, ast.Constant) and isinstance(node.value, str)):
        return 'not a string literal'
    v = node.value
    if not v:
        return 'empty'
    if v != v.lower():
        return 'not lower case (map_to_nearest_language lower-cases the request before comparing)'
    if v != v.strip():
        return 'surrounded by white space'
    return None


def check_codes(chk, rt):
    mod = rt.culture_mod
    seen = {}
    for m, (node, line) in sorted(rt.members.items()):
        pb = code_problem(node)
        shown = repr(node.value) if isinstance(node, ast.Constant) else ast.unparse(node)
        chk.judge(pb is None, 'C17.codes', mod.path, 'Culture.%s' % m, shown,
                  'culture code %s is %s: requests for it can never match' % (shown, pb), line)
        if isinstance(node, ast.Constant):
            if node.value in seen:
                chk.bad('C17.codes', mod.path, 'Culture.%s' % m, 'same code as Culture.%s: %r' % (seen[node.value], node.value),
                        'two cultures share the code %r: their registrations collide' % node.value, line)
            seen.setdefault(node.value, m)
    got = rt.supported_codes()
    want = set(rt.codes.values())
    missing = sorted(want - set(got))
    extra = sorted(set(got) - want)
    fn = rt.meth(rt.Culture, '_get_supported_culture_codes')
    chk.judge(not missing and not extra, 'C17.codes', mod.path, 'Culture._get_supported_culture_codes',
              'missing=%s extra=%s' % (missing, extra),
              'the supported-code list differs from the Culture members: missing %s, extra %s' % (missing, extra), fn.lineno)
    chk.control('C17.codes', code_problem(ast.parse("X = 'Fr-fr'").body[0].value) is not None
                and code_problem(ast.parse("X = 'fr-fr'").body[0].value) is None)


def _map_inputs(rt):
    inputs = culture_inputs(rt)
    fn = rt.meth(rt.Culture, 'map_to_nearest_language')
    import re
    for n in ast.walk(fn):
        if isinstance(n, ast.Constant) and isinstance(n.value, str) and re.fullmatch(r'[A-Za-z]{2,3}(-[A-Za-z*]{1,8})?', n.value):
            for v in (n.value, n.value.upper()):
                if v not in inputs:
                    inputs.append(v)
    return inputs


def _row_of(code, supported):
    if not code:
        return 'falsy -> None'
    c = code.lower()
    if c in supported:
        return 'supported code in any letter case -> itself, lower-cased'
    lang = c.split('-')[0]
    cands = [s for s in supported if s.split('-')[0] == lang]
    if len(cands) == 1:
        return 'variant of a language with one supported culture -> that culture'
    if len(cands) > 1:
        return 'variant of a language with several cultures -> its wildcard culture if any, else unchanged'
    return 'unknown language -> unchanged, lower-cased'


def check_mapping(chk, rt, fn_override=None):
    mod = rt.culture_mod
    supported = rt.supported_codes()
    fn = fn_override or rt.meth(rt.Culture, 'map_to_nearest_language')
    rows = {}
    bad = 0
    for code in _map_inputs(rt):
        want = reference_map(code, supported)
        try:
            got = rt.interp.call(mod, fn, [code], None, None, 'Culture.map_to_nearest_language')
            shown = repr(got)
        except Crash as e:
            got, shown = Crash, 'raises %s' % e.kind
        ok = (got == want) or (want is None and got is not Crash and not got)
        row = _row_of(code, supported)
        rows.setdefault(row, [0, 0])[0 if ok else 1] += 1
        if fn_override is not None:
            bad += 0 if ok else 1
            continue
        chk.judge(ok, 'C17.map', mod.path, 'Culture.map_to_nearest_language(%r)' % (code,), '-> %s' % shown,
                  'culture %r maps to %s, the decision table says %r (%s)' % (code, shown, want, row), fn.lineno)
    if fn_override is not None:
        return bad
    chk.observe('C17.map decision table rows (inputs agreeing/disagreeing): ' +
                '; '.join('%s: %d/%d' % (r, a, b) for r, (a, b) in sorted(rows.items())))
    # positive control: a variant that resolves a two-culture language to its first culture must disagree
    ctl = ast.parse(
        "def map_to_nearest_language(culture_code):\n"
        "    if not culture_code:\n        return None\n"
        "    culture_code = culture_code.lower()\n"
        "    codes = Culture._get_supported_culture_codes()\n"
        "    if culture_code not in codes:\n"
        "        cands = [c for c in codes if c.startswith(culture_code.split('-')[0])]\n"
        "        if cands:\n            culture_code = cands[0]\n"
        "    return culture_code\n").body[0]
    chk.control('C17.map', check_mapping(chk, rt, ctl) > 0)


def super_init_call(e):
    return (isinstance(e, ast.Call) and isinstance(e.func, ast.Attribute) and e.func.attr == '__init__'
            and isinstance(e.func.value, ast.Call) and isinstance(e.func.value.func, ast.Name)
            and e.func.value.func.id == 'super')


def enum_members(rt, cls):
    out = {}
    for n, v in cls.attrs.items():
        if isinstance(v, ast.Constant) and isinstance(v.value, int) and not isinstance(v.value, bool):
            out[n] = v.value
    return out


def init_analysis(rt, rc, fn, owner):
    """-> dict(problems=[...], roles={param: role}, guard=test expr|None, accepted=[member names], rejected=[...], enum=Cls|None)"""
    res = {'problems': [], 'roles': {}, 'guard': None, 'accepted': None, 'rejected': None, 'enum': None, 'line': fn.lineno}
    base_init = rt.meth(rt.Recognizer, '__init__')
    base_roles = rt.roles.get('Recognizer.__init__') or {}
    pe = PathEnum(fn, '%s %s.__init__' % (owner.mod.rel, owner.name))
    ps = params_of(fn)
    opt_param = None
    n_super = 0
    for p in pe.paths:
        pos = p.index_of(lambda ev: ev[0] == 'expr' and super_init_call(ev[1]))
        if pos is None:
            if p.exit[0] != 'raise':
                res['problems'].append('a path completes without calling super().__init__')
            continue
        n_super += 1
        call = p.events[pos][1]
        b = bind_call(call, base_init, '%s.__init__ super call' % owner.name)
        by_role = {base_roles[q]: a for q, a in b.items() if q in base_roles}
        for r in ('target_culture', 'options', 'lazy'):
            a = by_role.get(r)
            if isinstance(a, ast.Name) and a.id in ps:
                res['roles'][a.id] = r
            else:
                res['problems'].append('super().__init__ receives %s <- %s' % (r, 'nothing' if a is None else p.show(a)))
        o = by_role.get('options')
        if isinstance(o, ast.Name) and o.id in ps:
            opt_param = o.id
            guards = [ev for ev in p.events[:pos] if ev[0] == 'cond' and not ev[2] and opt_param in names_in(p.expand(ev[1]))]
            if not guards:
                res['problems'].append('super().__init__ is reached without a test of `%s`' % opt_param)
            else:
                # consecutive `if <test on options>: raise` statements are one guard: options are rejected when any fires
                tests = []
                for gv in guards:
                    t = p.expand(gv[1])
                    if dump(t) not in [dump(x) for x in tests]:
                        tests.append(t)
                res['guard_tests'] = tests
                res['guard'] = tests[0] if len(tests) == 1 else ast.BoolOp(op=ast.Or(), values=tests)
                res['line'] = guards[0][3]
    if n_super == 0:
        res['problems'].append('super().__init__ is never called')
    if res['guard'] is not None:
        for gt in res['guard_tests']:
            gd = dump(gt)
            raising = [p for p in pe.paths if p.exit[0] == 'raise'
                       and p.index_of(lambda ev: ev[0] == 'expr' and super_init_call(ev[1])) is None
                       and p.events and p.events[-1][0] == 'cond' and p.events[-1][2] and dump(p.expand(p.events[-1][1])) == gd]
            if not raising:
                res['problems'].append('the options test `%s` does not lead to a raise before super().__init__' % ast.unparse(gt))
            elif not all(is_value_error(p.exit[1]) for p in raising):
                res['problems'].append('invalid options raise something other than ValueError')
        # evaluate the guard over the option enum
        dflt = defaults_of(fn).get(opt_param)
        enum = None
        if isinstance(dflt, ast.Attribute):
            enum = rt.idx.resolve_class(owner.mod, dflt.value)
        if enum is not None:
            res['enum'] = enum
            members = enum_members(rt, enum)
            if members:
                it = Interp(rt.idx)

                def rejected(v):
                    return it.truth(it.ev(res['guard'], {opt_param: v}, owner.mod, None, '%s.__init__ guard' % owner.name), 'guard')
                try:
                    res['accepted'] = sorted(m for m, v in members.items() if not rejected(v))
                    res['rejected'] = sorted(m for m, v in members.items() if rejected(v))
                    dv = members.get(dflt.attr)
                    if dv is None or rejected(dv):
                        res['problems'].append('the default options value %s is rejected' % ast.unparse(dflt))
                    for probe in (-1, 2 * max(members.values()) + 1 if max(members.values()) > 0 else 1):
                        if not rejected(probe):
                            res['problems'].append('the out-of-range value %d is accepted' % probe)
                    combo = 0
                    for mname in res['accepted']:
                        combo |= members[mname]
                    if len([mname for mname in res['accepted'] if members[mname]]) > 1 and rejected(combo):
                        res['combo_rejected'] = [mname for mname in res['accepted'] if members[mname]]
                except Crash as e:
                    res['problems'].append('the options test raises %s for some member' % e.kind)
    return res


def check_inits(chk, rt):
    rt.init_info = {}
    for rc in rt.recognizers:
        k, fn = rt.idx.find_method(rc, '__init__')
        if fn is None:
            raise AnalysisError('%s has no __init__' % rc.qual)
        if k is rt.Recognizer:
            chk.bad('C17.init', rc.mod.path, '%s.__init__' % rc.name, 'inherits Recognizer.__init__',
                    'the recogniser does not validate its options', rc.node.lineno)
            continue
        info = init_analysis(rt, rc, fn, k)
        rt.init_info[rc.qual] = info
        detail = 'guard: %s; accepted members: %s' % (ast.unparse(info['guard']) if info['guard'] is not None else 'none',
                                                     info['accepted'])
        if info['guard'] is not None:
            # normal form independent of parameter / local names
            detail = 'rejects options unless in %s; forwards (target_culture, options, lazy)' % (info['accepted'],)
        chk.judge(not info['problems'], 'C17.init', k.mod.path, '%s.__init__' % rc.name,
                  detail if not info['problems'] else '; '.join(sorted(set(info['problems']))),
                  '%s.__init__: %s' % (rc.name, '; '.join(sorted(set(info['problems'])))), info['line'])
        if info['rejected']:
            chk.observe('C17.init %s rejects these members of %s: %s' % (rc.name, info['enum'].name, ', '.join(info['rejected'])))
        if info.get('combo_rejected'):
            chk.observe('C17.init %s rejects the combination of accepted flags %s (range test on an IntFlag)'
                        % (rc.name, ' | '.join(info['combo_rejected'])))
    ctl = ast.parse("class R:\n def __init__(self, target_culture=None, options=O.NONE, lazy_initialization=True):\n"
                    "  super().__init__(target_culture, options, lazy_initialization)\n").body[0].body[0]
    fake_owner = type('O', (), {'mod': rt.recognizer_mod, 'name': 'control'})()
    chk.control('C17.init', bool(init_analysis(rt, None, ctl, fake_owner)['problems']))


def options_forwarding(rt, mod, lam):
    """[(class name, verdict, text, line)] for every component in the lambda whose __init__ takes options"""
    out = []
    lp = [a.arg for a in (lam.args.posonlyargs + lam.args.args)[:1]]     # the parameter ModelFactory passes options in
    for n in source_order(lam.body):
        if not isinstance(n, ast.Call):
            continue
        c = rt.idx.resolve_class(mod, n.func)
        if c is None:
            continue
        k, init = rt.idx.find_method(c, '__init__')
        if init is None:
            continue
        ops = [p for p in params_of(init) if role_of_field(p) == 'options' and 'opt' in p.lower()]
        if not ops:
            continue
        try:
            b = bind_call(n, init, '%s(...)' % c.name)
        except AnalysisError:
            out.append((c.name, 'bad', 'arguments do not bind to %s.__init__' % c.name, n.lineno))
            continue
        for op in ops:
            a = b.get(op)
            if a is None:
                if op in defaults_of(init):
                    out.append((c.name, 'omitted', '%s.%s left at its default' % (c.name, op), n.lineno))
                else:
                    out.append((c.name, 'bad', '%s.%s (required) is not passed' % (c.name, op), n.lineno))
            elif isinstance(a, ast.Name) and a.id in lp:
                out.append((c.name, 'ok', '%s.%s <- lambda parameter' % (c.name, op), n.lineno))
            else:
                out.append((c.name, 'bad', '%s.%s <- %s instead of the lambda parameter' % (c.name, op, ast.unparse(a)), n.lineno))
    return out


def component_languages(rt, mod, lam, culture_lang):
    """verdict on the languages of a registration's components -> (ok, detail, msg)"""
    comps = lambda_components(lam)
    per = [languages_in(rt, mod, c) for c in comps]
    flat = [x for c in per for x in c]
    if not flat:
        return None, 'no language-specific component', ''
    first = [l for l, _ in per[0]]
    want = culture_lang.lower()
    detail = ' | '.join(','.join(sorted({l for l, _ in c})) or '-' for c in per)
    if not first:
        return False, detail, 'the first component has no language-specific class'
    if set(first) != {want}:
        wrong = sorted({n for l, n in per[0] if l != want})
        return False, detail, 'the first component is built from %s, not from %s classes' % (', '.join(wrong), culture_lang)
    for i, c in enumerate(per[1:], 2):
        ls = {l for l, _ in c}
        if not ls <= {want} and ls != {'english'}:
            return False, detail, 'component %d mixes languages %s (only a pure English secondary component is accepted)' \
                % (i, sorted(ls))
    return True, detail, ''


def check_registrations(chk, rt, regs=None, with_controls=True):
    regs = registrations(rt) if regs is None else regs
    idx = rt.idx
    # names unique across recognisers; no duplicate (name, culture) inside one
    by_name = {}
    for r in regs:
        by_name.setdefault(r.name, []).append(r)
    for name, rs in sorted(by_name.items()):
        owners = sorted({r.rc.name for r in rs})
        chk.judge(len(owners) == 1, 'C17.reg-unique', rs[0].owner.mod.path, "model type '%s'" % name,
                  'registered by %s' % ', '.join(owners),
                  "model type name '%s' is registered by %s; the model cache is process wide and not keyed by recogniser"
                  % (name, ' and '.join(owners)), rs[0].call.lineno)
    seen = {}
    for r in regs:
        k = (r.rc.qual, r.name, r.member)
        chk.judge(k not in seen, 'C17.reg-duplicate', r.owner.mod.path, r.construct, 'registered once' if k not in seen else 'registered again',
                  'second registration of the same (model type, culture): register_model raises ValueError, the recogniser '
                  'cannot be constructed', r.call.lineno)
        seen[k] = r
    # every supported culture of a language the recogniser serves is registered (non-wildcard codes)
    by_rc_name = {}
    for r in regs:
        by_rc_name.setdefault((r.rc.qual, r.name), []).append(r)
    for (rq, name), rs in sorted(by_rc_name.items()):
        have = {r.member for r in rs}
        langs = {rt.language_of_member(m) for m in have}
        for lang in sorted(langs):
            sibs = sorted(m for m in rt.members if rt.language_of_member(m) == lang and m in rt.codes)
            via = sorted(m for m in sibs if m in have)
            for m in sibs:
                construct = "%s '%s' %s cultures" % (rs[0].rc.name, name, lang)
                if m in have:
                    continue
                if '*' in rt.codes[m]:
                    chk.exempt('C17.reg-coverage', rs[0].owner.mod.path, construct,
                               'Culture.%s (%s) is the wildcard that map_to_nearest_language returns for unlisted variants; it has no '
                               'registration in any recogniser and is served by the fallback' % (m, rt.codes[m]),
                               'Culture.%s not registered' % m, rs[0].call.lineno)
                else:
                    chk.bad('C17.reg-coverage', rs[0].owner.mod.path, construct,
                            'registered for %s, not for Culture.%s' % (', '.join('Culture.' + v for v in via), m),
                            "'%s' is registered for %s but not for the supported culture Culture.%s (%s): map_to_nearest_language "
                            "leaves %s unchanged, so the request is answered by the English model (or ValueError) although the %s "
                            "model exists" % (name, ', '.join(via), m, rt.codes[m], rt.codes[m], lang), rs[0].call.lineno)
            if all(m in have for m in sibs if '*' not in rt.codes[m]):
                chk.ok('C17.reg-coverage', rs[0].owner.mod.path, "%s '%s' %s cultures" % (rs[0].rc.name, name, lang),
                       'registered for %s' % ', '.join(via), rs[0].call.lineno)
    for rc_, k_, st in getattr(rt, 'conditional_regs', []):
        if regs is rt._regs:
            chk.bad('C17.reg-coverage', k_.mod.path, '%s.initialize_configuration' % rc_.name,
                    'registration under `if %s`' % ast.unparse(st.test),
                    'a registration is conditional on `%s`: the constructor table depends on run-time state' % ast.unparse(st.test),
                    st.lineno)
    # name <-> class bijection; class is a Model; lambda has one parameter
    name2cls, cls2name = {}, {}
    for r in regs:
        c = model_class_of(rt, r)
        if c is None:
            raise AnalysisError('%s:%d %s: the lambda body is not a call of a class the index can resolve'
                                % (r.owner.mod.rel, r.call.lineno, r.construct))
        is_model = rt.Model in idx.mro(c)
        n1 = name2cls.setdefault(r.name, c)
        n2 = cls2name.setdefault(c.qual, r.name)
        npos = len(r.lam.args.args) + len(r.lam.args.posonlyargs)
        nreq = npos - len(r.lam.args.defaults)
        one_arg = (nreq <= 1 <= npos or (nreq == 0 and r.lam.args.vararg is not None)) \
            and not any(d is None for d in r.lam.args.kw_defaults)
        ok = is_model and n1 is c and n2 == r.name and one_arg
        msg = []
        if not is_model:
            msg.append('%s is not a Model subclass' % c.name)
        if n1 is not c:
            msg.append("'%s' is built as %s here and as %s elsewhere" % (r.name, c.name, n1.name))
        if n2 != r.name:
            msg.append("%s is also registered as '%s'" % (c.name, n2))
        if not one_arg:
            msg.append('the constructor lambda cannot be called with exactly one argument (ModelFactory calls model_ctor(options))')
        chk.judge(ok, 'C17.reg-class', r.owner.mod.path, r.construct, 'builds %s' % c.name, '; '.join(msg), r.call.lineno)
    # language of the components
    for r in regs:
        lang = rt.language_of_member(r.member)
        ok, detail, msg = component_languages(rt, r.owner.mod, r.lam, lang)
        if ok is None:
            chk.exempt('C17.reg-language', r.owner.mod.path, r.construct, 'culture-agnostic components only', detail, r.call.lineno)
        else:
            if ok and r.member in LANGUAGE_OF_MEMBER:
                detail += ' (Culture.%s is served by %s, accepted by table)' % (r.member, lang)
            chk.judge(ok, 'C17.reg-language', r.owner.mod.path, r.construct, detail,
                      'registered for Culture.%s (%s) but %s' % (r.member, lang, msg), r.call.lineno)
    # Culture.* literals inside the lambda name the registered culture
    for r in regs:
        for n in source_order(r.lam.body):
            m = rt.culture_member(r.owner.mod, n)
            if m is not None:
                chk.judge(m == r.member, 'C17.reg-culture', r.owner.mod.path, r.construct, 'lambda mentions Culture.%s' % m,
                          'the model registered for Culture.%s is configured with Culture.%s' % (r.member, m), n.lineno)
    # options forwarding
    for r in regs:
        info = rt.init_info.get(r.rc.qual) or {}
        acc = info.get('accepted')
        for cname, verdict, text, line in options_forwarding(rt, r.owner.mod, r.lam):
            if verdict == 'ok':
                chk.ok('C17.reg-options', r.owner.mod.path, r.construct, text, line)
            elif verdict == 'omitted' and acc is not None and len(acc) <= 1:
                chk.exempt('C17.reg-options', r.owner.mod.path, r.construct,
                           '%s accepts the single option value %s, so the default cannot differ from the request' % (r.rc.name, acc),
                           text, line)
            else:
                chk.bad('C17.reg-options', r.owner.mod.path, r.construct, text,
                        'the model is cached under the requested options but built without them: %s' % text, line)
    # positive controls on embedded registrations
    if regs and with_controls:
        fr = next((r for r in regs if r.member == 'French'), None)
        es = next((r for r in regs if r.member == 'Spanish' and fr is not None and r.name == fr.name and r.rc is fr.rc), None)
        if fr is not None and es is not None:
            ok, _, _ = component_languages(rt, es.owner.mod, es.lam, rt.language_of_member('French'))
            chk.control('C17.reg-language', ok is False)
        dt = next((r for r in regs if any(v == 'ok' for _, v, _, _ in options_forwarding(rt, r.owner.mod, r.lam))), None)
        if dt is not None:
            lam = copy.deepcopy(dt.lam)
            pname = lam.args.args[0].arg
            for n in ast.walk(lam.body):
                if isinstance(n, ast.Name) and n.id == pname:
                    n.id = '_some_constant'
            chk.control('C17.reg-options', any(v == 'bad' for _, v, _, _ in options_forwarding(rt, dt.owner.mod, lam)))


def judge_getter(chk, rt, rc, k, fn, mine, inputs):
    """one get_*_model method, evaluated for every representative culture argument -> set of names it asks for"""
    member_of_code = {v: m for m, v in rt.codes.items()}
    construct = '%s.%s' % (rc.name, fn.name)
    names, routes, fb_ok = set(), {}, True
    for code in inputs:
        name, cult, fb = getter_route(rt, k, fn, code)
        names.add(name)
        fb_ok = fb_ok and fb
        if cult != code:
            routes.setdefault((code.lower().split('-')[0] if isinstance(code, str) and code else repr(code), cult), []).append(code)
    eng = all(any(r.name == n and r.member == 'English' for r in mine) for n in names)
    chk.judge(len(names) == 1 and eng and all(isinstance(n, str) for n in names), 'C17.getter', k.mod.path, construct,
              'asks for %s' % ', '.join(repr(n) for n in sorted(names, key=str)),
              'the getter asks for a model type that %s has not registered for Culture.English: the fallback has no target'
              % rc.name if len(names) == 1 else 'the model type depends on the culture argument', fn.lineno)
    chk.judge(fb_ok, 'C17.getter', k.mod.path, construct + ' fallback', 'forwards its fallback argument=%s' % fb_ok,
              'the getter does not forward the caller\'s fallback flag', fn.lineno)
    if not routes:
        chk.ok('C17.getter', k.mod.path, construct + ' culture', 'forwards its culture argument unchanged', fn.lineno)
    for (prefix, target), codes in sorted(routes.items(), key=str):
        m = member_of_code.get(target)
        detail = '%s-* -> %s' % (prefix, 'Culture.%s' % m if m else repr(target))
        registered = m is not None and all(any(r.name == n and r.member == m for r in mine) for n in names)
        own_lang = m is not None and rt.codes[m].split('-')[0] == prefix
        if not registered:
            chk.bad('C17.getter', k.mod.path, construct + ' culture', detail,
                    'requests for %s are redirected to %s, for which no such model is registered' % (codes, detail), fn.lineno)
        elif own_lang:
            chk.ok('C17.getter', k.mod.path, construct + ' culture', detail, fn.lineno)
        elif (prefix, m) in ACCEPTED_ROUTES:
            chk.exempt('C17.getter', k.mod.path, construct + ' culture',
                       'cross-platform routing (the .NET, JavaScript and Java SequenceRecognizer do the same)', detail, fn.lineno)
        else:
            chk.bad('C17.getter', k.mod.path, construct + ' culture', detail,
                    'requests for %s are answered by the model of another language (%s)' % (codes, detail), fn.lineno)
    return names


def check_getters(chk, rt):
    regs = registrations(rt)
    inputs = culture_inputs(rt)
    for rc in rt.recognizers:
        mine = [r for r in regs if r.rc is rc]
        gs = getters_of(rt, rc)
        if not gs:
            chk.bad('C17.getter', rc.mod.path, rc.name, 'no get_*_model method', 'the recogniser exposes no model getter', rc.node.lineno)
        asked = set()
        for k, fn in gs:
            asked |= judge_getter(chk, rt, rc, k, fn, mine, inputs)
        unreachable = sorted({r.name for r in mine} - {a for a in asked if isinstance(a, str)})
        chk.judge(not unreachable, 'C17.getter', rc.mod.path, rc.name + ' reachability', 'registered names without a getter: %s' % unreachable,
                  'model types %s are registered but no getter asks for them' % unreachable, rc.node.lineno)


def recognizer_constructions(rt, mod, call):
    """the expression a model getter is invoked on -> (recogniser Cls, [constructor calls in the caller's terms],
    (helper Mod, helper FunctionDef) | None).  Either `Recognizer(...)` itself or one level of module-level helper
    `h(...)` that constructs the recogniser; the helper is inlined (its parameters replaced by the call's arguments,
    locals expanded).  None when neither."""
    if not isinstance(call, ast.Call):
        return None
    rc = rt.idx.resolve_class(mod, call.func)
    if rc is not None and rc in rt.recognizers:
        return rc, [call], None
    if not isinstance(call.func, ast.Name):
        return None
    r = rt.idx.resolve(mod, call.func.id)
    if not r or r[0] != 'func':
        return None
    hmod, h = r[1], r[2]
    what = '%s %s' % (hmod.rel, h.name)
    b = bind_call(call, h, what, method=False)
    for q, d in defaults_of(h, method=False).items():
        b.setdefault(q, d)
    pe = PathEnum(h, what)
    found, seen, rcs = [], set(), set()

    class S(ast.NodeTransformer):
        def visit_Name(self, n):
            if isinstance(n.ctx, ast.Load) and n.id in b:
                return copy.deepcopy(b[n.id])
            return n
    for p in pe.paths:
        for e in path_nodes(p):
            for n in ast.walk(e):
                if isinstance(n, ast.Call) and id(n) not in seen:
                    c = rt.idx.resolve_class(hmod, n.func)
                    if c is not None and c in rt.recognizers:
                        seen.add(id(n))
                        rcs.add(c)
                        found.append(S().visit(p.expand(n)))
    if len(rcs) != 1:
        return None
    return rcs.pop(), found, (hmod, h)


def judge_helper(chk, rt, rc, mod, fname, fn):
    """one public recognize_* function: culture / options / fallback / query (/ reference) reach the right places"""
    construct = fname
    ps = params_of(fn, method=False)
    kind = {p: classify_param(p) for p in ps}
    if ps and kind[ps[0]] is None:
        kind[ps[0]] = 'query'
    inv = {v: p for p, v in kind.items() if v}
    for need in ('query', 'culture', 'options', 'fallback'):
        if need not in inv:
            raise AnalysisError('%s:%d %s: no %s parameter among %s' % (mod.rel, fn.lineno, fname, need, ps))
    pe = PathEnum(fn, '%s %s' % (mod.rel, fname))
    problems = []
    forms = set()
    for p in pe.paths:
        if p.exit[0] != 'return' or p.exit[1] is None:
            problems.append('an exit is not `return <model>.parse(...)`')
            continue
        ex = p.expand(p.exit[1])
        if not (isinstance(ex, ast.Call) and isinstance(ex.func, ast.Attribute) and ex.func.attr == 'parse'):
            problems.append('returns %s' % ast.unparse(ex)[:80])
            continue
        parse_args = list(ex.args) + [k.value for k in ex.keywords]
        if not (parse_args and isinstance(parse_args[0], ast.Name) and parse_args[0].id == inv['query']):
            problems.append('parse() does not receive the query first')
        if 'reference' in inv and not any(isinstance(a, ast.Name) and a.id == inv['reference'] for a in parse_args[1:]):
            problems.append('the reference parameter does not reach parse()')
        g = ex.func.value
        if not (isinstance(g, ast.Call) and isinstance(g.func, ast.Attribute)):
            problems.append('the model does not come from a getter call')
            continue
        gk, gfn = rt.idx.find_method(rc, g.func.attr)
        if gfn is None or not any(gfn is x[1] for x in getters_of(rt, rc)):
            problems.append('%s is not a model getter of %s' % (g.func.attr, rc.name))
            continue
        gb = bind_call(g, gfn, '%s getter call' % fname)
        for gp, a in gb.items():
            role = classify_param(gp)
            if not (isinstance(a, ast.Name) and kind.get(a.id) == role):
                problems.append('getter %s <- %s' % (gp, ast.unparse(a)))
        for gp in params_of(gfn):
            if gp not in gb:
                problems.append('getter %s is not passed (default used)' % gp)
        src = recognizer_constructions(rt, mod, g.func.value)
        if src is None or src[0] is not rc or not src[1]:
            problems.append('the getter is not called on a %s constructed here or in one module-level helper' % rc.name)
            continue
        ik, ifn = rt.idx.find_method(rc, '__init__')
        iroles = (rt.init_info.get(rc.qual) or {}).get('roles') or {q: classify_param(q) for q in params_of(ifn)}
        for rcall in src[1]:
            rb = bind_call(rcall, ifn, '%s recogniser construction' % fname)
            got = {}
            for q, a in rb.items():
                r = iroles.get(q)
                r = 'culture' if r == 'target_culture' else r
                got[r] = a
            for r in ('culture', 'options'):
                a = got.get(r)
                if not (isinstance(a, ast.Name) and kind.get(a.id) == r):
                    problems.append('%s(%s <- %s)' % (rc.name, r, 'default' if a is None else ast.unparse(a)))
        forms.add('%s($culture, $options).%s($culture, $fallback).parse($query%s)'
                  % (rc.name, g.func.attr, ', $reference' if 'reference' in inv else ''))
    chk.judge(not problems, 'C17.helper', mod.path, construct,
              '; '.join(sorted(forms)) if not problems else '; '.join(sorted(set(problems))),
              '%s does not forward its arguments: %s' % (fname, '; '.join(sorted(set(problems)))), fn.lineno)


def entry_points(rt, rc):
    """module-level functions of a recogniser module that end in `<model>.parse(...)` and obtain the model from rc,
    constructed in the function or in one module-level helper it calls"""
    mod = rc.mod
    builders = {name for name, fn in mod.funcs.items()
                if any(isinstance(c, ast.Call) and rt.idx.resolve_class(mod, c.func) is rc for c in ast.walk(fn))}
    out = []
    for fname, fn in sorted(mod.funcs.items()):
        calls = [c for c in ast.walk(fn) if isinstance(c, ast.Call)]
        if not any(isinstance(c.func, ast.Attribute) and c.func.attr == 'parse' for c in calls):
            continue
        if fname in builders or any(isinstance(c.func, ast.Name) and c.func.id in builders for c in calls):
            out.append((fname, fn))
    return out


def check_helpers(chk, rt):
    n = 0
    for rc in rt.recognizers:
        for fname, fn in entry_points(rt, rc):
            n += 1
            judge_helper(chk, rt, rc, rc.mod, fname, fn)
    return n


# ---- memo discipline: any module- or class-level dict used as a memo between the entry points and ModelFactory ----------

def _dict_value(v):
    return isinstance(v, ast.Dict) or (isinstance(v, ast.Call) and isinstance(v.func, ast.Name)
                                       and v.func.id in ('dict', 'OrderedDict', 'defaultdict', 'WeakValueDictionary'))


def memo_containers(mod):
    """names bound at module level, and (class, attribute) bound at class level, to a dict"""
    names, attrs = set(), set()
    for st in mod.tree.body:
        if isinstance(st, ast.Assign) and _dict_value(st.value):
            names |= {t.id for t in st.targets if isinstance(t, ast.Name)}
        elif isinstance(st, ast.AnnAssign) and st.value is not None and _dict_value(st.value) and isinstance(st.target, ast.Name):
            names.add(st.target.id)
    for c in mod.classes.values():
        for a, v in c.attrs.items():
            if _dict_value(v):
                attrs.add((c.name, a))
    return names, attrs


def memo_findings(mod, fn, owner, names, attrs):
    """[(ok|None, container, detail, msg, line)] for every write of a constructed value into a module/class level dict in fn:
    the parameters the value is built from must occur in the key"""
    def container(e):
        if isinstance(e, ast.Name) and e.id in names:
            return e.id
        if isinstance(e, ast.Attribute) and isinstance(e.value, ast.Name):
            a = e.attr
            for cn, an in attrs:
                if a in (an, '_%s%s' % (cn, an)) and (e.value.id in ('self', 'cls') and owner == cn or e.value.id == cn):
                    return '%s.%s' % (cn, an)
        return None
    writes = []
    for n in ast.walk(fn):
        if isinstance(n, ast.Subscript) and isinstance(n.ctx, ast.Store) and container(n.value):
            writes.append(n)
        elif isinstance(n, ast.Call) and isinstance(n.func, ast.Attribute) and n.func.attr == 'setdefault' and container(n.func.value):
            writes.append(n)
    if not writes:
        return []
    what = '%s %s%s' % (mod.rel, owner + '.' if owner else '', fn.name)
    pe = PathEnum(fn, what)
    ps = set(params_of(fn, method=owner is not None))
    out, seen = [], set()
    for p in pe.paths:
        pairs = []
        for ev in p.events:
            if ev[0] == 'store' and isinstance(ev[1], ast.Subscript) and container(ev[1].value):
                pairs.append((container(ev[1].value), ev[1].slice, ev[2], ev[3]))
        for e in path_nodes(p):
            for n in ast.walk(e):
                if isinstance(n, ast.Call) and isinstance(n.func, ast.Attribute) and n.func.attr == 'setdefault' \
                        and container(n.func.value) and len(n.args) == 2:
                    pairs.append((container(n.func.value), n.args[0], n.args[1], n.lineno))
        for cont, key, val, line in pairs:
            kx, vx = p.expand(key), p.expand(val)
            sig = (cont, dump(kx), dump(vx))
            if sig in seen:
                continue
            seen.add(sig)
            kp = sorted(names_in(kx) & ps)
            vp = sorted(names_in(vx) & ps)
            if isinstance(vx, ast.Name) and vx.id in ps:
                out.append((None, cont, 'stores its parameter %s under key(%s)' % (vx.id, ', '.join(kp)),
                            'stores a caller-supplied object: the key discipline is the caller\'s (C17.triple for the model cache)', line))
                continue
            missing = [q for q in vp if q not in kp]
            out.append((not missing, cont, 'key(%s) -> value built from (%s)' % (', '.join(kp), ', '.join(vp)),
                        'memo %s is keyed by (%s) only, the value also depends on %s: a later call with another %s is served '
                        'the object built for the first' % (cont, ', '.join(kp), ', '.join(missing), '/'.join(missing)), line))
    return out


def check_memos(chk, rt):
    mods = {m.name: m for m in [rt.culture_mod, rt.model_mod, rt.recognizer_mod] + [rc.mod for rc in rt.recognizers]}
    for m in sorted(mods.values(), key=lambda x: x.name):
        names, attrs = memo_containers(m)
        if not names and not attrs:
            continue
        fns = [(None, f) for f in m.funcs.values()] + [(c.name, f) for c in m.classes.values() for f in c.methods.values()
                                                       if isinstance(f, (ast.FunctionDef, ast.AsyncFunctionDef))]
        for owner, f in fns:
            for ok, cont, detail, msg, line in memo_findings(m, f, owner, names, attrs):
                construct = '%s%s -> %s' % (owner + '.' if owner else '', f.name, cont)
                if ok is None:
                    chk.exempt('C17.memo', m.path, construct, msg, detail, line)
                else:
                    chk.judge(ok, 'C17.memo', m.path, construct, detail, msg, line)
    ctl = ast.parse("_made = dict()\n\n\ndef get(culture, options):\n    r = _made.get(culture)\n    if r is None:\n"
                    "        r = Thing(culture, options)\n        _made[culture] = r\n    return r\n")
    twin = ast.parse("_made = dict()\n\n\ndef get(culture, options):\n    return _made.setdefault((culture, options), Thing(culture, options))\n")
    fake = type('M', (), {'rel': 'control', 'tree': None})()
    bad = memo_findings(fake, ctl.body[1], None, {'_made'}, set())
    good = memo_findings(fake, twin.body[1], None, {'_made'}, set())
    chk.control('C17.memo', any(f[0] is False for f in bad) and all(f[0] is True for f in good) and bool(good))


MUTATORS = {'clear', 'pop', 'popitem', 'update', 'setdefault', '__setitem__', '__delitem__'}


def cache_write_sites(rt, tree, in_factory_class):
    """[(kind, line, enclosing function name)] of writes to the model cache / calls of its writer in a module tree"""
    out = []

    def is_cache(e, mangled_only):
        if isinstance(e, ast.Attribute):
            a = e.attr
            if a.startswith('_ModelFactory'):
                return a[len('_ModelFactory'):] in rt.cache_attrs
            if not mangled_only and a in rt.cache_attrs:
                return True
        return False

    def visit(node, fname, in_mf):
        for ch in ast.iter_child_nodes(node):
            f2, mf2 = fname, in_mf
            if isinstance(ch, (ast.FunctionDef, ast.AsyncFunctionDef)):
                f2 = ch.name
            if isinstance(ch, ast.ClassDef):
                mf2 = in_factory_class(ch)
            mo = not mf2
            if isinstance(ch, ast.Subscript) and isinstance(ch.ctx, (ast.Store, ast.Del)) and is_cache(ch.value, mo):
                out.append(('store', ch.lineno, f2, mf2))
            elif isinstance(ch, ast.Attribute) and isinstance(ch.ctx, (ast.Store, ast.Del)) and is_cache(ch, mo):
                out.append(('rebind', ch.lineno, f2, mf2))
            elif isinstance(ch, ast.Call) and isinstance(ch.func, ast.Attribute):
                if ch.func.attr in MUTATORS and is_cache(ch.func.value, mo):
                    out.append(('mutate .%s()' % ch.func.attr, ch.lineno, f2, mf2))
                elif ch.func.attr == 'register_model_in_cache':
                    out.append(('insert', ch.lineno, f2, mf2))
            visit(ch, f2, mf2)
    visit(tree, '<module>', False)
    return out


def check_cache_writers(chk, rt):
    names = sorted(rt.cache_attrs)
    for m in rt.idx.mods.values():
        if 'register_model_in_cache' not in m.src and not any(n in m.src for n in names):
            continue
        for kind, line, fname, in_mf in cache_write_sites(rt, m.tree, lambda c: c is rt.ModelFactory.node):
            construct = '%s %s' % (fname, kind)
            if kind == 'insert':
                ok = in_mf and fname == 'try_get_model'
                msg = 'register_model_in_cache is called outside ModelFactory.try_get_model: a model can enter the cache under a key it was not built for'
            else:
                ok = in_mf and fname == 'register_model_in_cache' and kind == 'store'
                msg = 'the process-wide model cache is written outside ModelFactory.register_model_in_cache'
            chk.judge(ok, 'C17.cache-writer', m.path, construct, 'in ModelFactory=%s' % in_mf, msg, line)
    ctl = ast.parse("class X:\n def f(self):\n  ModelFactory._ModelFactory__cache.clear()\n  self.factory.register_model_in_cache('a', 'b', 0, m)\n")
    chk.control('C17.cache-writer', len(cache_write_sites(rt, ctl, lambda c: False)) == 2)


# =====================================================================================================
# positive controls: the same detectors on embedded broken variants (never a verdict about /repo)
# =====================================================================================================

BROKEN_FACTORY = """
class ModelFactory:
    __fallback_to_default_culture = Culture.English
    __cache = dict()

    def get_model(self, model_type_name, culture, fallback_to_default_culture, options):
        result = self.try_get_model(model_type_name, culture, options)
        if result is None:
            result = self.try_get_model(model_type_name, ModelFactory.__fallback_to_default_culture, options)
        return result

    def register_model(self, model_type_name, culture, model_ctor):
        key = ModelCtorKey(model_type=model_type_name, culture=culture)
        self.model_factories[key] = model_ctor

    def try_get_model(self, model_type_name, culture, options):
        cache_result = self.get_model_from_cache(model_type_name, culture, options)
        if cache_result is not None:
            return cache_result
        key = ModelCtorKey(model_type=model_type_name, culture=culture)
        model_ctor = self.model_factories.get(key, None)
        if model_ctor is not None:
            model = model_ctor(options)
            self.register_model_in_cache(model_type_name, Culture.English, options, model)
            return model
        return None

    def get_model_from_cache(self, model_type_name, culture, options):
        key = CacheKey(model_type=model_type_name, culture=culture, options=options)
        return ModelFactory.__cache.get(key, None)

    def register_model_in_cache(self, model_type_name, culture, options, model):
        key = CacheKey(model_type=model_type_name, culture=None, options=options)
        ModelFactory.__cache[key] = model
"""

BROKEN_RECOGNIZER = """
class Recognizer:
    def __init__(self, target_culture, options, lazy_initialization):
        self.target_culture = target_culture
        self.options = None
        self.initialize_configuration()
        self.model_factory = ModelFactory()

    def get_model(self, model_type_name, culture, fallback_to_default_culture):
        culture = Culture.map_to_nearest_language(culture)
        return self.model_factory.get_model(model_type_name, culture, True, self.options)

    def register_model(self, model_type_name, culture, model_ctor):
        self.model_factory.register_model(model_type_name, culture, model_ctor)
"""


def _scratch(chk):
    from ..core import Check
    s = Check(chk.pid)
    s.rules = {rid: dict(r, n=0) for rid, r in chk.rules.items()}
    return s


def _violated(s):
    return {i.rule for i in s.insts if i.verdict == 'violation'}


def controls(chk, rt):
    from ..index import Cls
    fired = set()
    # --- routing core on the broken factory / recogniser
    v = Routing.__new__(Routing)
    v.__dict__.update(rt.__dict__)
    v.findings, v._seen, v.roles, v._analysed, v._regs = [], set(), {}, True, None
    v.ModelFactory = Cls(rt.model_mod, ast.parse(BROKEN_FACTORY).body[0])
    v._cache_attrs()
    v._accessors()
    v._try_get_model()
    v._factory_get_model()
    v._factory_register()
    w = Routing.__new__(Routing)
    w.__dict__.update(rt.__dict__)
    w.findings, w._seen, w.roles, w._analysed, w._regs = [], set(), dict(rt.roles), True, None
    w.Recognizer = Cls(rt.recognizer_mod, ast.parse(BROKEN_RECOGNIZER).body[0])
    w.recognizers = []
    w._recognizer_core()
    for f in v.findings + w.findings:
        if not f[0]:
            fired.add(f[1])
    # --- registration tables with one entry bent at a time
    regs = registrations(rt)
    if regs:
        bent = list(regs)
        bent.append(regs[0])                                            # duplicate
        other = next((r for r in regs if r.rc is not regs[0].rc), None)
        if other is not None:
            bent.append(Reg(other.rc, other.owner, regs[0].name, 'Korean', other.lam, other.call))   # name used by two recognisers
        two = [r for r in regs if r.rc is regs[0].rc and r.name != regs[0].name]
        if two:
            bent.append(Reg(two[0].rc, two[0].owner, regs[0].name, 'Turkish', two[0].lam, two[0].call))  # name -> second class
        lit = next((r for r in regs if any(rt.culture_member(r.owner.mod, n) for n in ast.walk(r.lam.body))), None)
        if lit is not None:
            bent.append(Reg(lit.rc, lit.owner, lit.name, 'Korean', lit.lam, lit.call))               # stale Culture literal
        mx = next((r for r in bent if r.member == 'SpanishMexican'), None)
        if mx is not None:
            bent.remove(mx)                                                 # es-mx lost while es-es stays
        sc = _scratch(chk)
        check_registrations(sc, rt, bent, with_controls=False)
        fired |= _violated(sc)
    # --- a getter that asks for an unregistered name in a fixed culture and drops the flag
    rc = rt.recognizers[0]
    g = ast.parse("def get_x_model(self, culture=None, fallback_to_default_culture=True):\n"
                  "    return self.get_model('NoSuchModel', 'fr-fr', True)\n").body[0]
    sc = _scratch(chk)
    judge_getter(sc, rt, rc, rc, g, [r for r in regs if r.rc is rc], culture_inputs(rt))
    fired |= _violated(sc)
    # --- a helper that drops options and the fallback flag
    gs = getters_of(rt, rc)
    if gs:
        h = ast.parse("def recognize_x(query, culture, options=None, fallback_to_default_culture=True):\n"
                      "    recognizer = %s(culture)\n    model = recognizer.%s(culture)\n    return model.parse(query)\n"
                      % (rc.name, gs[0][1].name)).body[0]
        sc = _scratch(chk)
        judge_helper(sc, rt, rc, rc.mod, 'recognize_x', h)
        fired |= _violated(sc)
    for rid in ('C17.fallback', 'C17.cache-key', 'C17.triple', 'C17.register', 'C17.state', 'C17.forward',
                'C17.reg-unique', 'C17.reg-duplicate', 'C17.reg-coverage', 'C17.reg-class', 'C17.reg-culture', 'C17.getter',
                'C17.helper'):
        chk.control(rid, rid in fired)
    return fired



def run(chk):
    chk.explanation = ('culture routing and model caching decided structurally: culture table (literals), culture mapping '
                       '(AST interpreted on an exhaustive partition of culture strings against the reference decision table), '
                       'routing CFGs of Recognizer.get_model / ModelFactory.get_model / try_get_model (path enumeration with '
                       'symbolic substitution, parameter roles inferred from CacheKey), single cache writer (effect rule), '
                       'registration tables of every Recognizer subclass (table agreement), option validation and forwarding')
    R = lambda rid, desc, floor: chk.rule(rid, desc, floor=floor, control=True)   # every rule has a positive control
    R('C17.codes', 'Culture codes are distinct lower-case literals and the supported list is exactly that set', 10)
    R('C17.map', 'map_to_nearest_language agrees with the reference decision table on the input partition', 40)
    R('C17.state', 'Recognizer.__init__ stores target_culture / options / a fresh ModelFactory; nobody rewrites them', 2)
    R('C17.forward', 'Recognizer.get_model forwards model type, mapped culture, fallback flag and self.options', 1)
    R('C17.fallback', 'ModelFactory.get_model: exits return a non-None model or raise ValueError; English fallback only '
                      'under the flag and after the primary miss', 3)
    R('C17.cache-key', 'CacheKey / ModelCtorKey fields, equality, and construction from the accessor parameters', 4)
    R('C17.triple', 'try_get_model uses one (model type, culture, options) triple for lookup, construction and insertion', 2)
    R('C17.register', 'register_model refuses duplicates; Recognizer.register_model forwards unchanged', 2)
    R('C17.cache-writer', 'the process-wide cache has exactly one writer, called from try_get_model only', 2)
    R('C17.init', 'every recogniser validates options (ValueError) before super().__init__ and forwards its parameters', 5)
    R('C17.reg-unique', 'model type names are unique across recognisers', 10)
    R('C17.reg-duplicate', 'no (model type, culture) is registered twice in one recogniser', 60)
    R('C17.reg-coverage', 'a model registered for one culture of a language is registered for every supported (non-wildcard) '
                          'culture of that language; no registration is conditional', 30)
    R('C17.reg-class', 'model type name <-> model class is a bijection over all registrations', 60)
    R('C17.reg-language', 'the components of a registration belong to the registered culture\'s language', 60)
    R('C17.reg-culture', 'Culture.* literals inside a constructor lambda name the registered culture', 3)
    R('C17.reg-options', 'components that take options receive the lambda parameter', 15)
    R('C17.getter', 'every getter asks for a name registered for English and forwards culture and fallback', 30)
    R('C17.helper', 'recognize_* helpers forward culture, options, fallback, query and reference', 12)
    R('C17.memo', 'a module- or class-level dict memo is keyed by every parameter its constructed value depends on', 1)
    chk.assume('no monkey patching of Culture / ModelFactory / Recognizer at run time; IntFlag option values compare as ints')
    idx = get_index()
    rt = Routing(idx)
    for m in (rt.culture_mod, rt.model_mod, rt.recognizer_mod):
        chk.consulted(m.path)
    for rc in rt.recognizers:
        chk.consulted(rc.mod.path)
    if len(rt.recognizers) < 5:
        raise AnalysisError('only %d Recognizer subclasses found (expected the five recognisers)' % len(rt.recognizers))
    check_codes(chk, rt)
    check_mapping(chk, rt)
    rt.analyse()
    for ok, rule, path, construct, detail, msg, line in rt.findings:
        if rule == 'C17.cache-key' and construct.startswith('ModelFactory.register_model') and 'ModelCtorKey' in detail:
            rule = 'C17.register'
        chk.judge(ok, rule, path, construct, detail, msg, line)
    check_cache_writers(chk, rt)
    check_inits(chk, rt)
    check_registrations(chk, rt)
    check_getters(chk, rt)
    check_helpers(chk, rt)
    check_memos(chk, rt)
    controls(chk, rt)
    chk.exhaustive = True
    chk.extra['registrations'] = len(registrations(rt))
    chk.extra['recognisers'] = [rc.qual for rc in rt.recognizers]


def thorough(chk):
    """wider partition for the culture mapping: every two-letter language tag, both letter cases"""
    import string
    rt = Routing(get_index())
    mod = rt.culture_mod
    supported = rt.supported_codes()
    fn = rt.meth(rt.Culture, 'map_to_nearest_language')
    quirks = []
    for a in string.ascii_lowercase:
        for b in string.ascii_lowercase:
            for code in (a + b + '-zz', (a + b).upper() + '-ZZ'):
                want = reference_map(code, supported)
                try:
                    got = rt.interp.call(mod, fn, [code], None, None, 'Culture.map_to_nearest_language')
                    shown = repr(got)
                except Crash as e:
                    got, shown = Crash, 'raises %s' % e.kind
                chk.judge(got == want, 'C17.map', mod.path, 'Culture.map_to_nearest_language(%r)' % code, '-> %s' % shown,
                          'culture %r maps to %s, the decision table says %r' % (code, shown, want), fn.lineno)
        code = a + '-zz'
        try:
            got = rt.interp.call(mod, fn, [code], None, None, 'Culture.map_to_nearest_language')
        except Crash:
            got = None
        if got != code:
            quirks.append('%s->%s' % (code, got))
    if quirks:
        chk.observe('C17.map malformed one-letter language tags resolve by prefix match (supported.startswith(prefix), as in the JavaScript port; .NET tests the other direction): '
                    + ', '.join(quirks))
