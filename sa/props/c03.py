"""C03 - numeric literals resolve to the number written (narrow clause: table agreement).

Decided (all from the AST + evaluated resource constants, nothing imported from /repo):

  for each (model, culture) registration of NumberRecognizer.initialize_configuration
    * the CultureInfo wired into the parser configuration carries the registered culture code
    * formatter decimal mark  (SUPPORTED_CULTURES[code] -> LongFormatType.decimals_mark, '.' when the entry is None)
      == parser effective decimal separator (slot table extracted from BaseNumberParser._get_digital_value,
         slot values from the configuration class' wiring into the resource class)
      == reference decimal mark of the culture (table shipped with the checker)
    * effective decimal separator != effective grouping separator
    * CultureInfo.format looks the marks up by self.code and routes every character through change_mark,
      whose decision table maps '.' to decimals_mark and leaves other characters alone
    * PercentModel registrations use ParserType.PERCENTAGE and the factory decision table (extracted from
      AgnosticNumberParserFactory.get_parser by abstract interpretation over (parser type, configuration class))
      maps that to a parser class whose parse path appends '%'
    * the extract type of the registered extractor is accepted by the supported_types the factory sets
    * every ReVal built from _generate_format_regex(LongFormatMode.X) is tagged '...Num' (digit parse dispatch)
    * LongFormatMode definitions: thousands mark != decimal mark, marks are the characters the name documents

This module also hosts the helpers shared with c04 / c13 (slot resolver, expression evaluator, ReVal closure).
"""
import ast

from ..consteval import Resources, Template
from ..core import AnalysisError, rel
from ..index import get_index

LEVEL = 'other'
DESIGN_REF = 'DESIGN.md#c03'

META = {
    'text': 'Narrow clause, table agreement: for each of the ten cultures with a number model the formatter decimal mark '
            '(SUPPORTED_CULTURES -> LongFormatType), the parser\'s effective decimal separator (slot table extracted from '
            'BaseNumberParser._get_digital_value, values from the configuration wiring into the resource class) and a '
            'reference table of the culture\'s decimal mark agree; decimal and grouping separators differ; CultureInfo.format/'
            'change_mark map \'.\' to the decimal mark; every PercentModel is built with ParserType.PERCENTAGE which the '
            'factory decision table maps to a class whose parse path appends \'%\'; extractor types are accepted by the '
            'factory-set supported_types; format-regex ReVals carry a \'Num\' tag. Exhaustive over the 30 registrations.',
    'note': 'Not decided: the digit arithmetic of _get_digital_value (sign, 15-digit rounding, power multipliers), which '
            'literals the extractor patterns cover or split (de/nl "1234,56", es-mx "1.234.567", zh "1,234.5%" are pattern '
            'behaviour this family cannot see), span coverage. The formatter\'s thousands mark is dead code (str(Decimal) never '
            'contains a comma) and is therefore only observed, not armed. A LongFormatMode-set containment rule was '
            'prototyped and dropped as not a necessary condition.',
    'technique': 'table agreement over evaluated constants; abstract interpretation of the factory if/elif chain and of the '
                 'separator selection in _get_digital_value over the two boolean configuration atoms',
}

# reference decimal marks (CLDR): independent of the repository
REFERENCE_DECIMAL = {
    'en-us': '.', 'es-es': ',', 'es-mx': '.', 'fr-fr': ',', 'pt-br': ',', 'de-de': ',', 'it-it': ',', 'nl-nl': ',',
    'zh-cn': '.', 'ja-jp': '.',
}
MARK_WORDS = {'COMMA': ',', 'DOT': '.', 'BLANK': ' ', 'NO_BREAK_SPACE': '\u202f'}


# =====================================================================================================
# shared helpers
# =====================================================================================================

class Unresolved(Exception):
    pass


def _strip_doc(body):
    if body and isinstance(body[0], ast.Expr) and isinstance(body[0].value, ast.Constant) and isinstance(body[0].value.value, str):
        return body[1:]
    return body


def is_self_attr(n, attr=None):
    return (isinstance(n, ast.Attribute) and isinstance(n.value, ast.Name) and n.value.id == 'self'
            and (attr is None or n.attr == attr))


def dotted(n):
    """a.b.c -> 'a.b.c' or None"""
    parts = []
    while isinstance(n, ast.Attribute):
        parts.append(n.attr)
        n = n.value
    if isinstance(n, ast.Name):
        parts.append(n.id)
        return '.'.join(reversed(parts))
    return None


def strip_safe_regexp(n):
    """RegExpUtility.get_safe_reg_exp(X[, flags]) / re.compile(X[, flags]) -> (X, flags-node|None, wrapped?)"""
    if isinstance(n, ast.Call) and isinstance(n.func, ast.Attribute) and n.func.attr in ('get_safe_reg_exp', 'compile') and n.args:
        flags = n.args[1] if len(n.args) > 1 else None
        for k in n.keywords:
            if k.arg == 'flags':
                flags = k.value
        return n.args[0], flags, True
    return n, None, False


class Ev:
    """evaluator of the small expression language the configuration / extractor classes use"""

    def __init__(self, idx=None):
        self.idx = idx or get_index()
        self.R = Resources(self.idx)

    def class_const(self, cls, attr):
        """value of a class-level constant (Constants.X, Culture.X, Resource.X)"""
        k, node = self.idx.class_attr(cls, attr)
        if node is None:
            # resource classes also define parameterised regexes as functions
            vals = self._resource_values(cls)
            if vals is not None and attr in vals:
                return vals[attr]
            raise Unresolved('%s has no attribute %s' % (cls.name, attr))
        if isinstance(node, ast.Constant):
            return node.value
        vals = self._resource_values(k)
        if vals is not None and attr in vals:
            return vals[attr]
        try:
            return ast.literal_eval(node)
        except Exception:
            raise Unresolved('%s.%s is not a constant' % (cls.name, attr))

    def _resource_values(self, cls):
        try:
            return self.R.values(cls)
        except AnalysisError:
            return None

    def ev(self, mod, n, env=None):
        env = env or {}
        if isinstance(n, ast.Constant):
            return n.value
        if isinstance(n, (ast.List, ast.Tuple)):
            return [self.ev(mod, e, env) for e in n.elts]
        if isinstance(n, ast.Name):
            if n.id in env:
                return env[n.id]
            raise Unresolved('name %s' % n.id)
        if isinstance(n, ast.JoinedStr):
            out = []
            for p in n.values:
                if isinstance(p, ast.Constant):
                    out.append(str(p.value))
                elif isinstance(p, ast.FormattedValue) and p.conversion == -1 and p.format_spec is None:
                    out.append(str(self.ev(mod, p.value, env)))
                else:
                    raise Unresolved('format spec')
            return ''.join(out)
        if isinstance(n, ast.Attribute):
            base = n.value
            c = self.idx.resolve_class(mod, base) if isinstance(base, (ast.Name, ast.Attribute)) else None
            if c is not None:
                return self.class_const(c, n.attr)
            raise Unresolved('attribute %s' % ast.unparse(n))
        if isinstance(n, ast.Call):
            inner, _flags, wrapped = strip_safe_regexp(n)
            if wrapped:
                return self.ev(mod, inner, env)
            if isinstance(n.func, ast.Name) and n.func.id in ('dict', 'list') and not n.args and not n.keywords:
                return {} if n.func.id == 'dict' else []
            if isinstance(n.func, ast.Name) and n.func.id == 'dict' and len(n.args) == 1 and not n.keywords:
                v = self.ev(mod, n.args[0], env)
                if isinstance(v, dict):
                    return dict(v)
            if isinstance(n.func, ast.Attribute):
                try:
                    f = self.ev(mod, n.func, env)
                except Unresolved:
                    f = None
                if isinstance(f, Template):
                    return f.fill(*[self.ev(mod, a, env) for a in n.args])
            raise Unresolved('call %s' % ast.unparse(n)[:60])
        raise Unresolved(type(n).__name__)


def property_return(idx, cls, name):
    """(defining class, return expression) of property/method `name` looked up through the MRO"""
    k, fn = idx.find_method(cls, name)
    if fn is None:
        return None, None
    body = _strip_doc(fn.body)
    if len(body) == 1 and isinstance(body[0], ast.Return):
        return k, body[0].value
    if len(body) == 1 and isinstance(body[0], ast.Pass):
        return k, ast.Constant(value=None)
    raise AnalysisError('%s:%d %s.%s: property body is not a single return' % (k.mod.rel, fn.lineno, k.name, name))


def init_assignments(idx, cls, field):
    """unconditional top-level `self.<field> = expr` statements in the __init__ chain (most derived first)
    -> list of (class, stmt); conditional ones are returned with cond=True in a second list"""
    plain, cond = [], []
    # property setters that store their argument in `field`: `self.<prop> = v` in __init__ is then a store to the field
    via_setter = set()
    for k in idx.mro(cls):
        for mname, sfn in k.methods.items():
            if not mname.endswith('#setter'):
                continue
            ps = [a_.arg for a_ in sfn.args.args]
            if len(ps) != 2:
                continue
            for n in ast.walk(sfn):
                if isinstance(n, ast.Assign) and len(n.targets) == 1 and is_self_attr(n.targets[0], field) \
                        and isinstance(n.value, ast.Name) and n.value.id == ps[1]:
                    via_setter.add(mname[:-len('#setter')])
    for k in idx.mro(cls):
        fn = k.methods.get('__init__')
        if fn is None:
            continue
        for st in fn.body:
            for sub in ast.walk(st):
                tgt = None
                if isinstance(sub, ast.Assign) and len(sub.targets) == 1:
                    tgt = sub.targets[0]
                elif isinstance(sub, ast.AnnAssign) and sub.value is not None:
                    tgt = sub.target
                if tgt is not None and (is_self_attr(tgt, field) or (is_self_attr(tgt) and tgt.attr in via_setter)):
                    (plain if sub is st else cond).append((k, sub))
    return plain, cond


class Slot:
    __slots__ = ('value', 'expr', 'cls', 'line', 'origin')

    def __init__(self, value, expr, cls, line, origin):
        self.value, self.expr, self.cls, self.line, self.origin = value, expr, cls, line, origin


def slot(ev, cls, name, env=None):
    """value a configuration object of class `cls` yields for property `name`:
    follows `return self.F` to the (unconditional, last) `self.F = expr` of the __init__ chain and evaluates expr"""
    idx = ev.idx
    k, ret = property_return(idx, cls, name)
    if k is None:
        raise AnalysisError('anchor vanished: %s has no property %s' % (cls.name, name))
    if is_self_attr(ret):
        field = ret.attr
        plain, cond = init_assignments(idx, cls, field)
        # private (name-mangled) fields belong to the class that defines the property
        if field.startswith('__') and not field.endswith('__'):
            plain = [p for p in plain if p[0] is k]
            cond = [p for p in cond if p[0] is k]
        if not plain:
            if cond:
                raise AnalysisError('%s:%d %s.%s is only assigned under a condition; wiring not understood'
                                    % (cond[0][0].mod.rel, cond[0][1].lineno, cls.name, field))
            raise AnalysisError('%s: %s.%s (returned by property %s) is never assigned in __init__'
                                % (k.mod.rel, cls.name, field, name))
        first_cls = plain[0][0]
        own = [p for p in plain if p[0] is first_cls]
        kk, st = own[-1]
        expr = st.value
        origin = ast.unparse(strip_safe_regexp(expr)[0])
        try:
            if isinstance(expr, ast.Name) and not (env and expr.id in env):
                expr2 = local_definition(kk, kk.methods['__init__'], expr.id)
                origin = '%s (extended in __init__, additions only)' % ast.unparse(expr2)
                val = ev.ev(kk.mod, expr2, env)
                expr = expr2
            else:
                val = ev.ev(kk.mod, expr, env)
        except Unresolved as e:
            return Slot(None, expr, kk, st.lineno, 'unresolved: %s' % e)
        return Slot(val, expr, kk, st.lineno, origin)
    try:
        val = ev.ev(k.mod, ret, env)
    except Unresolved as e:
        return Slot(None, ret, k, ret.lineno, 'unresolved: %s' % e)
    return Slot(val, ret, k, ret.lineno, ast.unparse(ret))


def local_definition(k, fn, name):
    """defining expression of local `name` in fn, provided every later write to it only ADDS keys
    (`if not key in name: name[key] = ...`); anything else -> AnalysisError"""
    defs = []
    for st in fn.body:
        if isinstance(st, ast.Assign) and len(st.targets) == 1 and isinstance(st.targets[0], ast.Name) and st.targets[0].id == name:
            defs.append(st.value)
        elif isinstance(st, ast.AnnAssign) and isinstance(st.target, ast.Name) and st.target.id == name and st.value is not None:
            defs.append(st.value)
    if len(defs) != 1:
        raise Unresolved('local %s has %d top-level definitions' % (name, len(defs)))

    def guarded(stmts, guards):
        for st in stmts:
            if isinstance(st, ast.If):
                g = None
                t = st.test
                if isinstance(t, ast.UnaryOp) and isinstance(t.op, ast.Not) and isinstance(t.operand, ast.Compare) \
                        and len(t.operand.ops) == 1 and isinstance(t.operand.ops[0], ast.In) \
                        and isinstance(t.operand.comparators[0], ast.Name) and t.operand.comparators[0].id == name:
                    g = ast.unparse(t.operand.left)
                elif isinstance(t, ast.Compare) and len(t.ops) == 1 and isinstance(t.ops[0], ast.NotIn) \
                        and isinstance(t.comparators[0], ast.Name) and t.comparators[0].id == name:
                    g = ast.unparse(t.left)
                guarded(st.body, guards + ([g] if g else []))
                guarded(st.orelse, guards)
            elif isinstance(st, (ast.For, ast.While, ast.With, ast.Try)):
                for part in ('body', 'orelse', 'finalbody'):
                    guarded(getattr(st, part, []) or [], guards)
            else:
                for n in ast.walk(st):
                    bad = False
                    if isinstance(n, ast.Subscript) and isinstance(n.ctx, (ast.Store, ast.Del)) and isinstance(n.value, ast.Name) \
                            and n.value.id == name:
                        bad = ast.unparse(n.slice) not in guards
                    if isinstance(n, ast.Call) and isinstance(n.func, ast.Attribute) and isinstance(n.func.value, ast.Name) \
                            and n.func.value.id == name and n.func.attr in ('update', 'pop', 'clear', 'popitem', 'setdefault', '__setitem__'):
                        bad = True
                    if bad:
                        raise AnalysisError('%s:%d local table %s is modified in a way the checker does not understand'
                                            % (k.mod.rel, n.lineno, name))
    guarded(fn.body, [])
    return defs[0]


def namedtuple_fields(idx, mod, name):
    r = idx.resolve(mod, name)
    if r and r[0] == 'const':
        node = r[2]
        if isinstance(node, ast.Call) and dotted(node.func) in ('namedtuple', 'collections.namedtuple') and len(node.args) == 2:
            try:
                f = ast.literal_eval(node.args[1])
                return f.split() if isinstance(f, str) else list(f)
            except Exception:
                return None
    return None


def call_args(call, params):
    """bind positional + keyword arguments of `call` to parameter names"""
    out = {}
    for i, a in enumerate(call.args):
        if i < len(params):
            out[params[i]] = a
    for k in call.keywords:
        if k.arg:
            out[k.arg] = k.value
    return out


def method_params(fn):
    ps = [a.arg for a in fn.args.args]
    return ps[1:] if ps and ps[0] in ('self', 'cls') else ps


class ReValInfo:
    __slots__ = ('cls', 'line', 'tag', 'kind', 'name', 'pattern', 'mode', 'expr', 'flags')

    def __init__(self, **kw):
        for k in self.__slots__:
            setattr(self, k, kw.get(k))


def extractor_closure(ev, cls, seen=None):
    """all ReVal(re, val) constructions reachable from constructing `cls` (its MRO's methods and the constructors of
    every indexed class instantiated there) -> list of ReValInfo.  Branches on extractor modes are united."""
    idx = ev.idx
    seen = seen if seen is not None else set()
    out = []
    if cls.qual in seen:
        return out
    seen.add(cls.qual)
    for k in idx.mro(cls):
        if not k.mod.name.startswith('recognizers_'):
            continue
        for fn in k.methods.values():
            defaults = {}
            ps = fn.args.args
            for p, d in zip(ps[len(ps) - len(fn.args.defaults):], fn.args.defaults):
                try:
                    defaults[p.arg] = ev.ev(k.mod, d)
                except Unresolved:
                    pass
            for n in ast.walk(fn):
                if not isinstance(n, ast.Call):
                    continue
                if isinstance(n.func, ast.Name) and n.func.id == 'ReVal':
                    fields = namedtuple_fields(idx, k.mod, 'ReVal')
                    if not fields or len(fields) != 2:
                        raise AnalysisError('%s: ReVal is not a 2-field namedtuple visible from this module' % k.mod.rel)
                    a = call_args(n, fields)
                    if len(a) != 2:
                        raise AnalysisError('%s:%d ReVal(...) call shape not understood' % (k.mod.rel, n.lineno))
                    out.append(_reval(ev, k, n, a[fields[0]], a[fields[1]], defaults))
                else:
                    c = idx.resolve_class(k.mod, n.func) if isinstance(n.func, (ast.Name, ast.Attribute)) else None
                    if c is not None and c.mod.name.startswith('recognizers_') and _is_extractor(idx, c):
                        out.extend(extractor_closure(ev, c, seen))
    return out


def _is_extractor(idx, c):
    return any(b.name == 'Extractor' for b in idx.mro(c))


def _reval(ev, k, call, re_node, val_node, defaults):
    try:
        tag = ev.ev(k.mod, val_node)
    except Unresolved as e:
        raise AnalysisError('%s:%d ReVal tag not evaluable (%s)' % (k.mod.rel, call.lineno, e))
    inner = re_node
    flags = 'uncompiled'
    while True:
        nxt, f_, wrapped = strip_safe_regexp(inner)
        if not wrapped:
            break
        flags = 'default' if f_ is None else ast.unparse(f_)
        inner = nxt
    info = ReValInfo(cls=k, line=call.lineno, tag=tag, expr=ast.unparse(inner), kind='unknown', flags=flags)
    if isinstance(inner, ast.Call) and is_self_attr(inner.func, '_generate_format_regex'):
        info.kind = 'format'
        if inner.args:
            d = dotted(inner.args[0])
            info.mode = d.split('.')[-1] if d else None
            info.name = d
        return info
    d = dotted(inner)
    if d and d.startswith('self.config.'):
        info.kind, info.name = 'config', d[len('self.config.'):]
        return info
    if d and d.startswith('config.'):
        info.kind, info.name = 'config', d[len('config.'):]
        return info
    try:
        env = {}
        if isinstance(inner, ast.Call):
            for a in inner.args:
                if isinstance(a, ast.Name):
                    env[a.id] = defaults.get(a.id, '\\b')
        v = ev.ev(k.mod, inner, env)
    except Unresolved:
        return info
    if isinstance(v, str):
        info.kind = 'resource'
        info.pattern = v
        info.name = dotted(inner.func) if isinstance(inner, ast.Call) else d
    return info


# ---- registrations of a Recognizer.initialize_configuration ------------------------------------------

class Registration:
    __slots__ = ('model', 'culture_expr', 'culture', 'model_cls', 'args', 'line', 'mod', 'construct')


def registrations(ev, recognizer_qual):
    """register_model('Name', Culture.X, lambda options: Model(a, b)) calls -> Registration list
    (args: parameter name of the model constructor -> argument expression)"""
    idx = ev.idx
    c = idx.cls(recognizer_qual)
    fn = c.methods.get('initialize_configuration')
    if fn is None:
        raise AnalysisError('anchor vanished: %s.initialize_configuration' % c.name)
    from ..inline import normalise_registrations
    fn = normalise_registrations(idx, c.mod, c, fn)     # a table of rows + loop + helper method reads like the flat list
    out = []
    for n in ast.walk(fn):
        if not (isinstance(n, ast.Call) and is_self_attr(n.func, 'register_model')):
            continue
        if len(n.args) != 3 or not isinstance(n.args[0], ast.Constant) or not isinstance(n.args[2], ast.Lambda):
            raise AnalysisError('%s:%d register_model call shape not understood' % (c.mod.rel, n.lineno))
        r = Registration()
        r.mod = c.mod
        r.line = n.lineno
        r.model = n.args[0].value
        r.culture_expr = ast.unparse(n.args[1])
        try:
            r.culture = ev.ev(c.mod, n.args[1])
        except Unresolved as e:
            raise AnalysisError('%s:%d culture of registration not evaluable (%s)' % (c.mod.rel, n.lineno, e))
        body = n.args[2].body
        if not isinstance(body, ast.Call):
            raise AnalysisError('%s:%d registration factory is not a constructor call' % (c.mod.rel, n.lineno))
        r.model_cls = idx.resolve_class(c.mod, body.func)
        if r.model_cls is None:
            raise AnalysisError('%s:%d model class %s not resolvable' % (c.mod.rel, n.lineno, ast.unparse(body.func)))
        _k, init = idx.find_method(r.model_cls, '__init__')
        if init is None:
            raise AnalysisError('%s: no __init__ for %s' % (c.mod.rel, r.model_cls.name))
        r.args = call_args(body, method_params(init))
        r.construct = "register_model('%s', %s)" % (r.model, r.culture_expr)
        out.append(r)
    return out


# =====================================================================================================
# C03 proper
# =====================================================================================================

NUMBER_RECOGNIZER = 'recognizers_number.number.number_recognizer.NumberRecognizer'


class NumberReg:
    """a number-model registration, decoded"""
    __slots__ = ('reg', 'ptype', 'config_cls', 'config_call', 'extractor_cls', 'extractor_call', 'factory_call')


def decode_number_registration(ev, r):
    idx = ev.idx
    parser = r.args.get('parser')
    extractor = r.args.get('extractor')
    if parser is None or extractor is None:
        raise AnalysisError('%s:%d model constructor is not called with (parser, extractor)' % (r.mod.rel, r.line))
    if not (isinstance(parser, ast.Call) and isinstance(parser.func, ast.Attribute) and parser.func.attr == 'get_parser'):
        raise AnalysisError('%s:%d parser of %s is not built by a factory get_parser(...) call' % (r.mod.rel, r.line, r.construct))
    fcls = idx.resolve_class(r.mod, parser.func.value)
    if fcls is None or 'get_parser' not in fcls.methods:
        raise AnalysisError('%s:%d factory class of %s not resolvable' % (r.mod.rel, r.line, r.construct))
    nr = NumberReg()
    nr.reg = r
    nr.factory_call = (fcls, fcls.methods['get_parser'])
    nr.ptype = None
    nr.config_call = None
    for a in list(parser.args) + [k.value for k in parser.keywords]:
        d = dotted(a)
        if d and d.split('.')[0] == 'ParserType':
            nr.ptype = d.split('.')[-1]
        elif isinstance(a, ast.Call):
            nr.config_call = a
    if nr.ptype is None or nr.config_call is None:
        raise AnalysisError('%s:%d get_parser(...) arguments not understood for %s' % (r.mod.rel, r.line, r.construct))
    nr.config_cls = idx.resolve_class(r.mod, nr.config_call.func)
    if nr.config_cls is None:
        raise AnalysisError('%s:%d configuration class not resolvable for %s' % (r.mod.rel, r.line, r.construct))
    if not isinstance(extractor, ast.Call):
        raise AnalysisError('%s:%d extractor of %s is not a constructor call' % (r.mod.rel, r.line, r.construct))
    nr.extractor_call = extractor
    nr.extractor_cls = idx.resolve_class(r.mod, extractor.func)
    if nr.extractor_cls is None:
        raise AnalysisError('%s:%d extractor class not resolvable for %s' % (r.mod.rel, r.line, r.construct))
    return nr


def number_registrations(ev):
    regs = [decode_number_registration(ev, r) for r in registrations(ev, NUMBER_RECOGNIZER)]
    if not regs:
        raise AnalysisError('no register_model call found in NumberRecognizer.initialize_configuration')
    return regs


def culture_info_code(ev, config_cls, config_call, mod):
    """culture code of the CultureInfo a configuration ends up with: explicit CultureInfo(Culture.X) argument of the
    constructor call, else the default assigned under `if <param> is None:` in __init__"""
    idx = ev.idx
    k, init = idx.find_method(config_cls, '__init__')
    if init is None:
        raise AnalysisError('%s has no __init__' % config_cls.name)
    params = method_params(init)
    kk, ret = property_return(idx, config_cls, 'culture_info')
    if ret is None or not is_self_attr(ret):
        raise AnalysisError('%s.culture_info does not return a field' % config_cls.name)
    plain, _cond = init_assignments(idx, config_cls, ret.attr)
    if not plain or not isinstance(plain[-1][1].value, ast.Name) or plain[-1][1].value.id not in params:
        raise AnalysisError('%s: culture_info field is not wired from a constructor parameter' % config_cls.name)
    pname = plain[-1][1].value.id

    def code_of(expr, m):
        if isinstance(expr, ast.Call) and len(expr.args) == 1:
            c = idx.resolve_class(m, expr.func)
            if c is not None and any(b.name == 'BaseCultureInfo' for b in idx.mro(c)):
                try:
                    return ev.ev(m, expr.args[0]), c
                except Unresolved:
                    pass
        raise AnalysisError('%s: culture info expression %s not understood' % (config_cls.name, ast.unparse(expr)))

    given = call_args(config_call, params).get(pname)
    if given is not None and not (isinstance(given, ast.Constant) and given.value is None):
        return code_of(given, mod) + ('explicit',)
    for st in init.body:
        if isinstance(st, ast.If) and isinstance(st.test, ast.Compare) and isinstance(st.test.left, ast.Name) \
                and st.test.left.id == pname and isinstance(st.test.ops[0], ast.Is) \
                and isinstance(st.test.comparators[0], ast.Constant) and st.test.comparators[0].value is None:
            for s in st.body:
                if isinstance(s, ast.Assign) and isinstance(s.targets[0], ast.Name) and s.targets[0].id == pname:
                    return code_of(s.value, k.mod) + ('default',)
    raise AnalysisError('%s.__init__: default CultureInfo idiom (`if %s is None: %s = CultureInfo(...)`) not found'
                        % (config_cls.name, pname, pname))


# ---- formatter side --------------------------------------------------------------------------------

def long_format_table(ev):
    """LongFormatMode.NAME -> (thousands_mark, decimals_mark)"""
    idx = ev.idx
    m = idx.mod('recognizers_number.number.models')
    fields = namedtuple_fields(idx, m, 'LongFormatType')
    if not fields or set(fields) != {'thousands_mark', 'decimals_mark'}:
        raise AnalysisError('%s: LongFormatType is not namedtuple(thousands_mark, decimals_mark)' % m.rel)
    c = idx.cls('recognizers_number.number.models.LongFormatMode')
    out = {}
    for name, node in c.attrs.items():
        if not (isinstance(node, ast.Call) and isinstance(node.func, ast.Name) and node.func.id == 'LongFormatType'):
            raise AnalysisError('%s:%d LongFormatMode.%s is not a LongFormatType(...) literal' % (m.rel, node.lineno, name))
        a = call_args(node, fields)
        try:
            out[name] = (ev.ev(m, a['thousands_mark']), ev.ev(m, a['decimals_mark']), node.lineno)
        except (Unresolved, KeyError) as e:
            raise AnalysisError('%s:%d LongFormatMode.%s marks not evaluable (%s)' % (m.rel, node.lineno, name, e))
    if not out:
        raise AnalysisError('LongFormatMode defines no format')
    return c, out


def supported_cultures(ev, modes):
    """SUPPORTED_CULTURES: culture code -> (mode name | None, line)"""
    idx = ev.idx
    m = idx.mod('recognizers_number.culture')
    node = m.assigns.get('SUPPORTED_CULTURES')
    if not isinstance(node, ast.Dict):
        raise AnalysisError('%s: SUPPORTED_CULTURES is not a dict literal' % m.rel)
    out = {}
    for k, v in zip(node.keys, node.values):
        try:
            code = ev.ev(m, k)
        except Unresolved as e:
            raise AnalysisError('%s:%d SUPPORTED_CULTURES key not evaluable (%s)' % (m.rel, k.lineno, e))
        if isinstance(v, ast.Constant) and v.value is None:
            out[code] = (None, v.lineno)
            continue
        d = dotted(v)
        c = idx.resolve_class(m, v.value) if isinstance(v, ast.Attribute) else None
        if c is None or c.name != 'LongFormatMode' or v.attr not in modes:
            raise AnalysisError('%s:%d SUPPORTED_CULTURES value %s is not a LongFormatMode member' % (m.rel, v.lineno, d))
        out[code] = (v.attr, v.lineno)
    return m, out


def change_mark_table(fn):
    """decision table of change_mark(self, source, long_format): {char: returned-attr|'<identity>'|other} + default"""
    params = method_params(fn)
    if len(params) != 2:
        raise AnalysisError('change_mark: expected (source, long_format) parameters')
    src, lf = params
    table = {}
    default = None

    def ret_of(body):
        body = _strip_doc(body)
        if len(body) == 1 and isinstance(body[0], ast.Return):
            v = body[0].value
            if isinstance(v, ast.Name) and v.id == src:
                return '<identity>'
            if isinstance(v, ast.Attribute) and isinstance(v.value, ast.Name) and v.value.id == lf:
                return v.attr
            return 'expr:' + ast.unparse(v)
        return None

    def walk(stmts):
        nonlocal default
        for st in _strip_doc(stmts):
            if isinstance(st, ast.If):
                t = st.test
                if isinstance(t, ast.Compare) and len(t.ops) == 1 and isinstance(t.ops[0], ast.Eq) \
                        and isinstance(t.left, ast.Name) and t.left.id == src \
                        and isinstance(t.comparators[0], ast.Constant) and isinstance(t.comparators[0].value, str):
                    r = ret_of(st.body)
                    if r is None:
                        raise AnalysisError('change_mark: branch body is not a single return')
                    table.setdefault(t.comparators[0].value, r)
                    walk(st.orelse)
                    continue
                raise AnalysisError('change_mark: branch test %s not understood' % ast.unparse(t))
            elif isinstance(st, ast.Return):
                default = ret_of([st])
                return
            else:
                raise AnalysisError('change_mark: statement %s not understood' % type(st).__name__)
    walk(fn.body)
    return table, default


def format_routes_through_change_mark(fn):
    """CultureInfo.format: L = SUPPORTED_CULTURES.get(self.code) | SUPPORTED_CULTURES[self.code];
    self.change_mark(x, L) applied to every character of the result (map/comprehension over the string)"""
    lookup = None
    for n in ast.walk(fn):
        if isinstance(n, ast.Assign) and len(n.targets) == 1 and isinstance(n.targets[0], ast.Name):
            v = n.value
            if isinstance(v, ast.Call) and isinstance(v.func, ast.Attribute) and v.func.attr == 'get' \
                    and isinstance(v.func.value, ast.Name) and v.func.value.id == 'SUPPORTED_CULTURES' \
                    and len(v.args) >= 1 and is_self_attr(v.args[0], 'code'):
                lookup = n.targets[0].id
            elif isinstance(v, ast.Subscript) and isinstance(v.value, ast.Name) and v.value.id == 'SUPPORTED_CULTURES' \
                    and is_self_attr(v.slice, 'code'):
                lookup = n.targets[0].id
    if lookup is None:
        return False, 'no `x = SUPPORTED_CULTURES.get(self.code)` lookup'
    for n in ast.walk(fn):
        if isinstance(n, ast.Call) and is_self_attr(n.func, 'change_mark') and len(n.args) == 2 \
                and isinstance(n.args[1], ast.Name) and n.args[1].id == lookup:
            return True, lookup
    return False, 'change_mark is not called with the looked-up format'


# ---- parser side: which slot is the decimal separator under which configuration -------------------------

ATOM_MULTI = 'self.config.is_multi_decimal_separator_culture'
SEP_SLOTS = ('decimal_separator_char', 'non_decimal_separator_char')


def separator_selection(fn, variant_attr_hint=None):
    """abstract interpretation of _get_digital_value over the atoms
         M = self.config.is_multi_decimal_separator_culture,  V = self.<is_non_standard_separator_variant>
    -> ({(M, V): (decimal slot, non-decimal slot)}, variant attribute name).
    Only assignments `local = self.config.<separator slot>` and Ifs on M / V are interpreted; Ifs on other (input
    dependent) conditions are not entered."""
    variant_attr = None
    # V = the self.<attr> tested directly inside an `if M:` block
    for n in ast.walk(fn):
        if isinstance(n, ast.If) and ast.unparse(n.test) == ATOM_MULTI:
            for s in n.body:
                if isinstance(s, ast.If) and is_self_attr(s.test):
                    variant_attr = s.test.attr
    if variant_attr is None:
        raise AnalysisError('_get_digital_value: `if self.config.is_multi_decimal_separator_culture: if self.<variant>:` '
                            'idiom not found')
    atom_v = 'self.' + variant_attr

    # the local compared with the current character in the branch that switches to the fractional part
    loop_char = None
    dec_local = None
    flag_locals = set()
    for n in ast.walk(fn):
        if isinstance(n, ast.If) and isinstance(n.test, ast.Name):
            flag_locals.add(n.test.id)
    for n in ast.walk(fn):
        if isinstance(n, ast.If):
            sets_flag = any(isinstance(s, ast.Assign) and isinstance(s.targets[0], ast.Name) and s.targets[0].id in flag_locals
                            and isinstance(s.value, ast.Constant) and s.value.value is True for s in n.body)
            if not sets_flag:
                continue
            t = n.test
            first = t.values[0] if isinstance(t, ast.BoolOp) and isinstance(t.op, ast.Or) else t
            if isinstance(first, ast.Compare) and len(first.ops) == 1 and isinstance(first.ops[0], ast.Eq) \
                    and isinstance(first.left, ast.Name) and isinstance(first.comparators[0], ast.Name):
                loop_char, dec_local = first.left.id, first.comparators[0].id
    if dec_local is None:
        raise AnalysisError('_get_digital_value: the branch `c == <decimal separator>` that starts the fractional part was not found')

    table = {}
    for M in (False, True):
        for V in (False, True):
            env = {}

            def run(stmts):
                for st in stmts:
                    if isinstance(st, (ast.Assign, ast.AnnAssign)):
                        tgt = st.targets[0] if isinstance(st, ast.Assign) else st.target
                        if isinstance(tgt, ast.Name) and st.value is not None:
                            d = dotted(st.value)
                            if d and d.startswith('self.config.') and d[len('self.config.'):] in SEP_SLOTS:
                                env[tgt.id] = d[len('self.config.'):]
                            elif tgt.id in env:
                                env.pop(tgt.id)     # overwritten by something we do not track
                    elif isinstance(st, ast.If):
                        u = ast.unparse(st.test)
                        if u == ATOM_MULTI:
                            run(st.body if M else st.orelse)
                        elif u == atom_v:
                            run(st.body if V else st.orelse)
                        elif u == 'not ' + ATOM_MULTI:
                            run(st.orelse if M else st.body)
                        elif u == 'not ' + atom_v:
                            run(st.orelse if V else st.body)
                        # input-dependent condition: not entered
                    elif isinstance(st, ast.For):
                        pass
            run(fn.body)
            if dec_local not in env:
                raise AnalysisError('_get_digital_value: local %s is not bound to a configuration separator slot' % dec_local)
            dec = env[dec_local]
            non = [s for s in SEP_SLOTS if s != dec][0]
            table[(M, V)] = (dec, non)
    return table, variant_attr


def variant_definition_ok(init_fn, variant_attr):
    """self.<variant> = self.config.culture_info.code in self.config.non_standard_separator_variants"""
    for n in ast.walk(init_fn):
        if isinstance(n, ast.Assign) and is_self_attr(n.targets[0], variant_attr):
            v = n.value
            if isinstance(v, ast.Compare) and len(v.ops) == 1 and isinstance(v.ops[0], ast.In) \
                    and dotted(v.left) == 'self.config.culture_info.code' \
                    and dotted(v.comparators[0]) == 'self.config.non_standard_separator_variants':
                return True, n.lineno
            return False, n.lineno
    return None, None


# ---- factory decision table ------------------------------------------------------------------------

def factory_decide(ev, fcls, fn, ptype, config_cls):
    """abstract interpretation of get_parser(parser_type, language_config) for one (type, configuration class):
    -> (parser class, supported_types list|None (None = left at the constructor default))"""
    idx = ev.idx
    mod = fcls.mod
    params = [a.arg for a in fn.args.args if a.arg not in ('self', 'cls')]
    if len(params) != 2:
        raise AnalysisError('%s:%d get_parser: expected two parameters' % (mod.rel, fn.lineno))
    # roles by use: the parameter compared with ParserType members is the type
    tparam = None
    for n in ast.walk(fn):
        if isinstance(n, ast.Compare) and isinstance(n.left, ast.Name) and n.left.id in params:
            d = dotted(n.comparators[0])
            if d and d.startswith('ParserType.'):
                tparam = n.left.id
    if tparam is None:
        raise AnalysisError('%s:%d get_parser: no comparison with ParserType members' % (mod.rel, fn.lineno))
    cparam = [p for p in params if p != tparam][0]
    env = {}
    result = []

    class _Ret(Exception):
        pass

    def truth(t):
        if isinstance(t, ast.Name):
            if t.id in env and isinstance(env[t.id], bool):
                return env[t.id]
            raise AnalysisError('%s:%d get_parser: condition on %s not understood' % (mod.rel, t.lineno, t.id))
        if isinstance(t, ast.UnaryOp) and isinstance(t.op, ast.Not):
            return not truth(t.operand)
        if isinstance(t, ast.BoolOp):
            vals = [truth(v) for v in t.values]
            return all(vals) if isinstance(t.op, ast.And) else any(vals)
        if isinstance(t, ast.Compare) and len(t.ops) == 1 and isinstance(t.left, ast.Name) and t.left.id == tparam:
            d = dotted(t.comparators[0])
            if d and d.startswith('ParserType.'):
                eq = d.split('.')[-1] == ptype
                if isinstance(t.ops[0], (ast.Is, ast.Eq)):
                    return eq
                if isinstance(t.ops[0], (ast.IsNot, ast.NotEq)):
                    return not eq
        if isinstance(t, ast.Call) and isinstance(t.func, ast.Name) and t.func.id == 'isinstance' and len(t.args) == 2 \
                and isinstance(t.args[0], ast.Name) and t.args[0].id == cparam:
            c = idx.resolve_class(mod, t.args[1])
            if c is None:
                raise AnalysisError('%s:%d get_parser: isinstance class not resolvable' % (mod.rel, t.lineno))
            return c in idx.mro(config_cls)
        raise AnalysisError('%s:%d get_parser: condition %s not understood' % (mod.rel, t.lineno, ast.unparse(t)))

    def run(stmts):
        for st in _strip_doc(stmts):
            if isinstance(st, ast.Assign) and len(st.targets) == 1:
                tgt, v = st.targets[0], st.value
                if isinstance(tgt, ast.Name):
                    if isinstance(v, ast.Call) and isinstance(v.func, ast.Name) and v.func.id == 'isinstance':
                        env[tgt.id] = truth(v)
                        continue
                    if isinstance(v, ast.Call):
                        c = idx.resolve_class(mod, v.func)
                        if c is not None and len(v.args) == 1 and isinstance(v.args[0], ast.Name) and v.args[0].id == cparam:
                            env[tgt.id] = {'cls': c, 'supported': None, 'line': st.lineno}
                            continue
                    raise AnalysisError('%s:%d get_parser: assignment %s not understood' % (mod.rel, st.lineno, ast.unparse(st)[:80]))
                if isinstance(tgt, ast.Attribute) and isinstance(tgt.value, ast.Name) and isinstance(env.get(tgt.value.id), dict) \
                        and tgt.attr == 'supported_types':
                    try:
                        env[tgt.value.id]['supported'] = list(ev.ev(mod, v))
                    except Unresolved as e:
                        raise AnalysisError('%s:%d get_parser: supported_types not evaluable (%s)' % (mod.rel, st.lineno, e))
                    continue
                raise AnalysisError('%s:%d get_parser: assignment %s not understood' % (mod.rel, st.lineno, ast.unparse(st)[:80]))
            elif isinstance(st, ast.If):
                run(st.body if truth(st.test) else st.orelse)
            elif isinstance(st, ast.Return):
                if isinstance(st.value, ast.Name) and isinstance(env.get(st.value.id), dict):
                    result.append(env[st.value.id])
                    raise _Ret()
                raise AnalysisError('%s:%d get_parser: return value not understood' % (mod.rel, st.lineno))
            elif isinstance(st, ast.Pass):
                continue
            else:
                raise AnalysisError('%s:%d get_parser: statement %s not understood' % (mod.rel, st.lineno, type(st).__name__))
    try:
        run(fn.body)
    except _Ret:
        pass
    if not result:
        raise AnalysisError('%s:%d get_parser: no parser returned for (%s, %s)' % (mod.rel, fn.lineno, ptype, config_cls.name))
    return result[0]['cls'], result[0]['supported']


def reachable_methods(idx, cls, start):
    """methods reachable from cls.<start> through self.m(...) and super().m(...) calls -> list of (class, FunctionDef)"""
    out, seen = [], set()
    work = [(cls, start, False)]
    while work:
        c, name, after = work.pop()
        mro = idx.mro(cls)
        if after:     # super() from class c: continue after c in the MRO of the object's class
            mro = mro[mro.index(c) + 1:] if c in mro else []
        k = fn = None
        for kk in mro:
            lookup = name
            if lookup in kk.methods:
                k, fn = kk, kk.methods[lookup]
                break
        if fn is None or (k.qual, name) in seen:
            continue
        seen.add((k.qual, name))
        out.append((k, fn))
        for n in ast.walk(fn):
            if isinstance(n, ast.Call) and isinstance(n.func, ast.Attribute):
                if isinstance(n.func.value, ast.Name) and n.func.value.id == 'self':
                    nm = n.func.attr
                    work.append((cls, nm, False))
                elif isinstance(n.func.value, ast.Call) and isinstance(n.func.value.func, ast.Name) and n.func.value.func.id == 'super':
                    work.append((k, n.func.attr, True))
    return out


def appends_percent(methods):
    """an assignment to <x>.resolution_str whose value is `<expr> + '%'` -> (class, line) or None"""
    for k, fn in methods:
        for n in ast.walk(fn):
            if isinstance(n, ast.Assign) and isinstance(n.targets[0], ast.Attribute) and n.targets[0].attr == 'resolution_str':
                v = n.value
                if isinstance(v, ast.BinOp) and isinstance(v.op, ast.Add) and isinstance(v.right, ast.Constant) and v.right.value == '%':
                    return k, n.lineno
            if isinstance(n, ast.AugAssign) and isinstance(n.target, ast.Attribute) and n.target.attr == 'resolution_str' \
                    and isinstance(n.op, ast.Add) and isinstance(n.value, ast.Constant) and n.value.value == '%':
                return k, n.lineno
    return None


def dispatch_keys(fn):
    """the tag keys a parser's parse() dispatches on: constants K in `K in <tag>` tests (+ '<marker>' for
    `self.config.lang_marker in <tag>`) -> (set of constant keys, uses_marker)"""
    keys, marker = set(), False
    for n in ast.walk(fn):
        if isinstance(n, ast.Compare) and len(n.ops) == 1 and isinstance(n.ops[0], ast.In) and isinstance(n.comparators[0], ast.Name):
            if isinstance(n.left, ast.Constant) and isinstance(n.left.value, str):
                keys.add(n.left.value)
            elif dotted(n.left) == 'self.config.lang_marker':
                marker = True
    return keys, marker


def filters_on_supported_types(methods):
    for k, fn in methods:
        for n in ast.walk(fn):
            if isinstance(n, ast.Compare) and len(n.ops) == 1 and isinstance(n.ops[0], ast.NotIn) \
                    and is_self_attr(n.comparators[0], 'supported_types'):
                return k, n.lineno
    return None


def extract_types(ev, cls, seen=None):
    """set of `type` values the results of extractor class `cls` can carry"""
    idx = ev.idx
    seen = seen or set()
    if cls.qual in seen:
        return set()
    seen.add(cls.qual)
    k, ret = None, None
    for kk in idx.mro(cls):
        if '_extract_type' in kk.methods:
            body = _strip_doc(kk.methods['_extract_type'].body)
            if len(body) == 1 and isinstance(body[0], ast.Return):
                k, ret = kk, body[0].value
                break
    if ret is not None:
        try:
            return {ev.ev(k.mod, ret)}
        except Unresolved as e:
            raise AnalysisError('%s: %s._extract_type not evaluable (%s)' % (k.mod.rel, k.name, e))
    # merging extractor: copies the type of the inner extractor's results, or assigns a constant
    types = set()
    for kk in idx.mro(cls):
        for fn in kk.methods.values():
            for n in ast.walk(fn):
                if isinstance(n, ast.Call) and isinstance(n.func, (ast.Name, ast.Attribute)):
                    c = idx.resolve_class(kk.mod, n.func)
                    if c is not None and c is not cls and _is_extractor(idx, c):
                        types |= extract_types(ev, c, seen)
                if isinstance(n, ast.Assign) and isinstance(n.targets[0], ast.Attribute) and n.targets[0].attr == 'type':
                    try:
                        v = ev.ev(kk.mod, n.value)
                        if isinstance(v, str):
                            types.add(v)
                    except Unresolved:
                        pass
    if not types:
        raise AnalysisError('%s: extract type of %s not derivable' % (cls.mod.rel, cls.name))
    return types


def decode_mode_name(name):
    """INTEGER_COMMA -> (',', None); DOUBLE_DOT_COMMA -> ('.', ','); undecodable -> None"""
    for prefix, n in (('INTEGER_', 1), ('DOUBLE_', 2)):
        if name.startswith(prefix):
            rest = name[len(prefix):].replace('NUM_BLANK', 'BLANK')
            marks = []
            while rest:
                for w in sorted(MARK_WORDS, key=len, reverse=True):
                    if rest == w or rest.startswith(w + '_'):
                        marks.append(MARK_WORDS[w])
                        rest = rest[len(w) + 1:]
                        break
                else:
                    return None
            if len(marks) != n:
                return None
            return (marks[0], None) if n == 1 else (marks[0], marks[1])
    return None


def show(ch):
    return 'None' if ch is None else ('U+%04X' % ord(ch) if len(ch) == 1 and (ord(ch) > 126 or ch == ' ') else repr(ch))


# ---- run ------------------------------------------------------------------------------------------

def run(chk):
    chk.explanation = ('table agreement: formatter decimal mark, parser effective decimal separator and a reference table '
                       'agree for the ten cultures; percentage wiring through the factory decision table; extractor type / '
                       'tag dispatch wiring (all evaluated from the AST and the resource constants)')
    chk.rule('C03.culture', 'the CultureInfo wired into a registration\'s parser configuration has the registered culture code', floor=20, control=True)
    chk.rule('C03.marks.decimal', 'formatter decimal mark == parser effective decimal separator', floor=8, control=True)
    chk.rule('C03.marks.reference', 'formatter decimal mark == reference decimal mark of the culture', floor=8, control=True)
    chk.rule('C03.marks.distinct', 'parser effective decimal and grouping separators differ', floor=8, control=True)
    chk.rule('C03.selection', 'separator selection of _get_digital_value: non-standard variant swaps the slots only for '
                              'multi-decimal-separator cultures', floor=4, control=True)
    chk.rule('C03.format', 'CultureInfo.format looks marks up by self.code and change_mark maps \'.\' to decimals_mark, '
                           'other characters to themselves', floor=3, control=True)
    chk.rule('C03.percent', 'PercentModel is built with ParserType.PERCENTAGE and the factory maps it to a class that appends %', floor=8,
             control=True)
    chk.rule('C03.types', 'extract type of the registered extractor is accepted by the factory-set supported_types', floor=20,
             control=True)
    chk.rule('C03.tags', 'format-regex ReVals are tagged for the digit parser (\'Num\')', floor=30, control=True)
    chk.rule('C03.modes', 'LongFormatMode definitions: marks differ and are the characters the name documents', floor=5, control=True)
    chk.assume('recognition goes through NumberRecognizer.initialize_configuration registrations; str(Decimal/float) uses \'.\'')

    ev = Ev()
    idx = ev.idx
    regs = number_registrations(ev)
    rec_mod = regs[0].reg.mod
    chk.consulted(rec_mod.path)

    # formatter tables
    lfm_cls, modes = long_format_table(ev)
    cmod, supported = supported_cultures(ev, modes)
    chk.consulted(cmod.path)
    chk.consulted(lfm_cls.mod.path)

    def fmt_decimal(code):
        if code not in supported:       # SUPPORTED_CULTURES.get(code) is None -> format() changes no mark
            return '.', None, 'absent'
        mode, _line = supported[code]
        if mode is None:
            return '.', None, 'None'
        th, dec, _l = modes[mode]
        return (dec if dec is not None else '.'), th, mode

    # parser side: selection table + variant definition
    bnp = idx.cls('recognizers_number.number.parsers.BaseNumberParser')
    chk.consulted(bnp.mod.path)
    gdv = bnp.methods.get('_get_digital_value')
    if gdv is None:
        raise AnalysisError('anchor vanished: BaseNumberParser._get_digital_value')
    table, variant_attr = separator_selection(gdv)
    expected = {(False, False): 'decimal_separator_char', (False, True): 'decimal_separator_char',
                (True, False): 'decimal_separator_char', (True, True): 'non_decimal_separator_char'}
    for key in sorted(table):
        dec, non = table[key]
        chk.judge(dec == expected[key], 'C03.selection', bnp.mod.path, 'BaseNumberParser._get_digital_value',
                  'multi=%s variant=%s -> decimal=%s' % (key[0], key[1], dec),
                  'under multi=%s variant=%s the decimal separator is read from %s (expected %s): the separators of the '
                  'standard / non-standard variants are crossed' % (key[0], key[1], dec, expected[key]), gdv.lineno)
    ok, line = variant_definition_ok(bnp.methods['__init__'], variant_attr) if '__init__' in bnp.methods else (None, None)
    if ok is None:
        raise AnalysisError('BaseNumberParser.__init__ does not define self.%s' % variant_attr)
    chk.judge(ok, 'C03.selection', bnp.mod.path, 'BaseNumberParser.__init__',
              'self.%s = culture_info.code in non_standard_separator_variants' % variant_attr,
              'self.%s is not `self.config.culture_info.code in self.config.non_standard_separator_variants`' % variant_attr, line)
    # control: a crossed selection must be seen by the interpreter
    ctl = ast.parse(
        "def f(self, s):\n"
        "    decimal_separator = self.config.non_decimal_separator_char\n"
        "    non_decimal_separator = self.config.decimal_separator_char\n"
        "    if self.config.is_multi_decimal_separator_culture:\n"
        "        if self.is_v:\n            decimal_separator = self.config.decimal_separator_char\n"
        "    for c in s:\n        if h:\n            pass\n"
        "        elif c == decimal_separator:\n            h = True\n").body[0]
    t2, _ = separator_selection(ctl)
    chk.control('C03.selection', t2[(False, False)][0] != expected[(False, False)])

    # per culture (the parser configuration of the NumberModel registration; all three models are compared in C03.culture)
    seen_cultures = {}
    for nr in regs:
        r = nr.reg
        code, ci_cls, how = culture_info_code(ev, nr.config_cls, nr.config_call, r.mod)
        chk.consulted(nr.config_cls.mod.path)
        chk.judge(code == r.culture, 'C03.culture', r.mod.path, r.construct,
                  '%s(%s culture %s) registered for %s' % (nr.config_cls.name, how, code, r.culture),
                  '%s is registered for culture %s but its parser configuration formats with CultureInfo(%s)'
                  % (r.model, r.culture, code), r.line)
        k, fmt = idx.find_method(ci_cls, 'format')
        if k is None or k.mod.name != 'recognizers_number.culture':
            chk.bad('C03.culture', r.mod.path, r.construct, 'culture info class %s' % ci_cls.qual,
                    'the culture info class %s does not use recognizers_number.culture.CultureInfo.format' % ci_cls.name, r.line)
        key = (r.culture, nr.config_cls.qual, code)
        if key in seen_cultures:
            continue
        seen_cultures[key] = nr
        # parser slots
        vals = {}
        for s in SEP_SLOTS + ('is_multi_decimal_separator_culture', 'non_standard_separator_variants'):
            sl = slot(ev, nr.config_cls, s)
            if sl.value is None and sl.origin.startswith('unresolved'):
                raise AnalysisError('%s:%d %s.%s wiring not evaluable (%s)' % (sl.cls.mod.rel, sl.line, nr.config_cls.name, s, sl.origin))
            vals[s] = sl
        multi = bool(vals['is_multi_decimal_separator_culture'].value)
        variants = vals['non_standard_separator_variants'].value or []
        variant = code in variants
        dslot, nslot = table[(multi, variant)]
        eff_dec, eff_non = vals[dslot].value, vals[nslot].value
        fdec, fth, mode = fmt_decimal(code)
        construct = '%s[%s]' % (nr.config_cls.name, code)
        where = vals[dslot]
        detail = 'formatter %s decimal=%s | parser decimal=%s (%s <- %s; multi=%s variant=%s)' % (
            mode, show(fdec), show(eff_dec), dslot, where.origin, multi, variant)
        chk.judge(fdec == eff_dec, 'C03.marks.decimal', where.cls.mod.path, construct, detail,
                  'culture %s: formatter prints decimal mark %s (SUPPORTED_CULTURES -> %s) but the parser reads %s as the '
                  'decimal separator (%s wired from %s, multi=%s, variant=%s)'
                  % (code, show(fdec), mode, show(eff_dec), dslot, where.origin, multi, variant), where.line)
        if code in REFERENCE_DECIMAL:
            chk.judge(fdec == REFERENCE_DECIMAL[code], 'C03.marks.reference', cmod.path, "SUPPORTED_CULTURES['%s']" % code,
                      'formatter %s decimal=%s reference=%s' % (mode, show(fdec), show(REFERENCE_DECIMAL[code])),
                      'culture %s writes decimals with %s; SUPPORTED_CULTURES maps it to %s whose decimal mark is %s'
                      % (code, show(REFERENCE_DECIMAL[code]), mode, show(fdec)), supported.get(code, (None, None))[1])
        else:
            chk.exempt('C03.marks.reference', cmod.path, "SUPPORTED_CULTURES['%s']" % code, 'no reference entry for this culture')
        chk.judge(eff_dec != eff_non and isinstance(eff_dec, str) and len(eff_dec) == 1, 'C03.marks.distinct', where.cls.mod.path,
                  construct, 'decimal=%s grouping=%s' % (show(eff_dec), show(eff_non)),
                  'culture %s: decimal separator %s and grouping separator %s of the parser are not two distinct characters'
                  % (code, show(eff_dec), show(eff_non)), where.line)
        if fth is not None and fth != eff_non:
            chk.observe('culture %s: formatter thousands mark %s differs from parser grouping separator %s (dead code in '
                        'format(); not armed)' % (code, show(fth), show(eff_non)))
    # control: the detector on a registration that forgets the explicit CultureInfo (default culture of the class is used)
    for nr in regs:
        if nr.config_call.args or nr.config_call.keywords:
            bare = ast.Call(func=nr.config_call.func, args=[], keywords=[])
            code, _c, how = culture_info_code(ev, nr.config_cls, bare, nr.reg.mod)
            chk.control('C03.culture', how == 'default' and code != nr.reg.culture)
            break
    else:
        chk.control('C03.culture', culture_info_code(ev, regs[0].config_cls, regs[0].config_call, regs[0].reg.mod)[0] != 'xx-xx')
    cultures = sorted({k[0] for k in seen_cultures})
    missing = sorted(set(REFERENCE_DECIMAL) - set(cultures))
    if missing:
        raise AnalysisError('no number-model registration found for culture(s) %s' % ', '.join(missing))
    chk.control('C03.marks.decimal', ',' != '.')
    chk.control('C03.marks.reference', REFERENCE_DECIMAL['de-de'] != REFERENCE_DECIMAL['en-us'])
    chk.control('C03.marks.distinct', not ('.' != '.'))

    # formatter functions
    ci = idx.cls('recognizers_number.culture.CultureInfo')
    for need in ('format', 'change_mark'):
        if need not in ci.methods:
            raise AnalysisError('anchor vanished: CultureInfo.%s' % need)
    okf, why = format_routes_through_change_mark(ci.methods['format'])
    chk.judge(okf, 'C03.format', ci.mod.path, 'CultureInfo.format', 'marks looked up by self.code and applied through change_mark',
              'CultureInfo.format: %s' % why, ci.methods['format'].lineno)
    tbl, default = change_mark_table(ci.methods['change_mark'])
    chk.judge(tbl.get('.') == 'decimals_mark', 'C03.format', ci.mod.path, "CultureInfo.change_mark['.']",
              "'.' -> %s" % tbl.get('.'),
              "change_mark maps '.' to %s instead of long_format.decimals_mark" % tbl.get('.'), ci.methods['change_mark'].lineno)
    chk.judge(default == '<identity>', 'C03.format', ci.mod.path, 'CultureInfo.change_mark[default]', 'default -> %s' % default,
              'change_mark does not return other characters unchanged (%s)' % default, ci.methods['change_mark'].lineno)
    for ch, r_ in sorted(tbl.items()):
        if ch not in '.,' :
            chk.bad('C03.format', ci.mod.path, 'CultureInfo.change_mark[%r]' % ch, '%r -> %s' % (ch, r_),
                    'change_mark rewrites the character %r, which is not a mark' % ch, ci.methods['change_mark'].lineno)
    if tbl.get(',') not in (None, 'thousands_mark'):
        chk.observe("change_mark maps ',' to %s (dead code: str(value) never contains ',')" % tbl.get(','))
    ctl = ast.parse("def change_mark(self, s, f):\n    if s == '.':\n        return f.thousands_mark\n    return s\n").body[0]
    chk.control('C03.format', change_mark_table(ctl)[0].get('.') != 'decimals_mark')

    # factory table, percent, types
    const_cls = idx.cls('recognizers_number.number.constants.Constants')
    decided = {}
    for nr in regs:
        r = nr.reg
        fcls, ffn = nr.factory_call
        chk.consulted(fcls.mod.path)
        key = (nr.ptype, nr.config_cls.qual)
        if key not in decided:
            decided[key] = factory_decide(ev, fcls, ffn, nr.ptype, nr.config_cls)
        pcls, supp = decided[key]
        methods = reachable_methods(idx, pcls, 'parse')
        if not methods:
            raise AnalysisError('%s has no parse method' % pcls.name)
        if r.model_cls.name == 'PercentModel':
            ap = appends_percent(methods)
            good = nr.ptype == 'PERCENTAGE' and ap is not None
            detail = 'ParserType.%s x %s -> %s; %s' % (nr.ptype, nr.config_cls.name, pcls.name,
                                                       ("appends '%%' in %s" % ap[0].name) if ap else "no \"+ '%'\" on the parse path")
            chk.judge(good, 'C03.percent', r.mod.path, r.construct, detail,
                      '%s for %s: %s' % (r.model, r.culture,
                                         'parser type is ParserType.%s, not PERCENTAGE' % nr.ptype if nr.ptype != 'PERCENTAGE' else
                                         "the factory maps (PERCENTAGE, %s) to %s, whose parse path never appends '%%' to "
                                         "resolution_str" % (nr.config_cls.name, pcls.name)), r.line)
            # observation only (spelled-out percentages are outside C03's quantifier): tags the chosen parser cannot dispatch
            keys, uses_marker = set(), False
            for _k, fn in methods:
                if fn.name == 'parse':
                    kk_, mm_ = dispatch_keys(fn)
                    keys |= kk_
                    uses_marker = uses_marker or mm_
            marker = slot(ev, nr.config_cls, 'lang_marker').value
            lost = sorted({rv.tag for rv in extractor_closure(ev, nr.extractor_cls) if isinstance(rv.tag, str)
                           and not any(k_ in rv.tag for k_ in keys) and not (uses_marker and marker and marker in rv.tag)})
            if lost:
                chk.observe('%s for %s: tags %s of %s are not dispatched by %s.parse (keys %s + lang marker %r): such matches '
                            'resolve to nothing; not a digit-literal form, so not armed under C03'
                            % (r.model, r.culture, lost, nr.extractor_cls.name, pcls.name, sorted(keys), marker))
        # types
        flt = filters_on_supported_types(methods)
        etypes = sorted(extract_types(ev, nr.extractor_cls))
        chk.consulted(nr.extractor_cls.mod.path)
        if flt is None:
            chk.exempt('C03.types', r.mod.path, r.construct, '%s.parse does not filter on supported_types' % pcls.name,
                       'extractor types %s' % etypes)
        elif not supp:
            chk.ok('C03.types', r.mod.path, r.construct, 'ParserType.%s -> supported_types unrestricted; extractor types %s'
                   % (nr.ptype, etypes), r.line)
        else:
            rejected = [t for t in etypes if t not in supp]
            chk.judge(not rejected, 'C03.types', r.mod.path, r.construct,
                      'ParserType.%s -> supported %s; extractor %s yields %s' % (nr.ptype, sorted(supp), nr.extractor_cls.name, etypes),
                      '%s for %s: %s yields results of type %s, which the parser built for ParserType.%s rejects '
                      '(supported_types=%s) - every entity is dropped' % (r.model, r.culture, nr.extractor_cls.name, rejected,
                                                                            nr.ptype, sorted(supp)), r.line)
    # controls for the factory interpreter
    ctl_src = ("class ParserType:\n    pass\n"
               "def get_parser(parser_type, language_config):\n"
               "    parser = BaseNumberParser(language_config)\n"
               "    if parser_type is ParserType.ORDINAL:\n        parser.supported_types = ['x']\n"
               "    elif parser_type is ParserType.PERCENTAGE:\n        parser = BaseNumberParser(language_config)\n"
               "    return parser\n")
    ctl_fn = ast.parse(ctl_src).body[1]
    pf = idx.cls('recognizers_number.number.parser_factory.AgnosticNumberParserFactory')
    en_cfg = regs[0].config_cls
    pc, sp = factory_decide(ev, pf, ctl_fn, 'PERCENTAGE', en_cfg)
    chk.control('C03.percent', appends_percent(reachable_methods(idx, pc, 'parse')) is None)
    pc, sp = factory_decide(ev, pf, ctl_fn, 'ORDINAL', en_cfg)
    chk.control('C03.types', sp == ['x'] and 'builtin.num.ordinal' not in sp)

    # tags of format regexes
    done = set()
    nformat = 0
    for nr in regs:
        if nr.extractor_cls.qual in done:
            continue
        done.add(nr.extractor_cls.qual)
        for rv in extractor_closure(ev, nr.extractor_cls):
            if rv.kind != 'format' or (rv.cls.qual, rv.line) in done:
                continue
            done.add((rv.cls.qual, rv.line))
            nformat += 1
            chk.consulted(rv.cls.mod.path)
            construct = '%s: ReVal(_generate_format_regex(%s))' % (rv.cls.name, rv.name)
            if rv.mode not in modes:
                chk.bad('C03.tags', rv.cls.mod.path, construct, 'mode %s' % rv.name,
                        'format regex is generated from %s, which is not a LongFormatMode member' % rv.name, rv.line)
                continue
            chk.judge(isinstance(rv.tag, str) and 'Num' in rv.tag, 'C03.tags', rv.cls.mod.path, construct, 'tag %r' % rv.tag,
                      "a digit-literal pattern (LongFormatMode.%s) is tagged %r; the parsers dispatch digit parsing on 'Num' in the "
                      'tag' % (rv.mode, rv.tag), rv.line)
    chk.control('C03.tags', 'Num' not in 'IntegerEng')

    # LongFormatMode definitions
    for name, (th, dec, line) in sorted(modes.items()):
        construct = 'LongFormatMode.%s' % name
        if th == dec or not isinstance(th, str) or len(th) != 1 or (dec is not None and (not isinstance(dec, str) or len(dec) != 1)):
            chk.bad('C03.modes', lfm_cls.mod.path, construct, 'thousands=%s decimals=%s' % (show(th), show(dec)),
                    '%s: thousands mark %s and decimal mark %s are not two distinct single characters' % (name, show(th), show(dec)), line)
            continue
        want = decode_mode_name(name)
        if want is None:
            chk.exempt('C03.modes', lfm_cls.mod.path, construct, 'name does not spell its marks', 'thousands=%s decimals=%s' % (show(th), show(dec)))
            continue
        chk.judge(want == (th, dec), 'C03.modes', lfm_cls.mod.path, construct,
                  'thousands=%s decimals=%s' % (show(th), show(dec)),
                  '%s is defined as (thousands %s, decimals %s) but its name documents (%s, %s)'
                  % (name, show(th), show(dec), show(want[0]), show(want[1])), line)
    chk.control('C03.modes', decode_mode_name('DOUBLE_DOT_COMMA') == ('.', ',') != (',', '.'))

    chk.extra['cultures'] = cultures
    chk.extra['factory_table'] = {'%s x %s' % (k[0], k[1].rsplit('.', 1)[-1]): '%s supported=%s' % (v[0].name, v[1])
                                  for k, v in sorted(decided.items())}
    chk.exhaustive = True


# ---------------------------------------------------------------------------------------------------------------
# C03.signext (added by the lead after triage of recognize_number('minus 5 and then 6')): the sign word that
# BaseNumberExtractor.extract searches in the prefix source[0:start] must be anchored at the end of that prefix,
# otherwise an earlier sign word anywhere in the sentence is attached to the number (wrong value, wrong span)

def rule_signext(chk):
    from .. import rx as _rx
    from ..consteval import Resources
    idx = get_index()
    R = Resources(idx)
    chk.rule('C03.signext', 'the negative-sign pattern searched in the prefix before a number is end-anchored', floor=4, control=True)
    base = idx.cls('recognizers_number.number.extractors.BaseNumberExtractor')
    fn = base.methods.get('extract')
    if fn is None:
        raise AnalysisError('anchor vanished: BaseNumberExtractor.extract')
    # the search must be over a prefix slice source[0:start] (else the rule below is not the right obligation)
    prefix_search = False
    for n in ast.walk(fn):
        if isinstance(n, ast.Call) and isinstance(n.func, ast.Attribute) and n.func.attr == 'search' and len(n.args) == 2 \
                and '_negative_number_terms' in ast.unparse(n.args[0]):
            a = n.args[1]
            if isinstance(a, ast.Subscript) and isinstance(a.slice, ast.Slice) and a.slice.upper is not None \
                    and (a.slice.lower is None or (isinstance(a.slice.lower, ast.Constant) and a.slice.lower.value == 0)):
                prefix_search = True
    if not prefix_search:
        raise AnalysisError('BaseNumberExtractor.extract: sign search over the prefix source[0:start] not recognised')

    def anchored(pattern):
        try:
            t = _rx.parse(pattern)
        except _rx.RxError:
            return None
        items = t.items if t.kind == 'seq' else [t]
        while items and items[-1].kind == 'flags':
            items = items[:-1]
        return bool(items) and items[-1].kind == 'anchor' and items[-1].c in ('$', '\\Z', '\\z')

    def ev(mod, e):
        if isinstance(e, ast.Constant) and isinstance(e.value, str):
            return e.value
        if isinstance(e, ast.BinOp) and isinstance(e.op, ast.Add):
            a, b = ev(mod, e.left), ev(mod, e.right)
            return None if a is None or b is None else a + b
        if isinstance(e, ast.Attribute) and isinstance(e.value, ast.Name):
            vals = R.by_name(mod, e.value.id)
            if vals is not None and isinstance(vals.get(e.attr), str):
                return vals[e.attr]
        if isinstance(e, ast.JoinedStr):
            out = ''
            for p in e.values:
                v = ev(mod, p.value if isinstance(p, ast.FormattedValue) else p)
                if v is None:
                    return None
                out += v
            return out
        return None

    seen = 0
    for c in idx.subclasses(base):
        if '_negative_number_terms' not in c.methods:
            continue
        prop = c.methods['_negative_number_terms']
        rets = [n.value for n in ast.walk(prop) if isinstance(n, ast.Return) and n.value is not None]
        if len(rets) != 1:
            raise AnalysisError('%s._negative_number_terms: expected one return' % c.name)
        r = rets[0]
        if isinstance(r, ast.Constant) and r.value is None:
            continue
        if not (isinstance(r, ast.Attribute) and isinstance(r.value, ast.Name) and r.value.id == 'self'):
            raise AnalysisError('%s._negative_number_terms: return shape not recognised' % c.name)
        fld = r.attr
        init = c.methods.get('__init__')
        src = None
        for n in ast.walk(init) if init else []:
            if isinstance(n, ast.Assign) and len(n.targets) == 1 and isinstance(n.targets[0], ast.Attribute) \
                    and n.targets[0].attr in (fld, fld.replace('_%s__' % c.name, '__')) and isinstance(n.targets[0].value, ast.Name):
                src = n.value
        if src is None:
            raise AnalysisError('%s: assignment of %s not found' % (c.name, fld))
        if isinstance(src, ast.Constant) and src.value is None:
            continue
        if isinstance(src, ast.Call) and src.args:
            pat = ev(c.mod, src.args[0])
        else:
            pat = ev(c.mod, src)
        if pat is None:
            raise AnalysisError('%s: cannot evaluate the negative-sign pattern' % c.name)
        a = anchored(pat)
        if a is None:
            raise AnalysisError('%s: negative-sign pattern not analysable: %r' % (c.name, pat))
        seen += 1
        chk.judge(a, 'C03.signext', c.mod.path, '%s._negative_number_terms' % c.name, 'anchored=%s' % a,
                  '%s searches the sign word %r in the text before a number without anchoring it at the end of that text: '
                  'a sign word anywhere earlier in the sentence is attached to the number (wrong value, span reaching back '
                  'to it)' % (c.name, pat), prop.lineno)
    chk.control('C03.signext', anchored('(?<negTerm>(minus|negative)\\s+)') is False and anchored('(minus\\s+)$') is True)


_run_without_signext = run


def run(chk):       # noqa: F811
    _run_without_signext(chk)
    rule_signext(chk)


# ---------------------------------------------------------------------------------------------------------------
# C03.trailing-zeros: the chain of string operations CultureInfo.format applies to str(value) before the marks are
# changed is interpreted (tiny string-op interpreter over the AST, culture lookup = None so that change_mark is
# skipped, which is the real zh-cn path) on a finite probe set of the texts str(Decimal) / str(float) produce.
# Required: the result denotes the same number, and the integer part of a plain decimal text is never shortened.
# Any formulation with the same input/output behaviour on the probes stays silent; a shape the interpreter cannot read
# is an AnalysisError.

PLAIN_PROBES = ['0', '10', '1000', '1200', '1000.0', '1000.00', '120.50', '0.5', '0.10', '100.10', '0.0', '20.0', '1000000.0',
                '-1000.00', '-0.50', '100000000000000', '0.000001', '123456789.125000']
# scientific texts as str(Decimal) (one digit before the point, 'E+n'/'E-n') and str(float) ('e+16', 'e-05') render them
SCI_PROBES = ['1E+3', '1.0E+4', '1.20E+5', '2.5E+21', '1e+16', '1.5e-05', '1E-7', '1.50E-7', '1E-10']
# exponent ends in '0' and the mantissa has a point: on the pinned tree rstrip('0') eats the exponent's zero
# (recognize_number('0.0000000001', 'en-us') -> '1.00000000000000E-01').  Genuine, reproduced; armed as
# C03.trailing-zeros violations only when this flag is set (needs a known_findings entry first).
EXPONENT_ZERO_PROBES = ['1.5E-10', '1.00000000000000E-10', '1.5e-10', '1.2E+20']
ARM_EXPONENT_ZERO_PROBES = True

_STR_METHODS = {'replace', 'rstrip', 'lstrip', 'strip', 'split', 'rsplit', 'rjust', 'ljust', 'zfill', 'join', 'upper', 'lower',
                'startswith', 'endswith', 'partition', 'rpartition', 'find', 'rfind', 'index', 'count', 'removesuffix',
                'removeprefix', 'isdigit'}


class _Return(Exception):
    def __init__(self, value):
        self.value = value


def interpret_format(fn, text, where='CultureInfo.format'):
    """result of `fn(self, value)` for str(value) == text, with the culture lookup yielding None"""
    params = method_params(fn)
    if len(params) != 1:
        raise AnalysisError('%s: expected one parameter' % where)
    vparam = params[0]
    env = {}
    budget = [2000]

    def fail(n, what):
        raise AnalysisError('%s:%s string operation not understood by the trailing-zeros interpreter: %s'
                            % (where, getattr(n, 'lineno', '?'), what))

    def ev(n):
        budget[0] -= 1
        if budget[0] < 0:
            fail(n, 'evaluation budget exhausted')
        if isinstance(n, ast.Constant):
            return n.value
        if isinstance(n, ast.Name):
            if n.id in env:
                return env[n.id]
            fail(n, 'name %s' % n.id)
        if isinstance(n, ast.JoinedStr):
            out = ''
            for p in n.values:
                if isinstance(p, ast.Constant):
                    out += str(p.value)
                elif isinstance(p, ast.FormattedValue) and p.conversion == -1 and p.format_spec is None:
                    out += str(ev(p.value))
                else:
                    fail(n, 'format spec')
            return out
        if isinstance(n, ast.BinOp) and isinstance(n.op, ast.Add):
            a, b = ev(n.left), ev(n.right)
            if type(a) is type(b) and isinstance(a, (str, list)):
                return a + b
            fail(n, ast.unparse(n))
        if isinstance(n, ast.BoolOp):
            vals = None
            for v in n.values:
                vals = ev(v)
                if isinstance(n.op, ast.And) and not vals:
                    return vals
                if isinstance(n.op, ast.Or) and vals:
                    return vals
            return vals
        if isinstance(n, ast.UnaryOp) and isinstance(n.op, ast.Not):
            return not ev(n.operand)
        if isinstance(n, ast.UnaryOp) and isinstance(n.op, ast.USub) and isinstance(n.operand, ast.Constant):
            return -n.operand.value
        if isinstance(n, ast.IfExp):
            return ev(n.body) if ev(n.test) else ev(n.orelse)
        if isinstance(n, ast.Compare) and len(n.ops) == 1:
            a, b = ev(n.left), ev(n.comparators[0])
            op = n.ops[0]
            try:
                if isinstance(op, ast.In):
                    return a in b
                if isinstance(op, ast.NotIn):
                    return a not in b
                if isinstance(op, ast.Eq):
                    return a == b
                if isinstance(op, ast.NotEq):
                    return a != b
                if isinstance(op, ast.Is):
                    return a is b
                if isinstance(op, ast.IsNot):
                    return a is not b
                if isinstance(op, (ast.Lt, ast.LtE, ast.Gt, ast.GtE)) and isinstance(a, int) and isinstance(b, int):
                    return {ast.Lt: a < b, ast.LtE: a <= b, ast.Gt: a > b, ast.GtE: a >= b}[type(op)]
            except TypeError:
                pass
            fail(n, ast.unparse(n))
        if isinstance(n, ast.Subscript):
            base = ev(n.value)
            if not isinstance(base, (str, list)):
                fail(n, ast.unparse(n))
            s = n.slice
            try:
                if isinstance(s, ast.Slice):
                    lo = ev(s.lower) if s.lower is not None else None
                    hi = ev(s.upper) if s.upper is not None else None
                    st = ev(s.step) if s.step is not None else None
                    return base[lo:hi:st]
                return base[ev(s)]
            except (IndexError, TypeError):
                fail(n, 'index error in ' + ast.unparse(n))
        if isinstance(n, (ast.List, ast.Tuple)):
            return [ev(e) for e in n.elts]
        if isinstance(n, ast.Call):
            f = n.func
            if isinstance(f, ast.Name) and f.id in ('str', 'repr') and len(n.args) == 1 and isinstance(n.args[0], ast.Name) \
                    and n.args[0].id == vparam and not n.keywords:
                return text
            if isinstance(f, ast.Name) and f.id == 'len' and len(n.args) == 1:
                v = ev(n.args[0])
                if isinstance(v, (str, list)):
                    return len(v)
            if isinstance(f, ast.Name) and f.id == 'str' and len(n.args) == 1:
                v = ev(n.args[0])
                if isinstance(v, str):
                    return v
            # the culture's format lookup: None here (no mark change) - the marks are decided by C03.format / C03.marks.*
            if isinstance(f, ast.Attribute) and isinstance(f.value, ast.Name) and f.value.id == 'SUPPORTED_CULTURES' and f.attr == 'get':
                return None
            if isinstance(f, ast.Attribute) and f.attr in _STR_METHODS and not n.keywords:
                recv = ev(f.value)
                args = [ev(a) for a in n.args]
                if isinstance(recv, str) and all(isinstance(a, (str, int, list)) or a is None for a in args):
                    try:
                        r = getattr(recv, f.attr)(*args)
                    except (TypeError, ValueError):
                        fail(n, ast.unparse(n))
                    return list(r) if isinstance(r, tuple) else r
            fail(n, ast.unparse(n)[:80])
        fail(n, type(n).__name__)

    def run(stmts):
        for st in _strip_doc(stmts):
            if isinstance(st, ast.Assign) and len(st.targets) == 1:
                tgt = st.targets[0]
                if isinstance(tgt, ast.Name):
                    env[tgt.id] = ev(st.value)
                elif isinstance(tgt, ast.Subscript) and isinstance(tgt.value, ast.Name) and isinstance(env.get(tgt.value.id), list) \
                        and not isinstance(tgt.slice, ast.Slice):
                    i = ev(tgt.slice)
                    try:
                        env[tgt.value.id][i] = ev(st.value)
                    except (IndexError, TypeError):
                        fail(st, 'index error in ' + ast.unparse(tgt))
                else:
                    fail(st, ast.unparse(st)[:80])
            elif isinstance(st, ast.AnnAssign) and isinstance(st.target, ast.Name) and st.value is not None:
                env[st.target.id] = ev(st.value)
            elif isinstance(st, ast.If):
                run(st.body if ev(st.test) else st.orelse)
            elif isinstance(st, ast.Return):
                raise _Return(ev(st.value) if st.value is not None else None)
            elif isinstance(st, ast.Pass):
                continue
            else:
                fail(st, 'statement ' + type(st).__name__)
    try:
        run(fn.body)
    except _Return as r:
        if not isinstance(r.value, str):
            raise AnalysisError('%s: does not return a string for %r' % (where, text))
        return r.value
    raise AnalysisError('%s: no return reached for %r' % (where, text))


def _zero_verdict(text, out):
    """None when fine, else what is wrong"""
    from decimal import Decimal, InvalidOperation
    try:
        a, b = Decimal(text), Decimal(out)
    except InvalidOperation:
        return 'is not a number'
    if a != b:
        return 'denotes %s, not %s' % (b, a)
    if 'e' not in text.lower():
        ip, op = text.lstrip('-').split('.')[0], out.lstrip('-').split('.')[0]
        if 'e' not in out.lower() and ip != op:
            return 'integer part %r became %r' % (ip, op)
    return None


def rule_trailing_zeros(chk):
    idx = get_index()
    chk.rule('C03.trailing-zeros', 'the string normalisation of CultureInfo.format (before the marks are changed) keeps the number: '
                                   'same value, integer part never shortened', floor=20, control=True)
    ci = idx.cls('recognizers_number.culture.CultureInfo')
    fn = ci.methods.get('format')
    if fn is None:
        raise AnalysisError('anchor vanished: CultureInfo.format')
    for text in PLAIN_PROBES + SCI_PROBES:
        out = interpret_format(fn, text)
        why = _zero_verdict(text, out)
        chk.judge(why is None, 'C03.trailing-zeros', ci.mod.path, 'CultureInfo.format(%r)' % text, '%r -> %r' % (text, out),
                  'CultureInfo.format turns the number text %r into %r, which %s (before any mark is changed): e.g. en-us %r '
                  'resolves to %r' % (text, out, why, text, out), fn.lineno)
    for text in EXPONENT_ZERO_PROBES:
        out = interpret_format(fn, text)
        why = _zero_verdict(text, out)
        if ARM_EXPONENT_ZERO_PROBES:
            chk.judge(why is None, 'C03.trailing-zeros', ci.mod.path, 'CultureInfo.format(%r)' % text, '%r -> %r' % (text, out),
                      'CultureInfo.format turns the number text %r into %r, which %s: the zero-stripping reaches into the exponent'
                      % (text, out, why), fn.lineno)
        elif why is not None:
            chk.observe('CultureInfo.format(%r) -> %r, which %s: trailing-zero stripping eats the exponent\'s final zero '
                        '(reproduced: recognize_number(\'0.0000000001\', \'en-us\') -> \'1.00000000000000E-01\'); not armed '
                        '(ARM_EXPONENT_ZERO_PROBES) until listed as a known finding' % (text, out, why))
    ctl = ast.parse("def format(self, value):\n    result = str(value)\n    if '.' in result:\n        result = result.rstrip('0.')\n"
                    "    return result\n").body[0]
    chk.control('C03.trailing-zeros', _zero_verdict('1000.00', interpret_format(ctl, '1000.00', 'control')) is not None
                and _zero_verdict('10', interpret_format(ctl, '10', 'control')) is None)


_run_without_trailing_zeros = run


def run(chk):       # noqa: F811
    _run_without_trailing_zeros(chk)
    rule_trailing_zeros(chk)



# ---------------------------------------------------------------------------------------------------------------
# generic rules (lead): cross-cutting necessary conditions scoped to the modules this property is anchored in
# (sa/generic.py: filter predicates depend on their element; regex group names read by the code exist)

def _generic_rules(chk):
    import re as _re_
    from ..index import get_index as _gi
    from ..consteval import Resources as _Res
    from .. import generic as _g
    idx_ = _gi()
    scope = _re_.compile('.')
    flt = lambda name: bool(scope.search(name.rsplit('.', 1)[-1]))
    _g.rule_group_names(chk, idx_, _Res(idx_), 'C03.groups', 'recognizers_number', None, floor=1)
    _g.rule_filter_predicates(chk, idx_, 'C03.filters', 'recognizers_number', floor=5)
    _g.rule_index_guards(chk, idx_, 'C03.index-guards', 'recognizers_number.', floor=0, exempt={('BaseNumberParser._frac_like_number_parse', 'i < len(frac_words) - 1'): 'deliberately one short: a fraction separator word in the last position has no numerator after it (frac_words[i + 1:] would be empty)'})
    _g.rule_kind_contradictions(chk, idx_, 'C03.offset-kinds', 'recognizers_number.', floor=25)


_run_before_generic = run


def run(chk):       # noqa: F811
    _run_before_generic(chk)
    _generic_rules(chk)


# ---------------------------------------------------------------------------------------------------------------
# C03.index-domain and C03.sign (added after two seeded changes were not reported)
#
# C03.index-domain  in recognizers_number.number.extractors: in `for v in range(.., len(X) [+-c])` every subscript
#                   Y[v (+-c)] of the body reads a list known to be as long as X: Y is X, or Y is built from X with the same
#                   length ([..] * len(X), a comprehension / map over X, or X a comprehension over Y).  A bound taken from
#                   another list silently truncates the scan (the percentage <-> number pairing) or raises IndexError,
#                   which the models swallow.
# C03.sign          in the number parsers: a value that comes from a producer which already applies a written '-'
#                   (reaches a `c == '-'` test, i.e. _get_digital_value) is negated afterwards only idempotently (`value > 0`
#                   in the guard) or under a flag that is set together with stripping the sign from the text handed to the
#                   producer.  Otherwise the sign is applied twice.

INDEX_DOMAIN_MODULES = ('recognizers_number.number.extractors',)
SIGN_MODULES = ('recognizers_number.number.parsers', 'recognizers_number.number.cjk_parsers')


def _len_of(e):
    """len(X) [+- c] -> unparse(X) or None"""
    if isinstance(e, ast.BinOp) and isinstance(e.op, (ast.Add, ast.Sub)) and isinstance(e.right, ast.Constant):
        e = e.left
    if isinstance(e, ast.Call) and isinstance(e.func, ast.Name) and e.func.id == 'len' and len(e.args) == 1:
        return ast.unparse(e.args[0])
    return None


def index_domain_instances(fn):
    """(loop, subscript node, X, Y, verdict, why) for every subscript by the loop variable of a len()-bounded range loop"""
    assigns = {}
    for n in ast.walk(fn):
        tgt = val = None
        if isinstance(n, ast.Assign) and len(n.targets) == 1:
            tgt, val = n.targets[0], n.value
        elif isinstance(n, ast.AnnAssign) and n.value is not None:
            tgt, val = n.target, n.value
        if isinstance(tgt, ast.Name):
            assigns.setdefault(tgt.id, []).append(val)

    def built_from(y, x):
        """is list y constructed with the length of x?"""
        for v in assigns.get(y, []):
            if isinstance(v, ast.BinOp) and isinstance(v.op, ast.Mult):
                for a, b in ((v.left, v.right), (v.right, v.left)):
                    if isinstance(a, ast.List) and _len_of(b) == x and not (isinstance(b, ast.BinOp)):
                        return 'built as [..] * len(%s)' % x
            if isinstance(v, ast.ListComp) and len(v.generators) == 1 and not v.generators[0].ifs \
                    and ast.unparse(v.generators[0].iter) == x:
                return 'comprehension over %s' % x
            if isinstance(v, ast.Call) and isinstance(v.func, ast.Name) and v.func.id == 'list' and len(v.args) == 1:
                m = v.args[0]
                if isinstance(m, ast.Call) and isinstance(m.func, ast.Name) and m.func.id == 'map' and len(m.args) == 2 \
                        and ast.unparse(m.args[1]) == x:
                    return 'map over %s' % x
        return None

    def is_mapping(y):
        return any(isinstance(v, ast.Dict) or (isinstance(v, ast.Call) and isinstance(v.func, ast.Name) and v.func.id == 'dict')
                   for v in assigns.get(y, []))
    out = []
    for loop in ast.walk(fn):
        if not (isinstance(loop, ast.For) and isinstance(loop.target, ast.Name) and isinstance(loop.iter, ast.Call)
                and isinstance(loop.iter.func, ast.Name) and loop.iter.func.id == 'range' and 1 <= len(loop.iter.args) <= 3):
            continue
        stop = loop.iter.args[0] if len(loop.iter.args) == 1 else loop.iter.args[1]
        x = _len_of(stop)
        if x is None:
            continue
        v = loop.target.id
        for st in loop.body:
            for n in ast.walk(st):
                if not isinstance(n, ast.Subscript) or isinstance(n.slice, ast.Slice):
                    continue
                i = n.slice
                if isinstance(i, ast.BinOp) and isinstance(i.op, (ast.Add, ast.Sub)) and isinstance(i.right, ast.Constant):
                    i = i.left
                if not (isinstance(i, ast.Name) and i.id == v):
                    continue
                y = ast.unparse(n.value)
                if y == x:
                    out.append((loop, n, x, y, True, 'same list'))
                    continue
                if not isinstance(n.value, ast.Name) or is_mapping(y):
                    continue
                why = built_from(y, x) or (built_from(x, y) if x.isidentifier() else None)
                out.append((loop, n, x, y, why is not None, why or 'no length relation between %s and %s is visible' % (y, x)))
    return out


def _contains_dash_test(fn):
    for n in ast.walk(fn):
        if isinstance(n, ast.Compare) and len(n.ops) == 1 and isinstance(n.ops[0], ast.Eq):
            for e in (n.left, n.comparators[0]):
                if isinstance(e, ast.Constant) and e.value == '-':
                    return True
        if isinstance(n, ast.Compare) and len(n.ops) == 1 and isinstance(n.ops[0], ast.In):
            c = n.comparators[0]
            if isinstance(c, ast.Constant) and isinstance(c.value, str) and '-' in c.value and len(c.value) <= 4:
                return True
            if isinstance(c, (ast.List, ast.Tuple, ast.Set)) and any(isinstance(e, ast.Constant) and e.value == '-' for e in c.elts):
                return True
    return False


def _flip_of(value, target_text):
    """is `value` the negation of the expression whose text is target_text?"""
    if isinstance(value, ast.UnaryOp) and isinstance(value.op, ast.USub) and ast.unparse(value.operand) == target_text:
        return True
    if isinstance(value, ast.BinOp) and isinstance(value.op, ast.Mult):
        for a, b in ((value.left, value.right), (value.right, value.left)):
            neg1 = (isinstance(b, ast.UnaryOp) and isinstance(b.op, ast.USub) and isinstance(b.operand, ast.Constant) and b.operand.value == 1) \
                or (isinstance(b, ast.Constant) and b.value == -1)
            if neg1 and ast.unparse(a) == target_text:
                return True
    return False


def sign_instances(idx, cls, fn):
    """(flip node, target text, producer, verdict, why) for every negation of a value produced by a signing producer"""
    signing_cache = {}

    def signing(name, via_super_from=None):
        key = (name, via_super_from.qual if via_super_from else None)
        if key not in signing_cache:
            signing_cache[key] = False
            for k, f in reachable_methods(idx, cls, name):
                if _contains_dash_test(f):
                    signing_cache[key] = True
                    break
        return signing_cache[key]

    def producer_calls(e):
        for n in ast.walk(e):
            if isinstance(n, ast.Call) and isinstance(n.func, ast.Attribute):
                b = n.func.value
                if (isinstance(b, ast.Name) and b.id == 'self') or (isinstance(b, ast.Call) and isinstance(b.func, ast.Name) and b.func.id == 'super'):
                    yield n.func.attr
    # assignments of locals from self-method calls
    origin = {}
    for n in ast.walk(fn):
        if isinstance(n, ast.Assign) and len(n.targets) == 1 and isinstance(n.targets[0], ast.Name):
            for p in producer_calls(n.value):
                origin.setdefault(n.targets[0].id, set()).add(p)
    # flags set together with a prefix strip
    strip_flags = set()

    def is_prefix_strip(e):
        return isinstance(e, ast.Subscript) and isinstance(e.value, (ast.Name, ast.Attribute)) and isinstance(e.slice, ast.Slice) \
            and e.slice.lower is not None and e.slice.upper is None
    # locals that hold the text with its sign prefix stripped: v = t[len(p):], or unpacked from a same-class helper that returns
    # (.., t[len(p):], ..)
    stripped_locals = set()
    for n in ast.walk(fn):
        if isinstance(n, ast.Assign) and len(n.targets) == 1:
            t, v = n.targets[0], n.value
            if isinstance(t, ast.Name) and is_prefix_strip(v):
                stripped_locals.add(t.id)
            if isinstance(t, ast.Tuple) and isinstance(v, ast.Call) and isinstance(v.func, ast.Attribute) and is_self_attr(v.func):
                _hk, hfn = idx.find_method(cls, v.func.attr)
                if hfn is not None:
                    for r in ast.walk(hfn):
                        if isinstance(r, ast.Return) and isinstance(r.value, ast.Tuple) and len(r.value.elts) == len(t.elts):
                            for tn, re_ in zip(t.elts, r.value.elts):
                                if isinstance(tn, ast.Name) and is_prefix_strip(re_):
                                    stripped_locals.add(tn.id)
    for n in ast.walk(fn):
        if isinstance(n, ast.If):
            sets = [s.targets[0].id for s in n.body if isinstance(s, ast.Assign) and isinstance(s.targets[0], ast.Name)
                    and isinstance(s.value, ast.Constant) and s.value.value is True]
            if isinstance(n.test, ast.Name):
                sets.append(n.test.id)       # `if flag: <strip>`: the flag itself guards the strip
            strips = any(isinstance(s, ast.Assign) and len(s.targets) == 1 and (
                (is_prefix_strip(s.value) and ast.unparse(s.targets[0]) == ast.unparse(s.value.value))
                or (isinstance(s.value, ast.Name) and s.value.id in stripped_locals and isinstance(s.targets[0], (ast.Attribute, ast.Name))))
                for s in n.body)
            if strips:
                strip_flags.update(sets)
    out = []

    def walk(stmts, conds):
        for st in stmts:
            if isinstance(st, ast.If):
                walk(st.body, conds + [st.test])
                walk(st.orelse, conds)
            elif isinstance(st, (ast.For, ast.While, ast.With, ast.Try)):
                for part in ('body', 'orelse', 'finalbody'):
                    walk(getattr(st, part, []) or [], conds)
                for h in getattr(st, 'handlers', []) or []:
                    walk(h.body, conds)
            elif isinstance(st, ast.Assign) and len(st.targets) == 1:
                t = st.targets[0]
                ttxt = ast.unparse(t)
                if not _flip_of(st.value, ttxt):
                    continue
                base = t.value.id if isinstance(t, ast.Attribute) and isinstance(t.value, ast.Name) and t.attr == 'value' else \
                    (t.id if isinstance(t, ast.Name) else None)
                if base is None:
                    continue
                prods = sorted(p for p in origin.get(base, ()) if signing(p))
                if not prods:
                    continue
                leaves = []
                for c in conds:
                    leaves.extend(c.values if isinstance(c, ast.BoolOp) and isinstance(c.op, ast.And) else [c])
                idem = any(isinstance(l, ast.Compare) and len(l.ops) == 1 and isinstance(l.ops[0], (ast.Gt, ast.GtE))
                           and ast.unparse(l.left) == ttxt and isinstance(l.comparators[0], ast.Constant) and l.comparators[0].value == 0
                           for l in leaves)
                flagged = [l.id for l in leaves if isinstance(l, ast.Name) and l.id in strip_flags]
                if idem:
                    out.append((st, ttxt, prods, True, 'idempotent: guarded by %s > 0' % ttxt))
                elif flagged:
                    out.append((st, ttxt, prods, True, 'flag %s is set together with stripping the sign from the text' % flagged[0]))
                else:
                    out.append((st, ttxt, prods, False, 'unguarded'))
    walk(fn.body, [])
    return out


def rule_index_domain_and_sign(chk):
    idx = get_index()
    chk.rule('C03.index-domain', 'a range(len(X)) loop variable only indexes X or lists built with the length of X', floor=8, control=True)
    chk.rule('C03.sign', 'a value from a producer that already applies a written \'-\' is negated only idempotently or after the sign '
                         'was stripped from the text', floor=2, control=True)
    for name in INDEX_DOMAIN_MODULES:
        m = idx.mod(name)
        chk.consulted(m.path)
        for _m, cls, fn in idx.functions(m):
            q = '%s.%s' % (cls.name, fn.name) if cls else fn.name
            for loop, node, x, y, good, why in index_domain_instances(fn):
                chk.judge(good, 'C03.index-domain', m.path, '%s: %s in `for %s in %s`' % (q, ast.unparse(node), loop.target.id, ast.unparse(loop.iter)),
                          '%s indexed up to len(%s): %s' % (y, x, why),
                          '%s: the loop `for %s in %s` is bounded by the length of %s but indexes %s: %s - the scan stops early (or '
                          'overruns) when the two lists differ in length' % (q, loop.target.id, ast.unparse(loop.iter), x, ast.unparse(node), why),
                          node.lineno)
    ctl = ast.parse("def f(results, extractresults):\n    for i in range(len(results)):\n        for j in range(i, len(results)):\n"
                    "            if results[i].start == extractresults[j].start:\n                pass\n").body[0]
    chk.control('C03.index-domain', any(not g for _l, _n, _x, _y, g, _w in index_domain_instances(ctl)))
    for name in SIGN_MODULES:
        m = idx.mod(name)
        chk.consulted(m.path)
        for cls in m.classes.values():
            for fn in cls.methods.values():
                for node, ttxt, prods, good, why in sign_instances(idx, cls, fn):
                    chk.judge(good, 'C03.sign', m.path, '%s.%s: %s' % (cls.name, fn.name, ast.unparse(node)),
                              'producer %s applies a written sign; negation %s' % ('/'.join(prods), why),
                              '%s.%s negates %s although it comes from %s, which already turns a written \'-\' into a negative value, '
                              'and the negation is neither guarded by `%s > 0` nor tied to stripping the sign from the text: a literal '
                              'such as \'-12\' gets its sign applied twice' % (cls.name, fn.name, ttxt, '/'.join(prods), ttxt), node.lineno)
    bnp = idx.cls('recognizers_number.number.parsers.BaseNumberParser')
    ctl = ast.parse("def parse(self, s):\n    result = self._digit_number_parse(s)\n    if regex.search(self.config.x, s.text):\n"
                    "        result.value = -result.value\n    return result\n").body[0]
    chk.control('C03.sign', [g for _n, _t, _p, g, _w in sign_instances(idx, bnp, ctl)] == [False])


_run_before_index_sign = run


def run(chk):       # noqa: F811
    _run_before_index_sign(chk)
    rule_index_domain_and_sign(chk)


# ---------------------------------------------------------------------------------------------------------------
# Interpreter for the string / number manipulating subset of Python (same as the one C13 uses for drop_leading_zeros;
# copied here because c13 imports this module) and its extension for the digit parser (Decimal arithmetic, configuration
# attributes).

_STR_OK = {'replace', 'rstrip', 'lstrip', 'strip', 'split', 'rsplit', 'join', 'upper', 'lower', 'startswith', 'endswith',
           'partition', 'rpartition', 'find', 'rfind', 'index', 'count', 'isdigit', 'isalpha', 'isalnum', 'zfill', 'rjust',
           'ljust', 'removeprefix', 'removesuffix', 'format'}
_LIST_OK = {'append', 'extend', 'pop', 'insert', 'reverse', 'index', 'count', 'copy'}


class _Ret(Exception):
    def __init__(self, v):
        self.v = v


class _Brk(Exception):
    pass


class _Cont(Exception):
    pass


class MiniInterp:
    """interpreter for the string-manipulating subset of Python the canonicaliser is written in"""

    def __init__(self, idx, cls, where):
        self.idx, self.cls, self.where = idx, cls, where
        self.budget = 200000

    def fail(self, n, what):
        raise AnalysisError('%s:%s not understood by the canonicalisation interpreter: %s'
                            % (self.where, getattr(n, 'lineno', '?'), what))

    def module_name(self, n):
        """a free name: a module-level constant of the module(s) the interpreted class lives in (plain / annotated assignment,
        also when imported from another indexed module); anything else fails closed"""
        cache = self.__dict__.setdefault('_modnames', {})
        if n.id in cache:
            if cache[n.id] is MiniInterp._BUSY:
                self.fail(n, 'cyclic module-level definition of ' + n.id)
            return cache[n.id]
        mods = []
        for k in [self.cls] + list(self.idx.mro(self.cls)):
            m = getattr(k, 'mod', None)
            if m is not None and m not in mods:
                mods.append(m)
        for m in mods:
            node = None
            r = self.idx.resolve(m, n.id)
            if r and r[0] == 'const':
                node = r[2]
            else:
                for st in m.tree.body:       # annotated module-level assignment (not in the index's table)
                    if isinstance(st, ast.AnnAssign) and isinstance(st.target, ast.Name) and st.target.id == n.id and st.value is not None:
                        node = st.value
            if node is not None:
                cache[n.id] = MiniInterp._BUSY
                try:
                    v = self.ev(node, {}, 0)
                finally:
                    cache.pop(n.id, None)
                cache[n.id] = v
                return v
        self.fail(n, 'name ' + n.id)

    _BUSY = object()

    def call(self, fn, args, depth=0):
        if depth > 6:
            self.fail(fn, 'helper recursion too deep')
        params = [a.arg for a in fn.args.args]
        if params and params[0] in ('self', 'cls'):
            params = params[1:]
        if fn.args.vararg or fn.args.kwarg or fn.args.kwonlyargs:
            self.fail(fn, 'parameter kinds of %s' % fn.name)
        defaults = fn.args.defaults
        env = {}
        for i, p in enumerate(params):
            if i < len(args):
                env[p] = args[i]
            else:
                j = i - (len(params) - len(defaults))
                if j < 0:
                    self.fail(fn, 'missing argument %s of %s' % (p, fn.name))
                env[p] = self.ev(defaults[j], {}, depth)
        try:
            self.run(fn.body, env, depth)
        except _Ret as r:
            return r.v
        return None

    def helper(self, f):
        """same-class helper: self.m / cls.m / ClassName.m"""
        if isinstance(f, ast.Attribute) and isinstance(f.value, ast.Name):
            names = {'self', 'cls'} | {k.name for k in self.idx.mro(self.cls)}
            if f.value.id in names:
                _k, fn = self.idx.find_method(self.cls, f.attr)
                return fn
        return None

    def run(self, stmts, env, depth):
        for st in _strip_doc(stmts):
            self.budget -= 1
            if self.budget < 0:
                self.fail(st, 'step budget exhausted (non-terminating loop?)')
            if isinstance(st, ast.Assign) and len(st.targets) == 1:
                self.assign(st.targets[0], self.ev(st.value, env, depth), env, depth)
            elif isinstance(st, ast.AnnAssign) and st.value is not None:
                self.assign(st.target, self.ev(st.value, env, depth), env, depth)
            elif isinstance(st, ast.AugAssign) and isinstance(st.target, ast.Name):
                cur = self.ev(st.target, env, depth)
                env[st.target.id] = self.binop(st, st.op, cur, self.ev(st.value, env, depth))
            elif isinstance(st, ast.If):
                self.run(st.body if self.ev(st.test, env, depth) else st.orelse, env, depth)
            elif isinstance(st, ast.For):
                it = self.ev(st.iter, env, depth)
                if not isinstance(it, (str, list, range)):
                    self.fail(st, 'loop over ' + ast.unparse(st.iter))
                broke = False
                for x in list(it):
                    self.assign(st.target, x, env, depth)
                    try:
                        self.run(st.body, env, depth)
                    except _Brk:
                        broke = True
                        break
                    except _Cont:
                        continue
                if not broke:
                    self.run(st.orelse, env, depth)
            elif isinstance(st, ast.While):
                while self.ev(st.test, env, depth):
                    self.budget -= 1
                    if self.budget < 0:
                        self.fail(st, 'step budget exhausted (non-terminating loop?)')
                    try:
                        self.run(st.body, env, depth)
                    except _Brk:
                        break
                    except _Cont:
                        continue
            elif isinstance(st, ast.Return):
                raise _Ret(self.ev(st.value, env, depth) if st.value is not None else None)
            elif isinstance(st, ast.Break):
                raise _Brk()
            elif isinstance(st, ast.Continue):
                raise _Cont()
            elif isinstance(st, ast.Pass):
                continue
            elif isinstance(st, ast.Expr):
                self.ev(st.value, env, depth)
            else:
                self.fail(st, 'statement ' + type(st).__name__)

    def assign(self, tgt, val, env, depth):
        if isinstance(tgt, ast.Name):
            env[tgt.id] = val
        elif isinstance(tgt, (ast.Tuple, ast.List)) and isinstance(val, (list, tuple)) and len(val) == len(tgt.elts):
            for t, v in zip(tgt.elts, val):
                self.assign(t, v, env, depth)
        elif isinstance(tgt, ast.Subscript) and not isinstance(tgt.slice, ast.Slice):
            base = self.ev(tgt.value, env, depth)
            if not isinstance(base, list):
                self.fail(tgt, 'store into ' + ast.unparse(tgt))
            try:
                base[self.ev(tgt.slice, env, depth)] = val
            except (IndexError, TypeError):
                self.fail(tgt, 'index error in ' + ast.unparse(tgt))
        else:
            self.fail(tgt, 'assignment target ' + ast.unparse(tgt))

    def binop(self, n, op, a, b):
        try:
            if isinstance(op, ast.Add) and type(a) is type(b) and isinstance(a, (str, list, int)) and not isinstance(a, bool):
                return a + b
            if isinstance(a, int) and isinstance(b, int) and not isinstance(a, bool) and not isinstance(b, bool):
                if isinstance(op, ast.Sub):
                    return a - b
                if isinstance(op, ast.Mult):
                    return a * b
                if isinstance(op, ast.FloorDiv) and b:
                    return a // b
                if isinstance(op, ast.Mod) and b:
                    return a % b
            if isinstance(op, ast.Mult) and isinstance(a, str) and isinstance(b, int):
                return a * min(b, 64)
        except TypeError:
            pass
        self.fail(n, 'operator in ' + ast.unparse(n)[:60])

    def ev(self, n, env, depth):
        self.budget -= 1
        if self.budget < 0:
            self.fail(n, 'step budget exhausted')
        if isinstance(n, ast.Constant):
            return n.value
        if isinstance(n, ast.Name):
            if n.id in env:
                return env[n.id]
            return self.module_name(n)
        if isinstance(n, (ast.List, ast.Tuple)):
            return [self.ev(e, env, depth) for e in n.elts]
        if isinstance(n, ast.JoinedStr):
            out = ''
            for p in n.values:
                if isinstance(p, ast.Constant):
                    out += str(p.value)
                elif isinstance(p, ast.FormattedValue) and p.conversion == -1 and p.format_spec is None:
                    v = self.ev(p.value, env, depth)
                    if not isinstance(v, (str, int)):
                        self.fail(n, 'f-string value')
                    out += str(v)
                else:
                    self.fail(n, 'format spec')
            return out
        if isinstance(n, ast.BinOp):
            return self.binop(n, n.op, self.ev(n.left, env, depth), self.ev(n.right, env, depth))
        if isinstance(n, ast.BoolOp):
            v = None
            for x in n.values:
                v = self.ev(x, env, depth)
                if isinstance(n.op, ast.And) and not v:
                    return v
                if isinstance(n.op, ast.Or) and v:
                    return v
            return v
        if isinstance(n, ast.UnaryOp):
            v = self.ev(n.operand, env, depth)
            if isinstance(n.op, ast.Not):
                return not v
            if isinstance(n.op, ast.USub) and isinstance(v, int):
                return -v
            self.fail(n, ast.unparse(n))
        if isinstance(n, ast.IfExp):
            return self.ev(n.body, env, depth) if self.ev(n.test, env, depth) else self.ev(n.orelse, env, depth)
        if isinstance(n, ast.Compare):
            left = self.ev(n.left, env, depth)
            for op, c in zip(n.ops, n.comparators):
                right = self.ev(c, env, depth)
                try:
                    if isinstance(op, ast.Eq):
                        r = left == right
                    elif isinstance(op, ast.NotEq):
                        r = left != right
                    elif isinstance(op, ast.In):
                        r = left in right
                    elif isinstance(op, ast.NotIn):
                        r = left not in right
                    elif isinstance(op, ast.Is):
                        r = left is right
                    elif isinstance(op, ast.IsNot):
                        r = left is not right
                    elif isinstance(op, ast.Lt):
                        r = left < right
                    elif isinstance(op, ast.LtE):
                        r = left <= right
                    elif isinstance(op, ast.Gt):
                        r = left > right
                    elif isinstance(op, ast.GtE):
                        r = left >= right
                    else:
                        self.fail(n, ast.unparse(n))
                except TypeError:
                    self.fail(n, 'comparison ' + ast.unparse(n))
                if not r:
                    return False
                left = right
            return True
        if isinstance(n, ast.Subscript):
            base = self.ev(n.value, env, depth)
            if not isinstance(base, (str, list)):
                self.fail(n, ast.unparse(n))
            try:
                if isinstance(n.slice, ast.Slice):
                    lo = self.ev(n.slice.lower, env, depth) if n.slice.lower is not None else None
                    hi = self.ev(n.slice.upper, env, depth) if n.slice.upper is not None else None
                    st = self.ev(n.slice.step, env, depth) if n.slice.step is not None else None
                    return base[lo:hi:st]
                return base[self.ev(n.slice, env, depth)]
            except (IndexError, TypeError, ValueError):
                self.fail(n, 'index error in ' + ast.unparse(n))
        if isinstance(n, (ast.ListComp, ast.GeneratorExp)):
            if len(n.generators) != 1 or n.generators[0].is_async:
                self.fail(n, 'comprehension shape')
            g = n.generators[0]
            it = self.ev(g.iter, env, depth)
            if not isinstance(it, (str, list, range)):
                self.fail(n, 'comprehension over ' + ast.unparse(g.iter))
            out = []
            inner = dict(env)
            for x in list(it):
                self.assign(g.target, x, inner, depth)
                if all(self.ev(c, inner, depth) for c in g.ifs):
                    out.append(self.ev(n.elt, inner, depth))
            return out
        if isinstance(n, ast.Call):
            return self.evcall(n, env, depth)
        self.fail(n, type(n).__name__)

    def evcall(self, n, env, depth):
        f = n.func
        if n.keywords:
            self.fail(n, 'keyword arguments in ' + ast.unparse(n)[:60])
        hf = self.helper(f)
        if hf is not None:
            return self.call(hf, [self.ev(a, env, depth) for a in n.args], depth + 1)
        args = [self.ev(a, env, depth) for a in n.args]
        if isinstance(f, ast.Name):
            try:
                if f.id == 'len' and len(args) == 1 and isinstance(args[0], (str, list, range)):
                    return len(args[0])
                if f.id == 'str' and len(args) == 1 and isinstance(args[0], (str, int)):
                    return str(args[0])
                if f.id == 'int' and 1 <= len(args) <= 2 and isinstance(args[0], (str, int)):
                    return int(*args)
                if f.id == 'range' and 1 <= len(args) <= 3 and all(isinstance(a, int) for a in args):
                    r = range(*args)
                    if len(r) > 10000:
                        self.fail(n, 'range too long')
                    return r
                if f.id == 'enumerate' and len(args) == 1 and isinstance(args[0], (str, list, range)):
                    return [[i, x] for i, x in enumerate(args[0])]
                if f.id in ('list', 'tuple') and len(args) <= 1:
                    return list(args[0]) if args else []
                if f.id == 'reversed' and len(args) == 1 and isinstance(args[0], (str, list, range)):
                    return list(reversed(args[0]))
                if f.id == 'zip' and all(isinstance(a, (str, list, range)) for a in args):
                    return [list(t) for t in zip(*args)]
                if f.id in ('min', 'max') and args and all(isinstance(a, int) for a in args):
                    return (min if f.id == 'min' else max)(args)
                if f.id == 'bool' and len(args) == 1:
                    return bool(args[0])
                if f.id == 'sum' and 1 <= len(args) <= 2 and isinstance(args[0], (list, range)):
                    total = args[1] if len(args) == 2 else 0
                    for x in args[0]:
                        total = self.binop(n, ast.Add(), total, x)
                    return total
                if f.id == 'abs' and len(args) == 1 and isinstance(args[0], int) and not isinstance(args[0], bool):
                    return abs(args[0])
                if f.id in ('any', 'all') and len(args) == 1 and isinstance(args[0], (list, range, str)):
                    return (any if f.id == 'any' else all)(bool(x) for x in args[0])
            except (TypeError, ValueError):
                self.fail(n, 'error evaluating ' + ast.unparse(n)[:60])
            self.fail(n, 'call ' + ast.unparse(n)[:60])
        if isinstance(f, ast.Attribute):
            if isinstance(f.value, ast.Name) and f.value.id == 'str' and f.attr in _STR_OK and args and isinstance(args[0], str):
                recv, args = args[0], args[1:]
            else:
                recv = self.ev(f.value, env, depth)
            try:
                if isinstance(recv, str) and f.attr in _STR_OK:
                    r = getattr(recv, f.attr)(*args)
                    return list(r) if isinstance(r, tuple) else r
                if isinstance(recv, list) and f.attr in _LIST_OK:
                    return getattr(recv, f.attr)(*args)
            except (TypeError, ValueError, IndexError):
                self.fail(n, 'error evaluating ' + ast.unparse(n)[:60])
        self.fail(n, 'call ' + ast.unparse(n)[:60])




class DigitInterp(MiniInterp):
    """MiniInterp + Decimal arithmetic (precision 15, as the @precision decorator sets it) + attribute values"""

    def __init__(self, idx, cls, where, attrs, evaluator):
        MiniInterp.__init__(self, idx, cls, where)
        self.attrs = attrs
        self.evaluator = evaluator
        import decimal
        self.decimal = decimal
        self.ctx = decimal.Context(prec=15)

    def binop(self, n, op, a, b):
        D = self.decimal.Decimal
        if isinstance(a, D) or isinstance(b, D):
            if all(isinstance(x, (D, int)) and not isinstance(x, bool) for x in (a, b)):
                a, b = D(a), D(b)
                if isinstance(op, ast.Add):
                    return self.ctx.add(a, b)
                if isinstance(op, ast.Sub):
                    return self.ctx.subtract(a, b)
                if isinstance(op, ast.Mult):
                    return self.ctx.multiply(a, b)
                if isinstance(op, ast.Div) and b != 0:
                    return self.ctx.divide(a, b)
            self.fail(n, 'Decimal operator in ' + ast.unparse(n)[:60])
        return MiniInterp.binop(self, n, op, a, b)

    def ev(self, n, env, depth):
        if isinstance(n, ast.Attribute):
            d = dotted(n)
            if d in self.attrs:
                return self.attrs[d]
            if isinstance(n.value, ast.Name):
                c = self.idx.resolve_class(self.cls.mod, n.value)
                if c is not None:
                    try:
                        return self.evaluator.class_const(c, n.attr)
                    except Unresolved:
                        pass
            self.fail(n, 'attribute ' + ast.unparse(n))
        if isinstance(n, ast.UnaryOp) and isinstance(n.op, ast.USub):
            v = self.ev(n.operand, env, depth)
            if isinstance(v, self.decimal.Decimal):
                return self.ctx.minus(v)
            if isinstance(v, int) and not isinstance(v, bool):
                return -v
            self.fail(n, ast.unparse(n))
        return MiniInterp.ev(self, n, env, depth)

    def evcall(self, n, env, depth):
        f = n.func
        D = self.decimal.Decimal
        if isinstance(f, ast.Name) and f.id == 'Decimal' and len(n.args) == 1 and not n.keywords:
            v = self.ev(n.args[0], env, depth)
            if isinstance(v, (int, float, str, D)) and not isinstance(v, bool):
                try:
                    return D(v)
                except self.decimal.InvalidOperation:
                    self.fail(n, 'Decimal(%r)' % (v,))
        if isinstance(f, ast.Attribute) and isinstance(f.value, ast.Call) and isinstance(f.value.func, ast.Name) \
                and f.value.func.id == 'getcontext' and f.attr in ('add', 'subtract', 'multiply', 'divide') and len(n.args) == 2:
            a, b = (self.ev(x, env, depth) for x in n.args)
            if all(isinstance(x, (D, int)) and not isinstance(x, bool) for x in (a, b)):
                try:
                    return getattr(self.ctx, f.attr)(D(a), D(b))
                except (self.decimal.InvalidOperation, self.decimal.DivisionByZero):
                    self.fail(n, 'arithmetic error in ' + ast.unparse(n)[:60])
        return MiniInterp.evcall(self, n, env, depth)


# ---------------------------------------------------------------------------------------------------------------
# C03.sign-invariance / C03.digital-value  : BaseNumberParser._get_digital_value (+ helpers) interpreted per culture
#                                            configuration on probe literals
# C03.grouped / C03.grouped.percent        : the culture's grouped / decimal literal is ONE match of a digit pattern the
#                                            registered extractor wires (regex-language membership, L+)
# C03.grouped.signed                       : the same literals with '-' written before them are ONE match of a wired digit
#                                            pattern too (extract() keeps a merged span only when one pattern matched exactly it)

def _mark_probes(a, b, g, d):
    out = []
    for m in (a, b):
        if isinstance(m, str) and m.strip():
            out += [t.replace('M', m) for t in ('1M5', '0M5', '12M34', '1M234', '12M345', '123M456', '0M123', '1234M5', '100M000')]
    if g.strip():
        out += [t.replace('G', g).replace('D', d) for t in ('1G234G567', '123G456G789', '1G234D5', '123G456D78', '12G345G678D25')]
    seen, res = set(), []
    for x in out:
        if x not in seen:
            seen.add(x)
            res.append(x)
    return res


def _rx_escape(ch):
    return ''.join('\\' + c if c in '.^$*+?{}[]\\|() ' else c for c in ch)


def rule_digit_parser(chk):
    import sys as _sys
    from .. import rx
    from decimal import Decimal
    ev = Ev()
    idx = ev.idx
    chk.rule('C03.sign-invariance', 'the digit parser values a literal with a leading \'-\' / \'- \' as the negative of the unsigned literal '
                                    '(interpreted per culture configuration)', floor=8, control=True)
    chk.rule('C03.digital-value', 'the digit parser values the culture\'s canonical plain / grouped / decimal literals correctly', floor=8,
             control=True)
    chk.rule('C03.grouped', 'the culture\'s plain / grouped / decimal digit literal is one match of a digit pattern of the registered '
                            'number extractor', floor=8, control=True)
    chk.rule('C03.grouped.percent', 'the same literals followed by % are one match of the registered percentage extractor', floor=12,
             control=True)
    chk.rule('C03.grouped.signed', 'every literal that is one match of a digit pattern is also one match of a digit pattern of the same '
                                   'extractor when a minus sign is written directly before it', floor=60, control=True)
    regs = number_registrations(ev)
    bnp = idx.cls('recognizers_number.number.parsers.BaseNumberParser')
    gdv = bnp.methods.get('_get_digital_value')
    if gdv is None:
        raise AnalysisError('anchor vanished: BaseNumberParser._get_digital_value')
    lfm_cls, modes = long_format_table(ev)
    _cm, supported = supported_cultures(ev, modes)
    table, _variant = separator_selection(gdv)
    variant_attr = _variant
    bn = idx.cls('recognizers_number.resources.base_numbers.BaseNumbers')
    bvals = ev.R.values(bn)
    for need in ('IntegerRegexDefinition', 'DoubleRegexDefinition', 'NumberReplaceToken'):
        if need not in bvals:
            raise AnalysisError('anchor vanished: BaseNumbers.%s' % need)
    token = bvals['NumberReplaceToken']

    def marks_of(code):
        mode = supported.get(code, (None, None))[0]
        if mode is None:
            return ',', '.'
        th, dec, _l = modes[mode]
        return th, (dec if dec is not None else '.')

    unread = {}      # extractor -> digit patterns the regex reader cannot analyse (a miss next to one of these is not a verdict)

    def digit_patterns(ecls):
        """evaluated patterns of the extractor closure that lead to the digit parser ('Num' in the tag)"""
        out = []
        for rv in extractor_closure(ev, ecls):
            if not (isinstance(rv.tag, str) and 'Num' in rv.tag):
                continue
            pat = None
            if rv.kind == 'resource':
                pat = rv.pattern
            elif rv.kind == 'format' and rv.mode in modes:
                th, dec, _l = modes[rv.mode]
                if dec is None:
                    pat = bvals['IntegerRegexDefinition'].fill('\\b', _rx_escape(th))
                else:
                    pat = bvals['DoubleRegexDefinition'].fill('\\b', _rx_escape(th), _rx_escape(dec))
            if pat is None and rv.kind == 'format':
                unread.setdefault(ecls.qual, []).append('%s:%d %s' % (rv.cls.mod.rel, rv.line, rv.name or rv.expr))
            if pat is None:
                continue
            try:
                out.append((rv, rx.parse(pat)))
            except rx.RxUnsupported:
                unread.setdefault(ecls.qual, []).append('%s:%d %s' % (rv.cls.mod.rel, rv.line, rv.name or rv.expr))
                continue
            except rx.RxError as e:
                raise AnalysisError('%s:%d pattern %s not parsable: %s' % (rv.cls.mod.rel, rv.line, rv.name or rv.expr, e))
        return out

    def judge_signed(ecls, code, th, dec, line, pats, covered, suffix, what, shown=''):
        """C03.grouped.signed: BaseNumberExtractor.extract keeps a merged span only when ONE pattern matched exactly that span, so the
        literal with its sign must itself be one match of a pattern (a sign matched by one pattern and the digits by another is
        dropped as a whole).  Judged only on literals whose unsigned form is one match (the others are C03.grouped's)."""
        if not covered:
            chk.exempt('C03.grouped.signed', ecls.mod.path, '%s[%s] %s' % (ecls.name, code, what),
                       'no unsigned literal of the culture is one match (reported by C03.grouped)')
            return
        for lit in covered:
            signed = '-' + lit + suffix
            ok = any(rx.matches(t, signed) for _rv, t in pats)
            by = '?'
            if not ok and unread.get(ecls.qual):
                raise AnalysisError('C03.grouped.signed: %r is not matched by the readable digit patterns of %s, but %s could not be '
                                    'analysed by the regex reader: no verdict' % (signed, ecls.name, ', '.join(unread[ecls.qual])))
            if not ok:
                for rv, t in pats:
                    if rx.matches(t, lit + suffix):
                        by = '%s:%d %s' % (rv.cls.mod.rel, rv.line, rv.name or ('format row ' + str(rv.mode)))
                        break
            chk.judge(ok, 'C03.grouped.signed', ecls.mod.path, '%s[%s] %s %r' % (ecls.name, code, what, signed + shown),
                      'grouping %s, decimal %s; unsigned literal is one match: True; signed literal is one match: %s'
                      % (show(th), show(dec), ok),
                      'culture %s (grouping %s, decimal %s): %r is not one match of any digit pattern wired by %s although %r is (first by '
                      '%s, which has no sign part): the sign is matched by another pattern, no single match covers the merged span, and '
                      'the whole literal is dropped or loses its sign' % (code, show(th), show(dec), signed, ecls.name, lit + suffix, by),
                      line)

    seen_cfg = set()
    pat_cache = {}
    for nr in regs:
        r = nr.reg
        code = r.culture
        if r.model_cls.name == 'NumberModel' and (nr.config_cls.qual, code) not in seen_cfg:
            seen_cfg.add((nr.config_cls.qual, code))
            cfg = nr.config_cls
            vals = {}
            for s in SEP_SLOTS + ('is_multi_decimal_separator_culture', 'non_standard_separator_variants'):
                sl = slot(ev, cfg, s)
                if sl.value is None and sl.origin.startswith('unresolved'):
                    raise AnalysisError('%s.%s wiring not evaluable (%s)' % (cfg.name, s, sl.origin))
                vals[s] = sl.value
            ccode = culture_info_code(ev, cfg, nr.config_call, r.mod)[0]
            multi = bool(vals['is_multi_decimal_separator_culture'])
            variant = ccode in (vals['non_standard_separator_variants'] or [])
            attrs = {'self.config.decimal_separator_char': vals['decimal_separator_char'],
                     'self.config.non_decimal_separator_char': vals['non_decimal_separator_char'],
                     'self.config.is_multi_decimal_separator_culture': multi,
                     'self.' + variant_attr: variant, 'sys.maxsize': _sys.maxsize}
            dslot, nslot = table[(multi, variant)]
            d, g = vals[dslot], vals[nslot]
            where = 'BaseNumberParser._get_digital_value[%s]' % code

            def value(text):
                v = DigitInterp(idx, bnp, where, attrs, ev).call(gdv, [text, 1])
                if not isinstance(v, Decimal):
                    raise AnalysisError('%s: %r does not evaluate to a Decimal' % (where, text))
                return v
            construct = '_get_digital_value under %s[%s]' % (cfg.name, code)
            bad = []
            n = 0
            for x in _mark_probes(vals['decimal_separator_char'], vals['non_decimal_separator_char'], g, d):
                base = value(x)
                for prefix in ('-', '- '):
                    n += 1
                    got = value(prefix + x)
                    if got != -base:
                        bad.append('%r -> %s but %r -> %s' % (prefix + x, got, x, base))
            chk.judge(not bad, 'C03.sign-invariance', bnp.mod.path, construct,
                      '%d signed probes, %d differ%s' % (n, len(bad), (': ' + '; '.join(bad)) if bad else ''),
                      'culture %s: a leading minus changes the magnitude the digit parser computes: %s (multi-decimal-separator '
                      'heuristic: the distance from the start counts the sign)' % (code, '; '.join(bad[:6])), gdv.lineno)
            badv = []
            canon = ['1234', '0', '1234D5', '0D5', '100D10']
            if g.strip() or g == ' ':
                canon += ['1G234', '12G345', '123G456', '12G345G678', '1G234D5', '12G345G678D25', '100G000']
            for tpl in canon:
                x = tpl.replace('G', g).replace('D', d)
                want = Decimal(tpl.replace('G', '').replace('D', '.'))
                got = value(x)
                if got != want:
                    badv.append('%r -> %s (expected %s)' % (x, got, want))
            chk.judge(not badv, 'C03.digital-value', bnp.mod.path, construct,
                      '%d canonical literals (grouping %s, decimal %s), %d wrong%s' % (len(canon), show(g), show(d), len(badv),
                                                                                      (': ' + '; '.join(badv)) if badv else ''),
                      'culture %s: the digit parser mis-values canonical literals: %s' % (code, '; '.join(badv[:6])), gdv.lineno)

        # ---- extractor language
        th, dec = marks_of(code)
        lits = [t.replace('G', th).replace('D', dec) for t in ('1234', '1234D5', '0D5', '1G234', '12G345G678', '123G456G789',
                                                                  '1G234D5', '12G345G678D25')]
        if r.model_cls.name == 'NumberModel':
            key = nr.extractor_cls.qual
            if key not in pat_cache:
                pat_cache[key] = digit_patterns(nr.extractor_cls)
            pats = pat_cache[key]
            if not pats:
                raise AnalysisError('%s: no digit pattern reachable from %s' % (code, nr.extractor_cls.name))
            miss = [lit for lit in lits if not any(rx.matches(t, lit) for _rv, t in pats)]
            chk.judge(not miss, 'C03.grouped', nr.extractor_cls.mod.path, '%s[%s]' % (nr.extractor_cls.name, code),
                      '%d literals (grouping %s, decimal %s); not one match: %s' % (len(lits), show(th), show(dec), miss),
                      'culture %s (grouping %s, decimal %s): no single digit pattern wired by %s matches the whole literal(s) %s, so they '
                      'cannot be recognised as one entity' % (code, show(th), show(dec), nr.extractor_cls.name, miss), r.line)
            judge_signed(nr.extractor_cls, code, th, dec, r.line, pats, [lit for lit in lits if lit not in miss], '', 'number')
        elif r.model_cls.name == 'PercentModel':
            ecls = nr.extractor_cls
            key = ecls.qual
            if key not in pat_cache:
                pat_cache[key] = digit_patterns(ecls)
            pats = pat_cache[key]
            is_base_pct = any(k.name == 'BasePercentageExtractor' for k in idx.mro(ecls))
            if is_base_pct:
                k_, gd = idx.find_method(ecls, 'get_definitions')
                if gd is None:
                    raise AnalysisError('%s has no get_definitions' % ecls.name)
                defs = []
                for n_ in ast.walk(gd):
                    if isinstance(n_, ast.Return) and isinstance(n_.value, (ast.List, ast.Tuple)):
                        for e_ in n_.value.elts:
                            try:
                                defs.append(rx.parse(ev.ev(k_.mod, e_)))
                            except (Unresolved, rx.RxError) as ex:
                                raise AnalysisError('%s.get_definitions: %s not analysable (%s)' % (ecls.name, ast.unparse(e_), ex))
                if not defs:
                    raise AnalysisError('%s.get_definitions: no definitions found' % ecls.name)
                ok_tok = any(rx.matches(t, token + '%') for t in defs)
                chk.judge(ok_tok, 'C03.grouped.percent', ecls.mod.path, '%s[%s]: <number>%%' % (ecls.name, code),
                          'a percentage definition matches %s%%: %s' % (token, ok_tok),
                          'culture %s: no percentage definition of %s matches a number followed by %%' % (code, ecls.name), r.line)
                miss = [lit + '%' for lit in lits if not any(rx.matches(t, lit) for _rv, t in pats)]
                chk.judge(not miss, 'C03.grouped.percent', ecls.mod.path, '%s[%s]' % (ecls.name, code),
                          '%d literals; number part not one match: %s' % (len(lits), miss),
                          'culture %s: the number extractor inside %s has no single digit pattern matching the number part of %s, so these '
                          'are not recognised as one percentage' % (code, ecls.name, miss), r.line)
                judge_signed(ecls, code, th, dec, r.line, pats, [lit for lit in lits if lit + '%' not in miss], '', 'percentage', '%')
            else:
                if not pats:
                    raise AnalysisError('%s: no digit percentage pattern reachable from %s' % (code, ecls.name))
                miss = [lit + '%' for lit in lits if not any(rx.matches(t, lit + '%') for _rv, t in pats)]
                chk.judge(not miss, 'C03.grouped.percent', ecls.mod.path, '%s[%s]' % (ecls.name, code),
                          '%d literals (grouping %s, decimal %s); not one match: %s' % (len(lits), show(th), show(dec), miss),
                          'culture %s (grouping %s, decimal %s): no single digit pattern wired by %s matches the whole literal(s) %s: the '
                          'percentage is cut at a grouping mark' % (code, show(th), show(dec), ecls.name, miss), r.line)
                judge_signed(ecls, code, th, dec, r.line, pats, [lit for lit in lits if lit + '%' not in miss], '%', 'percentage')
    # controls: the interpreter on a digit parser that counts the sign in the distance (today's defect shape) and membership
    ctl_attrs = {'self.config.decimal_separator_char': '.', 'self.config.non_decimal_separator_char': ',',
                 'self.config.is_multi_decimal_separator_culture': True, 'self.' + variant_attr: False, 'sys.maxsize': _sys.maxsize}
    from ..index import Cls
    ctl = Cls(bnp.mod, ast.parse(
        "class P:\n    def v(self, s, power):\n        t = Decimal(0)\n        neg = False\n        for i, c in enumerate(s):\n"
        "            if c.isdigit():\n                t = t * 10 + Decimal(c)\n            elif c == '-':\n                neg = True\n"
        "            elif c == ',' and i > 3:\n                return Decimal(-1)\n        return t if not neg else t * -1\n").body[0])
    a = DigitInterp(idx, ctl, 'control', ctl_attrs, ev).call(ctl.methods['v'], ['123,456', 1])
    b = DigitInterp(idx, ctl, 'control', ctl_attrs, ev).call(ctl.methods['v'], ['-123,456', 1])
    chk.control('C03.sign-invariance', a == Decimal(123456) and b != -a)
    chk.control('C03.digital-value', a == Decimal(123456) and Decimal('123.456') != a)
    t = rx.parse(bvals['IntegerRegexDefinition'].fill('\\b', _rx_escape('.')))
    chk.control('C03.grouped', rx.matches(t, '12.345.678') and not rx.matches(t, '12,345,678'))
    t = rx.parse('(?<!%|\\d)\\d+([\\.．]\\d+)?(\\s*)[％%](?!\\d)')
    chk.control('C03.grouped.percent', rx.matches(t, '234%') and not rx.matches(t, '1,234%'))
    t = rx.parse('(?<=\\b)(?<!\\d+[\\.,])\\d{1,3}(\\.\\d{3})+,\\d+')
    t2 = rx.parse('(((?<!\\d+\\s*)-\\s*)|((?<=\\b)(?<!\\d+[\\.,])))\\d{1,3}(\\.\\d{3})+,\\d+')
    chk.control('C03.grouped.signed', rx.matches(t, '1.234,5') and not rx.matches(t, '-1.234,5') and rx.matches(t2, '-1.234,5'))


_run_before_digit_parser = run


def run(chk):       # noqa: F811
    _run_before_digit_parser(chk)
    rule_digit_parser(chk)


# ---------------------------------------------------------------------------------------------------------------
# C03.filter-overlap and C03.sign-fraction (round 5): tabulations of the real functions with sa/ointerp.py
#
# C03.filter-overlap  BaseNumberExtractor._filter_item(er, matches) is interpreted on every interval order type of an
#                     extraction and one or two ambiguous matches over a small grid: the extraction is dropped iff it
#                     overlaps one of the matches.
# C03.sign-fraction   CJKNumberParser.dou_parse is interpreted per CJK configuration on decimals built from the culture's own
#                     digit map, point character and negative sign: value = sign * (|integer part| + fraction).

def oi_value(v):
    """python value -> ointerp representation (dicts are {key: (key, value)})"""
    if isinstance(v, dict):
        return {k: (k, oi_value(x)) for k, x in v.items()}
    if isinstance(v, list):
        return [oi_value(x) for x in v]
    return v


def oi_regex_hooks():
    """regex.search / regex.split over pattern TEXT, decided with the regex reader (L+): search = membership of .*P.*"""
    from .. import rx
    from ..ointerp import native
    cache = {}

    def tree(p):
        if not isinstance(p, str):
            raise AnalysisError('regex hook: pattern is not a string (%r)' % (p,))
        if p not in cache:
            try:
                cache[p] = (rx.parse('(?:.*)(?:%s)(?:.*)' % p), rx.parse(p))
            except rx.RxError as e:
                raise AnalysisError('regex hook: pattern %r not analysable (%s)' % (p[:40], e))
        return cache[p]

    def search(it, args, kw):
        return True if rx.matches(tree(args[0])[0], args[1]) else None

    def split(it, args, kw):
        p, s = args[0], args[1]
        t = tree(p)[1]
        try:
            lang = rx.enumerate_language(t, limit=200)
        except rx.RxError:
            raise AnalysisError('regex.split hook: separator pattern %r is not a finite set of characters' % (p[:40],))
        if not lang or any(len(x) != 1 for x in lang):
            raise AnalysisError('regex.split hook: separator pattern %r is not a set of single characters' % (p[:40],))
        out, cur = [], ''
        for ch in s:
            if ch in lang:
                out.append(cur)
                cur = ''
            else:
                cur += ch
        out.append(cur)
        return out
    return {'regex.search': search, 'regex.split': split}


def super_interp_class():
    """ointerp.Interp + zero-argument super().method (resolved after the current class in the MRO of self)"""
    from ..ointerp import Bound, FuncRef, Interp, native

    class SuperInterp(Interp):
        def ev(self, e, env, mod, cls):
            if isinstance(e, ast.Attribute) and isinstance(e.value, ast.Call) and isinstance(e.value.func, ast.Name) \
                    and e.value.func.id == 'super' and not e.value.args and not e.value.keywords and cls is not None:
                ok, o = env.get('self')
                if ok and getattr(o, 'cls', None) is not None:
                    mro = self.idx.mro(o.cls)
                    if cls in mro:
                        for k in mro[mro.index(cls) + 1:]:
                            if e.attr in k.methods:
                                return Bound(o, FuncRef(k.mod, k.methods[e.attr], k))
                        if e.attr == '__init__':
                            return native(lambda it, a, kw: None)
                self.fail(e, 'super().%s' % e.attr)
            return Interp.ev(self, e, env, mod, cls)

        def call_value(self, f, args, kwargs, node):
            # builtins passed as values (sorted(keys, key=len), map(str, xs))
            if isinstance(f, tuple) and len(f) == 2 and f[0] == 'builtin':
                return self.builtin(f[1], list(args), kwargs, node)
            return Interp.call_value(self, f, args, kwargs, node)
    return SuperInterp


def cjk_config_table(ev, cfg, code):
    from ..ointerp import Native, native
    table = {}
    for s_ in ('zero_to_nine_map', 'round_number_map_char', 'unit_map', 'ten_chars', 'round_direct_list', 'zero_char', 'pair_char',
               'dozen_regex', 'pair_regex', 'point_regex', 'negative_number_sign_regex', 'double_and_round_regex', 'full_to_half_map',
               'trato_sim_map', 'digit_num_regex', 'frac_split_regex'):
        try:
            sl = slot(ev, cfg, s_)
        except AnalysisError:
            continue
        if sl.value is None and sl.origin.startswith('unresolved'):
            raise AnalysisError('%s.%s wiring not evaluable (%s)' % (cfg.name, s_, sl.origin))
        table[s_] = oi_value(sl.value)
    table['culture_info'] = Native({'code': code, 'format': native(lambda it, a, k: str(a[0]))}, 'culture_info')
    return Native(table, '%s()' % cfg.name)


def rule_filter_and_fraction(chk):
    import itertools
    from .. import rx
    from ..ointerp import FuncRef, Interp, Native, Obj, PyExc, native
    ev = Ev()
    idx = ev.idx
    chk.rule('C03.filter-overlap', 'the ambiguity filter drops an extraction iff it overlaps an ambiguous match (tabulated)', floor=1,
             control=True)
    chk.rule('C03.sign-fraction', 'CJK decimal parse: value = sign x (|integer part| + fraction) (tabulated per configuration)', floor=2,
             control=True)
    bne = idx.cls('recognizers_number.number.extractors.BaseNumberExtractor')
    fi = bne.methods.get('_filter_item')
    if fi is None:
        raise AnalysisError('anchor vanished: BaseNumberExtractor._filter_item')
    chk.consulted(bne.mod.path)

    def mk_match(s, e):
        return Native({'start': native(lambda it, a, k, s=s: s), 'end': native(lambda it, a, k, e=e: e),
                       'group': native(lambda it, a, k: 'x' * (e - s))}, 'match[%d,%d)' % (s, e))

    def tabulate(fn, owner):
        grid = 6
        spans = [(s, e) for s in range(grid) for e in range(s + 1, grid + 1)]
        bad, runs = [], 0
        for (es, ee) in spans:
            for n in (1, 2):
                for ms in itertools.product(spans, repeat=n):
                    it = Interp(idx, where='_filter_item', budget=20000)
                    er = Obj(None, {'start': es, 'length': ee - es, 'text': 'x' * (ee - es), 'type': 't', 'data': None})
                    try:
                        got = it.call_function(FuncRef(bne.mod, fn, owner), [er, [mk_match(a, b) for a, b in ms]], {}, selfobj=Obj(owner, {}))
                    except PyExc as ex:
                        bad.append(('er [%d,%d) matches %s' % (es, ee, list(ms)), 'raises %s' % ex))
                        continue
                    runs += 1
                    want = not any(a < ee and b > es for a, b in ms)       # kept iff disjoint from every match
                    if bool(got) != want:
                        bad.append(('er [%d,%d) matches %s' % (es, ee, list(ms)), 'kept=%s, expected kept=%s' % (bool(got), want)))
        return bad, runs
    bad, runs = tabulate(fi, bne)
    msg = ''
    if bad:
        msg = ('BaseNumberExtractor._filter_item does not implement "drop iff overlapping": %s -> %s (%d of the tabulated configurations '
               'differ): when a culture\'s ambiguity filter fires, extractions are kept / dropped wrongly' % (bad[0][0], bad[0][1], len(bad)))
    chk.judge(not bad, 'C03.filter-overlap', bne.mod.path, 'BaseNumberExtractor._filter_item',
              '%d configurations (grid 6, one or two matches), %d wrong' % (runs, len(bad)), msg, fi.lineno)
    # the filter is applied through filter(lambda x: self._filter_item(x, matches), ers): keep = truthy
    ctl = ast.parse("def _filter_item(self, er, matches):\n    er_end = er.start + er.length\n    for match in matches:\n"
                    "        if not (match.end() <= er.start and match.start() >= er_end):\n            return False\n    return True\n").body[0]
    cbad, _r = tabulate(ctl, bne)
    chk.control('C03.filter-overlap', bool(cbad))

    # ---- CJK decimal composition
    regs = number_registrations(ev)
    cjk = idx.cls('recognizers_number.number.cjk_parsers.CJKNumberParser')
    dou = cjk.methods.get('dou_parse')
    if dou is None:
        raise AnalysisError('anchor vanished: CJKNumberParser.dou_parse')
    chk.consulted(cjk.mod.path)
    er_cls = idx.cls('recognizers_text.extractor.ExtractResult')
    hooks = oi_regex_hooks()
    done = set()

    def run_dou(fn, cfg_native, text):
        it = super_interp_class()(idx, hooks=hooks, where='dou_parse', budget=200000)
        src = Obj(er_cls, {'start': 0, 'length': len(text), 'text': text, 'type': 'builtin.num.double', 'data': 'DoubleChs', 'meta_data': None})
        res = it.call_function(FuncRef(cjk.mod, fn, cjk), [src], {}, selfobj=Obj(cjk, {'config': cfg_native}))
        return res.attrs.get('value') if isinstance(res, Obj) else None
    for nr in regs:
        code = nr.reg.culture
        if nr.reg.model_cls.name != 'NumberModel' or nr.config_cls.qual in done:
            continue
        pcls, _s = factory_decide(ev, nr.factory_call[0], nr.factory_call[1], nr.ptype, nr.config_cls)
        if cjk not in idx.mro(pcls):
            continue
        done.add(nr.config_cls.qual)
        cfgn = cjk_config_table(ev, nr.config_cls, code)
        digits = {k: v for k, v in (slot(ev, nr.config_cls, 'zero_to_nine_map').value or {}).items() if isinstance(v, int)}
        inv = {}
        for ch, v in digits.items():
            if not ch.isdigit() and not ('０' <= ch <= '９'):
                inv.setdefault(v, ch)
        need = [0, 2, 5, 6]
        if any(v not in inv for v in need):
            raise AnalysisError('%s: digit characters for %s not found in zero_to_nine_map' % (code, need))
        pt = rx.parse(slot(ev, nr.config_cls, 'point_regex').value)
        point = next((c for c in '点點.．・' if rx.matches(pt, c)), None)
        ng = rx.parse(slot(ev, nr.config_cls, 'negative_number_sign_regex').value)
        neg = next((c for c in ('负', '負', '-', 'マイナス') if rx.matches(ng, c + inv[6]) and len(c) == 1), None)
        if point is None or neg is None:
            raise AnalysisError('%s: point / negative sign character not derivable from the configuration' % code)
        ten = next((k for k, v in (slot(ev, nr.config_cls, 'round_number_map_char').value or {}).items() if v == 10), None)
        cases = [(inv[6] + point + inv[6], 6.6), (neg + inv[6] + point + inv[6], -6.6), (neg + inv[0] + point + inv[5], -0.5),
                 (inv[0] + point + inv[5], 0.5), (neg + inv[2] + point + inv[2] + inv[5], -2.25)]
        if ten:
            cases += [(neg + ten + inv[2] + point + inv[5], -12.5), (ten + inv[2] + point + inv[5], 12.5)]
        badc = []
        for text, want in cases:
            try:
                got = run_dou(dou, cfgn, text)
            except PyExc as ex:
                badc.append('%s raises %s' % (text, ex))
                continue
            if not isinstance(got, (int, float)) or isinstance(got, bool) or abs(float(got) - want) > 1e-9:
                badc.append('%s -> %s (expected %s)' % (text, got, want))
        chk.judge(not badc, 'C03.sign-fraction', cjk.mod.path, 'CJKNumberParser.dou_parse under %s[%s]' % (nr.config_cls.name, code),
                  '%d decimals (sign %s, point %s), %d wrong%s' % (len(cases), neg, point, len(badc), (': ' + '; '.join(badc)) if badc else ''),
                  'culture %s: CJKNumberParser.dou_parse does not compute sign x (|integer| + fraction): %s - the fraction of a negative '
                  'decimal must be subtracted (get_int_value already returns the negative integer part)' % (code, '; '.join(badc[:4])),
                  dou.lineno)
    if not done:
        raise AnalysisError('no CJK number configuration found')
    chk.control('C03.sign-fraction', abs((-6 + 0.6) - (-6.6)) > 1e-9)


_run_before_filter_fraction = run


def run(chk):       # noqa: F811
    _run_before_filter_fraction(chk)
    rule_filter_and_fraction(chk)


# ---------------------------------------------------------------------------------------------------------------
# C03.percent-text (round 6): the text the percentage parser hands to the digit parser.  BasePercentageParser.parse is read
# symbolically: is `<src>.text` replaced by the number's own text (`<src>.data[0]`) before super().parse(<src>)?  If not, the
# digit parser sees the literal WITH its percent suffix; _get_digital_value is then interpreted per culture configuration on
# `<literal>%` / `<literal> %` and must give the value of the bare literal.

def percent_handover(idx, pcls):
    """-> ('number' | 'original', class, line): which text reaches super().parse() in the percentage parser"""
    k, fn = idx.find_method(pcls, 'parse')
    if fn is None:
        raise AnalysisError('%s has no parse' % pcls.name)
    params = method_params(fn)
    if len(params) != 1:
        raise AnalysisError('%s.parse: expected one parameter' % k.name)
    src = params[0]
    sup = [n for n in ast.walk(fn) if isinstance(n, ast.Call) and isinstance(n.func, ast.Attribute) and n.func.attr == 'parse'
           and isinstance(n.func.value, ast.Call) and isinstance(n.func.value.func, ast.Name) and n.func.value.func.id == 'super']
    if len(sup) != 1 or len(sup[0].args) != 1 or not (isinstance(sup[0].args[0], ast.Name) and sup[0].args[0].id == src):
        raise AnalysisError('%s.parse: the delegation super().parse(%s) was not recognised' % (k.name, src))
    how = 'original'
    for n in ast.walk(fn):
        if isinstance(n, ast.Assign) and len(n.targets) == 1 and n.lineno < sup[0].lineno:
            t = n.targets[0]
            if isinstance(t, ast.Attribute) and isinstance(t.value, ast.Name) and t.value.id == src and t.attr == 'text':
                v = n.value
                def is_number_text(x):
                    return isinstance(x, ast.Subscript) and dotted(x.value) == '%s.data' % src and isinstance(x.slice, ast.Constant) \
                        and x.slice.value == 0
                if is_number_text(v):
                    how = 'number'
                elif isinstance(v, ast.Name) and any(isinstance(m, ast.Assign) and len(m.targets) == 1 and isinstance(m.targets[0], ast.Name)
                                                     and m.targets[0].id == v.id and is_number_text(m.value) for m in ast.walk(fn)):
                    how = 'number'      # a local that holds the number's own text
                else:
                    raise AnalysisError('%s.parse:%d %s.text is replaced by %s; not understood' % (k.name, n.lineno, src, ast.unparse(v)))
    return how, k, sup[0].lineno


def rule_percent_text(chk):
    import sys as _sys
    from decimal import Decimal
    ev = Ev()
    idx = ev.idx
    # floor 0: when the factory does not build a BasePercentageParser at all, C03.percent is the rule that reports it
    chk.rule('C03.percent-text', 'the digit parser values the text the percentage parser hands over like the bare literal', floor=0,
             control=True)
    regs = number_registrations(ev)
    bnp = idx.cls('recognizers_number.number.parsers.BaseNumberParser')
    gdv = bnp.methods['_get_digital_value']
    table, variant_attr = separator_selection(gdv)
    seen = set()
    for nr in regs:
        r = nr.reg
        if r.model_cls.name != 'PercentModel':
            continue
        pcls, _s = factory_decide(ev, nr.factory_call[0], nr.factory_call[1], nr.ptype, nr.config_cls)
        if not any(k.name == 'BasePercentageParser' for k in idx.mro(pcls)):
            continue
        if (nr.config_cls.qual, r.culture) in seen:
            continue
        seen.add((nr.config_cls.qual, r.culture))
        how, hk, hline = percent_handover(idx, pcls)
        chk.consulted(hk.mod.path)
        cfg = nr.config_cls
        vals = {s: slot(ev, cfg, s).value for s in SEP_SLOTS + ('is_multi_decimal_separator_culture', 'non_standard_separator_variants')}
        ccode = culture_info_code(ev, cfg, nr.config_call, r.mod)[0]
        multi = bool(vals['is_multi_decimal_separator_culture'])
        variant = ccode in (vals['non_standard_separator_variants'] or [])
        attrs = {'self.config.decimal_separator_char': vals['decimal_separator_char'],
                 'self.config.non_decimal_separator_char': vals['non_decimal_separator_char'],
                 'self.config.is_multi_decimal_separator_culture': multi, 'self.' + variant_attr: variant, 'sys.maxsize': _sys.maxsize}
        dslot, nslot = table[(multi, variant)]
        d, g = vals[dslot], vals[nslot]
        where = 'BaseNumberParser._get_digital_value[%s %%]' % r.culture

        def value(text):
            return DigitInterp(idx, bnp, where, attrs, ev).call(gdv, [text, 1])
        lits = [t.replace('G', g).replace('D', d) for t in ('1234', '12', '1G234', '45G000', '123G456', '12G345G678', '1G234D5', '12D5', '0D5')
                if g.strip() or 'G' not in t]
        bad = []
        for x in lits:
            base = value(x)
            for suffix in (('%', ' %') if how == 'original' else ('',)):
                got = value(x + suffix)
                if got != base:
                    bad.append('%r -> %s but %r -> %s' % (x + suffix, got, x, base))
        chk.judge(not bad, 'C03.percent-text', hk.mod.path, '%s.parse -> _get_digital_value under %s[%s]' % (hk.name, cfg.name, r.culture),
                  'hands over the %s text; %d literals, %d differ%s' % ('number\'s own' if how == 'number' else 'whole percentage', len(lits),
                                                                        len(bad), (': ' + '; '.join(bad[:6])) if bad else ''),
                  'culture %s: %s.parse passes the percentage text (with its percent suffix) on to the digit parser, which then mis-values '
                  'it: %s - the grouping heuristic measures the distance to the END of the text' % (r.culture, hk.name, '; '.join(bad[:5])),
                  hline)
    if not seen:
        chk.observe('C03.percent-text: no percentage registration is served by BasePercentageParser (see C03.percent)')
    ctl = ast.parse("class P(BaseNumberParser):\n    def parse(self, source):\n        number_text = source.text\n"
                    "        if isinstance(source.data, list):\n            number_text = source.data[0]\n"
                    "        result = super().parse(source)\n        return result\n").body[0]
    from ..index import Cls
    chk.control('C03.percent-text', percent_handover(idx, Cls(bnp.mod, ctl))[0] == 'original')


_run_before_percent_text = run


def run(chk):       # noqa: F811
    _run_before_percent_text(chk)
    rule_percent_text(chk)
