"""C07 - clock times resolve to the right 24-hour time, alone or attached to a date.

Decided (all on normal forms, nothing on source text or positions):

  C07.falsy-zero   an int decoded from an hour / minute / second group (int(group), numbers-table lookup of the
                   group, int-returning helper on the group) is never tested by truthiness on a path where the
                   value 0 aborts the decoder, skips the result, or is replaced by a default.  The fallback
                   idiom  x = table.get(k); if not x: x = int(k)  is recognised and exempt.
  C07.ampm-types   the parser types that can set the AM/PM comment (+ their images under
                   _determine_date_time_types) all have a branch in _resolve_ampm.
  C07.ampm-branch  every _resolve_ampm branch rewrites the value key(s) through to_pm and the TIMEX through
                   to_pm (time) / all_str_to_pm (composite TIMEX).
  C07.ampm-guard   every write of the AM/PM comment is under an upper bound <= 12 on the hour (on every int
                   variable the same function shifts by 12), or copies / is conditioned on another result's
                   comment.
  C07.to-pm        to_pm maps hour h in 1..12 to (h + 12) % 24 and prints it with two digits; all_str_to_pm
                   visits every match of HourTimeRegex, which finds exactly the two-digit T-hours of a TIMEX.
  C07.timex-pad    every hour / minute / second the time decoders print right after 'T' or ':' in a TIMEX
                   f-string is zero padded to two digits (HourTimeRegex only sees 'T\\d\\d').
  C07.ampm-table   time parsers: the path condition of the AM/PM comment, tabulated over hour 0..24 x its boolean flags, is
                   true exactly for hours 1..12 and never when a flag set together with a 12-hour shift / pinned hour is true.
  C07.ampm-split   the `if comment == 'ampm'` block of _date_time_resolution (base and Chinese), interpreted with _resolve_ampm
                   read from its source on results holding {resolve} or {resolveToPast, resolveToFuture}: every slot present
                   comes out as <slot>am and <slot>pm, none stays unsplit.
  C07.hour-table   the if/elif chain that shifts an hour by -12 (am) / +12 (pm) in the time and date-time parsers, interpreted
                   per marker x hour: am 12 -> 0, 1..11 unchanged; pm 1..11 -> +12, 12 -> 12; no marker unchanged.
  C07.compose-value  the statements that follow the date / time sub-parser calls of a composing function are interpreted with a
                   date value that carries a time of day (and the day-part shift scenarios): the emitted values take
                   year/month/day from the date value and hour (after the shift) / minute / second from the time.
  C07.suffix-table adjust_by_suffix of every culture's time parser configuration (the worded am / pm markers), interpreted with
                   sa/ointerp.py on AdjustParams(hour) and a stub match of the suffix pattern, per captured group (am / pm / neither /
                   no match) x hour x every combination of the day-part patterns it consults on the captured words: am words 12 -> 0,
                   1..11 unchanged; pm words 1..11 -> +12, 12 -> 12; day-part words keep the hour of the half day; an hour that
                   stays in 1..12 has has_am or has_pm set (otherwise match_to_time adds the two-readings comment).
  C07.compose      "<date> at <time>": in every date-time / date-time-range parser function that parses a time
                   sub-entity, the TIMEX it assigns is derived (dataflow) from that sub-result's own timex_str - and
                   from the date sub-result's timex_str when a date is parsed too - and format_short_time /
                   short_time / luis_date_short_time are only called with their field-presence arguments.
"""
import ast
import re

from ..core import AnalysisError, rel
from ..index import get_index

LEVEL = 'other'
DESIGN_REF = 'DESIGN.md#c07'
META = {
    'text': 'C07 (partial): hour/minute/second 0 is never treated as "missing" by the time decoders; the AM/PM '
            '"two readings" wiring is closed (comment writers <-> _resolve_ampm branches, value and TIMEX both '
            'rewritten, comment only under hour <= 12); to_pm arithmetic on 1..12; T-hour / minute fields of '
            'TIMEX strings are two-digit; a TIMEX composed from a time (and date) sub-entity is derived from that entity\'s own TIMEX',
    'note': 'Not decided: which surface forms the time regexes accept, the am/pm arithmetic inside match_to_time '
            '(12 am -> 00, 12 pm -> 12), 24:00 handling, the value side of composing a date with a time (C07.compose only decides '
            'that the composed TIMEX is derived from the sub-results\' own timex_str, not which characters of it are kept), anything '
            'about the numbers tables. The falsy-zero rule only sees ints whose provenance is a time group of the '
            'match (by group name) inside one function; values passed through attributes or other functions are '
            'not followed. The guard rule checks the presence of a <= 12 bound, not that it bounds the right '
            'quantity. C07.suffix-table does not decide which words the suffix patterns accept nor the culture-specific '
            'lunch / night conventions. Which middle strings join a date and a time (is_connector_token: ConnectorRegex / '
            'PrepositionRegex, e.g. the English ", at") is a pure regex-language question with no second table in the source: not decided.',
    'technique': 'ast def-use inside one function (provenance of ints from named regex groups), path conditions '
                 'from enclosing if/elif chains, evaluation of Constants.* through the source index, finite '
                 'evaluation of the to_pm hour expression, writer/reader set comparison',
}

PKG = 'recognizers_date_time.date_time'
NOVAL = object()
DIGIT_GROUPS = {'hour': 'hour', 'min': 'minute', 'sec': 'second'}
WORD_GROUPS = {'hournum': 'hour-word', 'minnum': 'minute-word', 'tens': 'minute-word'}
TIME_TYPES = ('time', 'timerange', 'datetime', 'datetimerange')
RESULT_ATTRS = {'success', 'timex', 'future_value', 'past_value', 'timex_str'}


# ---------------------------------------------------------------------------------------------------
# small helpers shared by the rules

def pkg_mods(idx):
    out = [m for n, m in sorted(idx.mods.items()) if n == PKG or n.startswith(PKG + '.')]
    if len(out) < 50:
        raise AnalysisError('anchor vanished: package %s (found %d modules)' % (PKG, len(out)))
    return out


def make_evalc(idx, mod, cls=None):
    """evaluator of constant expressions as seen from module `mod` (class attributes through the index)"""
    def ev(node, _cls=cls, _mod=mod, depth=0):
        if depth > 6 or node is None:
            return NOVAL
        if isinstance(node, ast.Constant):
            return node.value
        if isinstance(node, ast.Name):
            if _cls is not None:
                k, v = idx.class_attr(_cls, node.id)
                if v is not None:
                    return ev(v, k, k.mod, depth + 1)
            r = idx.resolve(_mod, node.id)
            if r and r[0] == 'const':
                return ev(r[2], None, r[1], depth + 1)
            return NOVAL
        if isinstance(node, ast.Attribute) and isinstance(node.value, ast.Name):
            c = idx.resolve_class(_mod, node.value)
            if c is None and _cls is not None and node.value.id == _cls.name:
                c = _cls
            if c is not None:
                k, v = idx.class_attr(c, node.attr)
                if v is not None:
                    return ev(v, k, k.mod, depth + 1)
            return NOVAL
        if isinstance(node, ast.BinOp) and isinstance(node.op, ast.Add):
            a, b = ev(node.left, _cls, _mod, depth + 1), ev(node.right, _cls, _mod, depth + 1)
            if a is NOVAL or b is NOVAL:
                return NOVAL
            try:
                return a + b
            except TypeError:
                return NOVAL
        if isinstance(node, ast.UnaryOp) and isinstance(node.op, ast.USub):
            a = ev(node.operand, _cls, _mod, depth + 1)
            return -a if isinstance(a, (int, float)) else NOVAL
        if isinstance(node, ast.Call) and isinstance(node.func, ast.Name) and node.func.id == 'int' and len(node.args) == 1:
            a = ev(node.args[0], _cls, _mod, depth + 1)
            try:
                return int(a) if a is not NOVAL else NOVAL
            except (TypeError, ValueError):
                return NOVAL
        return NOVAL
    return ev


def parents_of(fn):
    par = {}
    for n in ast.walk(fn):
        for ch in ast.iter_child_nodes(n):
            par[ch] = n
    return par


def own_walk(fn):
    """walk fn without descending into nested function / class definitions"""
    stack = list(ast.iter_child_nodes(fn))
    while stack:
        n = stack.pop()
        yield n
        if isinstance(n, (ast.FunctionDef, ast.AsyncFunctionDef, ast.ClassDef, ast.Lambda)):
            continue
        stack.extend(ast.iter_child_nodes(n))


def local_defs(fn):
    """name -> [value nodes] for simple assignments inside fn"""
    defs = {}
    for n in own_walk(fn):
        if isinstance(n, ast.Assign):
            for t in n.targets:
                if isinstance(t, ast.Name):
                    defs.setdefault(t.id, []).append(n.value)
        elif isinstance(n, ast.AnnAssign) and isinstance(n.target, ast.Name) and n.value is not None:
            defs.setdefault(n.target.id, []).append(n.value)
    return defs


def flatten_and(test):
    if isinstance(test, ast.BoolOp) and isinstance(test.op, ast.And):
        out = []
        for v in test.values:
            out.extend(flatten_and(v))
        return out
    return [test]


def path_condition(node, par, stop):
    """(positive conjuncts, negated tests) from the enclosing if / elif / conditional-expression chain"""
    pos, neg = [], []
    cur = node
    while cur is not stop and cur in par:
        p = par[cur]
        if isinstance(p, ast.If):
            if any(cur is s for s in p.body):
                pos.extend(flatten_and(p.test))
            elif any(cur is s for s in p.orelse):
                neg.append(p.test)
        elif isinstance(p, ast.IfExp):
            if cur is p.body:
                pos.extend(flatten_and(p.test))
            elif cur is p.orelse:
                neg.append(p.test)
        elif isinstance(p, ast.While):
            if any(cur is s for s in p.body):
                pos.extend(flatten_and(p.test))
        cur = p
    return pos, neg


def upper_bounds(conjuncts, evalc):
    """{dump(expr): least constant upper bound} from comparisons  e <= c / e < c / c >= e / c > e (chains too)"""
    out = {}

    def note(e, ub):
        k = ast.dump(e)
        out[k] = min(out.get(k, ub), ub)

    for c in conjuncts:
        if not isinstance(c, ast.Compare):
            continue
        terms = [c.left] + list(c.comparators)
        for i, op in enumerate(c.ops):
            a, b = terms[i], terms[i + 1]
            va, vb = evalc(a), evalc(b)
            if isinstance(op, (ast.LtE, ast.Lt)) and isinstance(vb, int) and not isinstance(vb, bool) and va is NOVAL:
                note(a, vb if isinstance(op, ast.LtE) else vb - 1)
            if isinstance(op, (ast.GtE, ast.Gt)) and isinstance(va, int) and not isinstance(va, bool) and vb is NOVAL:
                note(b, va if isinstance(op, ast.GtE) else va - 1)
    return out


def aborts(stmts):
    return any(isinstance(s, (ast.Return, ast.Continue, ast.Raise, ast.Break)) for s in stmts)


# ---------------------------------------------------------------------------------------------------
# rule 1: falsy zero

def _group_field(call_or_sub, evalc):
    """field name if the expression reads a time group of a match (by evaluated group name)"""
    n = call_or_sub
    if isinstance(n, ast.Call):
        f = n.func
        fname = f.attr if isinstance(f, ast.Attribute) else (f.id if isinstance(f, ast.Name) else None)
        if fname in ('get_group', 'get_group_list') and len(n.args) >= 2:
            g = evalc(n.args[1])
        elif fname == 'group' and len(n.args) == 1:
            g = evalc(n.args[0])
        else:
            return None
        if isinstance(g, str):
            return DIGIT_GROUPS.get(g) or WORD_GROUPS.get(g)
    if isinstance(n, ast.Subscript) and isinstance(n.value, ast.Attribute) and n.value.attr == 'named_entity':
        g = evalc(n.slice)
        if isinstance(g, str):
            return DIGIT_GROUPS.get(g) or WORD_GROUPS.get(g)
    return None


def falsy_scan(fn, evalc, returns_int=lambda call: False):
    """-> list of findings {field, form, effect, hazard(bool), line, sources, siblings}"""
    defs = local_defs(fn)
    strv = {}   # name -> set of fields (strings read from a time group)

    def str_fields(e):
        if isinstance(e, ast.Name):
            return set(strv.get(e.id, ()))
        g = _group_field(e, evalc)
        if g:
            return {g}
        if isinstance(e, ast.Call):
            f = e.func
            if isinstance(f, ast.Attribute) and f.attr in ('lower', 'strip', 'upper', 'rstrip', 'lstrip') and not e.args:
                return str_fields(f.value)
            if isinstance(f, ast.Name) and f.id in ('next', 'iter', 'str') and e.args:
                return str_fields(e.args[0])
        if isinstance(e, ast.Subscript):
            return str_fields(e.value)
        return set()

    for _ in range(4):
        for name, vals in defs.items():
            for v in vals:
                f = str_fields(v)
                if f:
                    strv.setdefault(name, set()).update(f)
    intv = {}   # name -> set of (how, field)

    def int_src(e):
        out = set()
        if isinstance(e, ast.Name):
            return set(intv.get(e.id, ()))
        if isinstance(e, ast.IfExp):
            return int_src(e.body) | int_src(e.orelse)
        if isinstance(e, ast.Call):
            f = e.func
            if isinstance(f, ast.Name) and f.id == 'int' and len(e.args) == 1:
                out.update(('int', sf) for sf in str_fields(e.args[0]))
            elif isinstance(f, ast.Attribute) and f.attr == 'get' and e.args:
                out.update(('table', sf) for sf in str_fields(e.args[0]))
            elif returns_int(e):
                for a in e.args:
                    out.update(('helper', sf) for sf in str_fields(a))
        if isinstance(e, ast.Subscript) and not (isinstance(e.value, ast.Attribute) and e.value.attr == 'named_entity'):
            if not str_fields(e.value):
                out.update(('table', sf) for sf in str_fields(e.slice))
        return out

    for _ in range(4):
        for name, vals in defs.items():
            if name in strv:
                continue
            for v in vals:
                s = int_src(v)
                if s:
                    intv.setdefault(name, set()).update(s)

    if not intv:
        return []
    siblings = {}
    for n in own_walk(fn):
        if isinstance(n, ast.Compare):
            terms = [n.left] + list(n.comparators)
            for i, op in enumerate(n.ops):
                for t, o in ((terms[i], terms[i + 1]), (terms[i + 1], terms[i])):
                    if isinstance(t, ast.Name) and t.id in intv:
                        if isinstance(op, (ast.Is, ast.IsNot)) and isinstance(o, ast.Constant) and o.value is None:
                            siblings.setdefault(t.id, set()).add('is None')
                        elif isinstance(op, (ast.Lt, ast.LtE, ast.Gt, ast.GtE, ast.Eq, ast.NotEq)):
                            siblings.setdefault(t.id, set()).add('numeric')

    def truth_uses(test, pol=True):
        """(name, polarity) for int vars used as truth values in `test`"""
        if isinstance(test, ast.Name) and test.id in intv:
            return [(test.id, pol)]
        if isinstance(test, ast.UnaryOp) and isinstance(test.op, ast.Not):
            return truth_uses(test.operand, not pol)
        if isinstance(test, ast.BoolOp):
            out = []
            for v in test.values:
                out.extend(truth_uses(v, pol))
            return out
        return []

    out = []

    def add(name, form, effect, hazard, line):
        srcs = sorted('%s(%s)' % s for s in intv[name])
        fields = {s[1] for s in intv[name]}
        digit = any(f in DIGIT_GROUPS.values() for f in fields)
        armed = hazard and (digit or 'is None' in siblings.get(name, ()))
        out.append({'field': '/'.join(sorted(fields)), 'form': form, 'effect': effect, 'hazard': armed,
                    'unarmed_hazard': hazard and not armed, 'line': line, 'sources': srcs,
                    'siblings': sorted(siblings.get(name, ())), 'var': name})

    in_test = set()
    for n in own_walk(fn):
        if isinstance(n, (ast.If, ast.While)):
            for sub in ast.walk(n.test):
                in_test.add(sub)
            for name, pol in truth_uses(n.test):
                if not pol:     # `not x`: the value 0 takes the body
                    body = n.body
                    only_assigns_x = all(isinstance(s, ast.Assign) and len(s.targets) == 1 and
                                         isinstance(s.targets[0], ast.Name) and s.targets[0].id == name for s in body)
                    if only_assigns_x and isinstance(n, ast.If):
                        add(name, 'if not <x>', 'fallback: body only re-assigns <x>', False, n.lineno)
                    elif aborts(body):
                        add(name, 'if not <x>', 'abort', True, n.lineno)
                    else:
                        add(name, 'if not <x>', 'continues', False, n.lineno)
                else:           # `x`: the value 0 skips the body / takes the else
                    stores = {t.attr for s in n.body for w in ast.walk(s) if isinstance(w, (ast.Assign, ast.AugAssign))
                              for t in (w.targets if isinstance(w, ast.Assign) else [w.target])
                              if isinstance(t, ast.Attribute)}
                    if aborts(n.orelse):
                        add(name, 'if <x>', 'abort-else', True, n.lineno)
                    elif stores & RESULT_ATTRS:
                        add(name, 'if <x>', 'skip-result(%s)' % ','.join(sorted(stores & RESULT_ATTRS)), True, n.lineno)
                    else:
                        add(name, 'if <x>', 'zero only skips an optional step', False, n.lineno)
        elif isinstance(n, ast.IfExp):
            for sub in ast.walk(n.test):
                in_test.add(sub)
            for name, pol in truth_uses(n.test):
                zero_branch = n.orelse if pol else n.body
                zb = evalc(zero_branch)
                same = isinstance(zero_branch, ast.Name) and zero_branch.id == name
                if zb == 0 and zb is not False or same:
                    add(name, '<a> if <x> else <b>', 'zero maps to zero', False, n.lineno)
                else:
                    add(name, '<a> if <x> else <b>', 'default', True, n.lineno)
    for n in own_walk(fn):
        if isinstance(n, ast.BoolOp) and isinstance(n.op, ast.Or) and n not in in_test:
            for i, v in enumerate(n.values[:-1]):
                if isinstance(v, ast.Name) and v.id in intv:
                    nxt = evalc(n.values[i + 1])
                    if nxt == 0 and nxt is not False:
                        add(v.id, '<x> or <d>', 'zero maps to zero', False, n.lineno)
                    else:
                        add(v.id, '<x> or <d>', 'default', True, n.lineno)
                elif isinstance(v, ast.Call) and isinstance(v.func, ast.Name) and v.func.id == 'int' and v.args \
                        and str_fields(v.args[0]) & set(DIGIT_GROUPS.values()):
                    nxt = evalc(n.values[i + 1])
                    if not (nxt == 0 and nxt is not False):
                        intv.setdefault('<int()>', set()).update(('int', sf) for sf in str_fields(v.args[0]))
                        add('<int()>', 'int(<g>) or <d>', 'default', True, n.lineno)
    return out


FALSY_CONTROL = '''
def decode(self, match):
    result = R()
    hour_str = RegExpUtility.get_group(match, 'hour')
    minute = int(RegExpUtility.get_group(match, 'min'))
    hour = int(hour_str) if hour_str.isnumeric() else self.config.numbers.get(hour_str, None)
    if not hour:
        return result
    if minute:
        result.success = True
    sec = int(match.group('sec')) or 30
    return result
'''


def rule_falsy(chk, idx):
    rid = 'C07.falsy-zero'
    chk.rule(rid, 'an hour/minute/second decoded from a match group is not tested by truthiness where 0 aborts, '
                  'skips the result or is replaced by a default', floor=8, control=True)
    ctl = falsy_scan(ast.parse(FALSY_CONTROL).body[0], make_evalc(idx, idx.mod(PKG + '.constants')))
    chk.control(rid, sorted(f['effect'].split('(')[0] for f in ctl if f['hazard']) == ['abort', 'default', 'skip-result'])

    def returns_int_factory(mod, cls):
        def returns_int(call):
            f = call.func
            target = None
            if isinstance(f, ast.Attribute) and isinstance(f.value, ast.Name):
                if f.value.id == 'self' and cls is not None:
                    _, target = idx.find_method(cls, f.attr)
                else:
                    c = idx.resolve_class(mod, f.value)
                    if c is not None:
                        _, target = idx.find_method(c, f.attr)
            elif isinstance(f, ast.Name):
                r = idx.resolve(mod, f.id)
                if r and r[0] == 'func':
                    target = r[2]
            return target is not None and isinstance(target.returns, ast.Name) and target.returns.id == 'int'
        return returns_int

    nfun = 0
    for mod in pkg_mods(idx):
        if '.resources' in mod.name:
            continue
        used = False
        for m, cls, fn in idx.functions(mod):
            nfun += 1
            ev = make_evalc(idx, mod, cls)
            for f in falsy_scan(fn, ev, returns_int_factory(mod, cls)):
                used = True
                construct = '%s.%s' % (cls.name, fn.name) if cls else fn.name
                detail = '%s <x>=%s from %s -> %s' % (f['form'], f['field'], '|'.join(f['sources']), f['effect'])
                if f['hazard']:
                    chk.bad(rid, mod.path, construct, detail,
                            'the decoded %s (variable %r) is tested by truthiness and the value 0 takes the "%s" path; '
                            'other tests of the same variable in this function: %s'
                            % (f['field'], f['var'], f['effect'], ', '.join(f['siblings']) or 'none'), f['line'])
                elif f['effect'].startswith('fallback'):
                    chk.exempt(rid, mod.path, construct, 'recognised fallback idiom: table lookup, then int() of the same '
                               'text when the lookup is falsy', detail, f['line'])
                else:
                    if f['unarmed_hazard']:
                        chk.observe('%s:%s %s: word-group value tested by truthiness (%s); not armed: no `is None` sibling'
                                    % (rel(mod.path), f['line'], construct, detail))
                    chk.ok(rid, mod.path, construct, detail, f['line'])
        if used:
            chk.consulted(mod.path)
    if nfun < 800:
        raise AnalysisError('only %d functions under %s - index incomplete?' % (nfun, PKG))


# ---------------------------------------------------------------------------------------------------
# rules 2-4: two readings wiring

def parser_type_of(idx, cls, evalc_for):
    k, f = idx.find_method(cls, 'parser_type_name')
    if f is None:
        return None
    rets = [n for n in ast.walk(f) if isinstance(n, ast.Return) and n.value is not None]
    if len(rets) != 1:
        return None
    v = evalc_for(k)(rets[0].value)
    return v if isinstance(v, str) else None


def ampm_writers(idx):
    """every assignment  <obj>.comment = <ampm | cond-expr with ampm | other .comment>  in the package"""
    out = []
    for mod in pkg_mods(idx):
        for m, cls, fn in idx.functions(mod):
            ev = make_evalc(idx, mod, cls)
            for n in own_walk(fn):
                if not isinstance(n, ast.Assign):
                    continue
                if not any(isinstance(t, ast.Attribute) and t.attr == 'comment' for t in n.targets):
                    continue
                v = n.value
                kind = None
                if ev(v) == 'ampm':
                    kind = 'const'
                elif isinstance(v, ast.IfExp) and 'ampm' in (ev(v.body), ev(v.orelse)):
                    kind = 'cond'
                elif isinstance(v, ast.Attribute) and v.attr == 'comment':
                    kind = 'copy'
                if kind:
                    out.append((mod, cls, fn, n, kind, ev))
    return out


def guard_verdict(fn, node, kind, ev):
    """-> (ok, detail, msg)"""
    if kind == 'copy':
        return True, 'copies another result\'s comment', ''
    par = parents_of(fn)
    pos, neg = path_condition(node, par, fn)
    if kind == 'cond':
        v = node.value
        pos = pos + flatten_and(v.test) if ev(v.body) == 'ampm' else pos
        if ev(v.orelse) == 'ampm':
            neg = neg + [v.test]
    defs = local_defs(fn)
    comment_vars = {k for k, vals in defs.items() if any(isinstance(x, ast.Attribute) and x.attr == 'comment' for x in vals)}

    def is_comment(e):
        return (isinstance(e, ast.Attribute) and e.attr == 'comment') or (isinstance(e, ast.Name) and e.id in comment_vars)

    derived = False     # the path tests another result's comment
    strong = False      # ... and tests that it IS the am/pm comment (== 'ampm' / .endswith('ampm'))
    for c in pos:
        for s in ast.walk(c):
            if is_comment(s):
                derived = True
    for c in pos:
        for s in ast.walk(c):
            if isinstance(s, ast.Compare) and len(s.ops) == 1 and isinstance(s.ops[0], ast.Eq):
                a, b = s.left, s.comparators[0]
                if (is_comment(a) and ev(b) == 'ampm') or (is_comment(b) and ev(a) == 'ampm'):
                    strong = True
            if isinstance(s, ast.Call) and isinstance(s.func, ast.Attribute) and s.func.attr == 'endswith' \
                    and is_comment(s.func.value) and s.args and ev(s.args[0]) == 'ampm':
                strong = True
    ubs = upper_bounds(pos, ev)
    shifted = set()
    for s in own_walk(fn):
        if isinstance(s, ast.AugAssign) and isinstance(s.target, ast.Name) and isinstance(s.op, (ast.Add, ast.Sub)) \
                and ev(s.value) == 12:
            shifted.add(s.target.id)
        if isinstance(s, ast.Assign) and len(s.targets) == 1 and isinstance(s.targets[0], ast.Name) \
                and isinstance(s.value, ast.BinOp) and isinstance(s.value.op, (ast.Add, ast.Sub)) \
                and isinstance(s.value.left, ast.Name) and s.value.left.id == s.targets[0].id and ev(s.value.right) == 12:
            shifted.add(s.targets[0].id)
    bounds = sorted(ubs.values())
    unbounded_shift = [] if strong else \
        sorted(v for v in shifted if ubs.get(ast.dump(ast.Name(id=v, ctx=ast.Load())), 99) > 12)
    detail = 'hour-bounds=%s derived-from-comment=%s shifted-by-12=%d unbounded-shifted=%d' % (
        bounds, 'is-ampm' if strong else 'yes' if derived else 'no', len(shifted), len(unbounded_shift))
    if not bounds and not derived:
        return False, detail, 'the AM/PM comment is set with no `hour <= 12` bound on the path and is not derived from ' \
                              'another result\'s comment: hours 13..23 get a second reading 12 hours later'
    if bounds and min(bounds) > 12:
        return False, detail, 'the tightest hour bound on the path to the AM/PM comment is %d (> 12)' % min(bounds)
    if any(b > 12 for b in bounds) and not any(b <= 12 for b in bounds):
        return False, detail, 'hour bound above 12 on the path to the AM/PM comment'
    if unbounded_shift:
        return False, detail, 'this function shifts %s by 12 but the AM/PM comment is set without bounding it by <= 12' \
                              % ', '.join(unbounded_shift)
    return True, detail, ''


GUARD_CONTROL = '''
def f(self, m):
    hour = int(g(m, 'hour'))
    if pm:
        hour += 12
    if hour <= 13 and not has_pm:
        result.comment = 'ampm'
    if no_desc:
        other.comment = 'ampm'
'''


def resolve_ampm_branches(fn, ev):
    """[(type value, [stmts])] of the if/elif chain dispatching on values_map[TYPE_KEY] == <const>"""
    chains = []
    for n in own_walk(fn):
        if isinstance(n, ast.If):
            chains.append(n)
    type_locals = {k for k, vals in local_defs(fn).items()
                   if len(vals) == 1 and isinstance(vals[0], ast.Subscript) and ev(vals[0].slice) == 'type'}
    best = []
    for n in chains:
        br = []
        cur = n
        while True:
            t = cur.test
            tv = None
            if isinstance(t, ast.Compare) and len(t.ops) == 1 and isinstance(t.ops[0], ast.Eq):
                a, b = t.left, t.comparators[0]
                for x, y in ((a, b), (b, a)):
                    if ((isinstance(x, ast.Subscript) and ev(x.slice) == 'type') or
                            (isinstance(x, ast.Name) and x.id in type_locals)) and isinstance(ev(y), str):
                        tv = ev(y)
            if tv is None:
                break
            br.append((tv, cur.body, cur))
            if len(cur.orelse) == 1 and isinstance(cur.orelse[0], ast.If):
                cur = cur.orelse[0]
            else:
                break
        if len(br) > len(best):
            best = br
    return best


def branch_normal_form(body, ev, resolve_helper=None):
    """{key: sorted callees of DateTimeFormatUtil used on the right-hand side}; a module-level / same-class helper called on
    the right-hand side contributes the formatter calls of its own body"""
    def pm_callees(expr, depth=0):
        out = set()
        for c in ast.walk(expr):
            if isinstance(c, ast.Call):
                if isinstance(c.func, ast.Attribute) and c.func.attr in ('to_pm', 'all_str_to_pm'):
                    out.add(c.func.attr)
                elif resolve_helper is not None and depth < 2:
                    h = resolve_helper(c)
                    if h is not None:
                        for st in h.body:
                            out |= pm_callees(st, depth + 1)
        return out

    nf = {}
    for s in body:
        for n in ast.walk(s):
            if isinstance(n, ast.Assign) and len(n.targets) == 1 and isinstance(n.targets[0], ast.Subscript):
                k = ev(n.targets[0].slice)
                if not isinstance(k, str):
                    continue
                callees = sorted(pm_callees(n.value))
                nf.setdefault(k, set()).update(callees or ['<none>'])
    return {k: sorted(v) for k, v in nf.items()}


def branch_verdict(tv, nf):
    msgs = []
    tx = nf.get('timex')
    if not tx or '<none>' in tx:
        msgs.append('TIMEX is not rewritten through to_pm / all_str_to_pm')
    elif tv != 'time' and tx != ['all_str_to_pm']:
        msgs.append('composite TIMEX of type %s rewritten with %s instead of all_str_to_pm' % (tv, '+'.join(tx)))
    vals = {k: v for k, v in nf.items() if k != 'timex'}
    if not vals:
        msgs.append('no value key is rewritten')
    for k, v in sorted(vals.items()):
        if v != ['to_pm']:
            msgs.append('value key %r is not rewritten through to_pm (%s)' % (k, '+'.join(v)))
    return msgs


BRANCH_CONTROL = '''
def _resolve_ampm(self, values_map, key_name):
    if values_map['type'] == 'time':
        resolution_pm['value'] = DateTimeFormatUtil.to_pm(resolution['value'])
        resolution_pm['timex'] = timex
'''


def type_map_of(fn, ev):
    """{from: to} pairs of `if dtype == A: return B` in _determine_date_time_types"""
    out = {}
    for n in ast.walk(fn):
        if isinstance(n, ast.If) and isinstance(n.test, ast.Compare) and len(n.test.ops) == 1 \
                and isinstance(n.test.ops[0], ast.Eq) and len(n.body) == 1 and isinstance(n.body[0], ast.Return):
            a = ev(n.test.comparators[0])
            if a is NOVAL:
                a = ev(n.test.left)
            b = ev(n.body[0].value)
            if isinstance(a, str) and isinstance(b, str):
                out.setdefault(a, set()).add(b)
    return out


def rule_ampm(chk, idx):
    r_types, r_branch, r_guard = 'C07.ampm-types', 'C07.ampm-branch', 'C07.ampm-guard'
    chk.rule(r_types, 'every parser type that can set the AM/PM comment (and its before/after/since image) has a branch '
                      'in _resolve_ampm', floor=4)
    chk.rule(r_branch, 'every _resolve_ampm branch rewrites value(s) through to_pm and the TIMEX through '
                       'to_pm/all_str_to_pm', floor=2, control=True)
    chk.rule(r_guard, 'the AM/PM comment is only set under an hour bound <= 12 or derived from another comment',
             floor=8, control=True)
    cmod = idx.mod(PKG + '.constants')
    ev0 = make_evalc(idx, cmod)

    # controls
    cfn = ast.parse(BRANCH_CONTROL).body[0]
    cbr = resolve_ampm_branches(cfn, ev0)
    chk.control(r_branch, bool(cbr) and bool(branch_verdict(cbr[0][0], branch_normal_form(cbr[0][1], ev0))))
    gfn = ast.parse(GUARD_CONTROL).body[0]
    fired = []
    for n in own_walk(gfn):
        if isinstance(n, ast.Assign) and isinstance(n.targets[0], ast.Attribute) and n.targets[0].attr == 'comment':
            fired.append(guard_verdict(gfn, n, 'const', ev0)[0])
    chk.control(r_guard, fired == [False, False] or sorted(fired) == [False, False])

    # writers
    writers = ampm_writers(idx)
    if len(writers) < 8:
        raise AnalysisError('only %d writers of the AM/PM comment found (idiom changed?)' % len(writers))
    wtypes = {}
    for mod, cls, fn, node, kind, ev in writers:
        if cls is None:
            raise AnalysisError('%s:%d AM/PM comment written outside a parser class' % (rel(mod.path), node.lineno))
        t = parser_type_of(idx, cls, lambda k: make_evalc(idx, k.mod, k))
        if t is None:
            raise AnalysisError('%s:%d cannot determine parser_type_name of %s' % (rel(mod.path), node.lineno, cls.name))
        wtypes.setdefault(t, []).append((mod, cls, fn, node))
        ok, detail, msg = guard_verdict(fn, node, kind, ev)
        construct = '%s.%s' % (cls.name, fn.name)
        chk.judge(ok, r_guard, mod.path, construct, '%s write: %s' % (kind, detail), msg, node.lineno)
        chk.consulted(mod.path)

    # readers: every class providing _resolve_ampm
    base = idx.cls(PKG + '.base_merged.BaseMergedParser')
    seen = set()
    for c in [base] + idx.subclasses(base):
        k, fn = idx.find_method(c, '_resolve_ampm')
        if fn is None:
            raise AnalysisError('anchor vanished: %s._resolve_ampm' % c.name)
        ev = make_evalc(idx, k.mod, k)
        dk, dfn = idx.find_method(c, '_determine_date_time_types')
        if dfn is None:
            raise AnalysisError('anchor vanished: %s._determine_date_time_types' % c.name)
        tmap = type_map_of(dfn, make_evalc(idx, dk.mod, dk))
        if not tmap:
            raise AnalysisError('%s._determine_date_time_types: no `if t == A: return B` pairs recognised' % dk.name)
        branches = resolve_ampm_branches(fn, ev)
        if len(branches) < 2:
            raise AnalysisError('%s._resolve_ampm: type dispatch chain not recognised' % k.name)
        btypes = [b[0] for b in branches]
        if (k, dk) not in seen:
            need = {}
            for t in sorted(wtypes):
                need.setdefault(t, 'written by ' + ','.join(sorted({w[1].name for w in wtypes[t]})))
                for t2 in sorted(tmap.get(t, ())):
                    need.setdefault(t2, 'image of %s under %s._determine_date_time_types' % (t, dk.name))
            for t, why in sorted(need.items()):
                chk.judge(t in btypes, r_types, k.mod.path, '%s._resolve_ampm[%s]' % (c.name, t),
                          'needs branch for %r (%s); branches=%s' % (t, why, sorted(btypes)),
                          'results of type %r can carry the AM/PM comment (%s) but _resolve_ampm has no branch for it: '
                          'the second reading would be empty' % (t, why), fn.lineno)
            extra = sorted(set(btypes) - set(need))
            if extra:
                chk.observe('%s._resolve_ampm has branches for types no writer produces: %s' % (k.name, extra))
        if k not in seen:
            for tv, body, node in branches:
                def resolve_helper(call, _k=k):
                    f_ = call.func
                    if isinstance(f_, ast.Name):
                        r_ = idx.resolve(_k.mod, f_.id)
                        return r_[2] if r_ and r_[0] == 'func' else None
                    if isinstance(f_, ast.Attribute) and isinstance(f_.value, ast.Name) and f_.value.id in ('self', 'cls'):
                        return idx.find_method(_k, f_.attr)[1]
                    return None
                nf = branch_normal_form(body, ev, resolve_helper)
                msgs = branch_verdict(tv, nf)
                detail = 'type=%s ' % tv + ' '.join('%s<-%s' % (kk, '+'.join(v)) for kk, v in sorted(nf.items()))
                chk.judge(not msgs, r_branch, k.mod.path, '%s._resolve_ampm[%s]' % (k.name, tv), detail,
                          '; '.join(msgs), node.lineno)
            chk.consulted(k.mod.path)
        seen.add(k)
        seen.add((k, dk))
    chk.extra['ampm_writer_types'] = {t: sorted({'%s.%s' % (w[1].name, w[2].name) for w in ws}) for t, ws in wtypes.items()}


# ---------------------------------------------------------------------------------------------------
# rule 5: to_pm / all_str_to_pm

INPUT = '<input>'


def eval_int(node, env, ev):
    if isinstance(node, ast.Name):
        if node.id in env:
            return env[node.id]
        raise ValueError('free name ' + node.id)
    v = ev(node)
    if v is not NOVAL and isinstance(v, (int, bool)):
        return v
    if isinstance(node, ast.BinOp):
        a, b = eval_int(node.left, env, ev), eval_int(node.right, env, ev)
        if isinstance(node.op, ast.Add):
            return a + b
        if isinstance(node.op, ast.Sub):
            return a - b
        if isinstance(node.op, ast.Mod):
            return a % b
        if isinstance(node.op, ast.Mult):
            return a * b
        if isinstance(node.op, ast.FloorDiv):
            return a // b
        if isinstance(node.op, ast.LShift):
            return a << b
        if isinstance(node.op, ast.RShift):
            return a >> b
        raise ValueError('operator ' + type(node.op).__name__)
    if isinstance(node, ast.UnaryOp) and isinstance(node.op, (ast.USub, ast.UAdd)):
        v = eval_int(node.operand, env, ev)
        return -v if isinstance(node.op, ast.USub) else v
    if isinstance(node, ast.Call) and isinstance(node.func, ast.Name) and node.func.id == 'int' and len(node.args) == 1 \
            and not node.keywords:
        try:
            return int(eval_int(node.args[0], env, ev))
        except (ValueError, KeyError, TypeError):
            if INPUT in env:        # int(<text of the input>) is the input hour itself
                return env[INPUT]
            raise
    if isinstance(node, ast.IfExp):
        return eval_int(node.body if eval_int(node.test, env, ev) else node.orelse, env, ev)
    if isinstance(node, ast.Compare):
        terms = [eval_int(t, env, ev) for t in [node.left] + list(node.comparators)]
        res = True
        for i, op in enumerate(node.ops):
            a, b = terms[i], terms[i + 1]
            res = res and {ast.Eq: a == b, ast.NotEq: a != b, ast.Lt: a < b, ast.LtE: a <= b,
                           ast.Gt: a > b, ast.GtE: a >= b}[type(op)]
        return res
    if isinstance(node, ast.BoolOp):
        vals = [eval_int(v, env, ev) for v in node.values]
        return all(vals) if isinstance(node.op, ast.And) else any(vals)
    if isinstance(node, ast.UnaryOp) and isinstance(node.op, ast.Not):
        return not eval_int(node.operand, env, ev)
    raise ValueError('unsupported ' + type(node).__name__)


class _Unreadable(Exception):
    pass


def _names(node):
    return {n.id for n in ast.walk(node) if isinstance(n, ast.Name)}


def _assigned_names(stmts):
    out = set()
    for s in stmts:
        for n in ast.walk(s):
            if isinstance(n, (ast.Assign, ast.AnnAssign, ast.AugAssign)):
                for t in (n.targets if isinstance(n, ast.Assign) else [n.target]):
                    if isinstance(t, ast.Name):
                        out.add(t.id)
    return out


def _interp(stmts, env, ev, seed, where):
    """interpret a statement list over the int environment `env` (name -> int); everything that does not touch an
    int variable is skipped.  Handles assignments, augmented assignments, if/elif/else and conditional expressions.
    `seed` = [name or None, input value]: the first `x = int(...)` binds x to the input hour.
    returns False when a `return` was executed."""
    for s in stmts:
        if isinstance(s, (ast.Assign, ast.AnnAssign)):
            targets = s.targets if isinstance(s, ast.Assign) else [s.target]
            value = s.value
            if value is None:
                continue
            if seed[0] is None and len(targets) == 1 and isinstance(targets[0], ast.Name) and \
                    any(isinstance(n, ast.Call) and isinstance(n.func, ast.Name) and n.func.id == 'int' for n in ast.walk(value)):
                # first `x = <int expression over int(<input text>)>` binds the hour variable
                env[INPUT] = seed[1]
                try:
                    v = eval_int(value, env, ev)
                except (ValueError, KeyError, ZeroDivisionError, TypeError) as e:
                    raise _Unreadable('%s: `%s` is not an int expression the interpreter can evaluate (%s)'
                                      % (where, ast.unparse(s), e))
                seed[0] = targets[0].id
                env[seed[0]] = v
                continue
            for t in targets:
                if isinstance(t, ast.Name):
                    if _names(value) & (set(env) - {INPUT}) or t.id in env:
                        try:
                            v = eval_int(value, env, ev)
                            if isinstance(v, bool) or not isinstance(v, int):
                                raise ValueError('non-int value')
                            env[t.id] = v
                        except (ValueError, KeyError, ZeroDivisionError, TypeError):
                            if t.id in env:
                                # an int variable re-assigned from something the interpreter cannot evaluate
                                if not any(isinstance(n, (ast.JoinedStr, ast.Subscript)) for n in ast.walk(value)) \
                                        or t.id == seed[0]:
                                    raise _Unreadable('%s: `%s` is not an int expression the interpreter can evaluate'
                                                      % (where, ast.unparse(s)))
                                del env[t.id]
        elif isinstance(s, ast.AugAssign):
            if isinstance(s.target, ast.Name) and s.target.id in env:
                try:
                    env[s.target.id] = eval_int(ast.BinOp(left=ast.Name(id=s.target.id, ctx=ast.Load()), op=s.op, right=s.value), env, ev)
                except (ValueError, KeyError, ZeroDivisionError, TypeError) as e:
                    raise _Unreadable('%s: `%s` (%s)' % (where, ast.unparse(s), e))
        elif isinstance(s, ast.If):
            touches = bool((_assigned_names(s.body) | _assigned_names(s.orelse)) & (set(env) - {INPUT})) or \
                (seed[0] is None and any(isinstance(n, ast.Call) and isinstance(n.func, ast.Name) and n.func.id == 'int'
                                         for n in ast.walk(s)))
            if not touches:
                continue
            try:
                cond = eval_int(s.test, env, ev)
            except (ValueError, KeyError, ZeroDivisionError, TypeError) as e:
                raise _Unreadable('%s: condition `%s` of a branch that changes the hour cannot be evaluated (%s)'
                                  % (where, ast.unparse(s.test), e))
            if not _interp(s.body if cond else s.orelse, env, ev, seed, where):
                return False
        elif isinstance(s, (ast.For, ast.While, ast.Try, ast.With)):
            if _assigned_names([s]) & set(env) or seed[0] is None:
                raise _Unreadable('%s: the hour is computed inside a %s statement' % (where, type(s).__name__.lower()))
        elif isinstance(s, ast.Return):
            return False
    return True


def to_pm_table(fn, ev, hours):
    """{h: hour printed by to_pm for input hour h} by interpreting the function body over ints, and the format spec the
    hour is printed with.  Any body made of assignments, augmented assignments, if/elif/else and conditional expressions
    is decided; AnalysisError only for shapes the interpreter cannot read (loops, calls of unknown helpers)."""
    where = 'DateTimeFormatUtil.' + fn.name
    table = {}
    out_var = None
    for h in hours:
        env, seed = {}, [None, h]
        try:
            _interp(fn.body, env, ev, seed, where)
        except _Unreadable as e:
            raise AnalysisError(str(e))
        if seed[0] is None:
            raise AnalysisError('%s: no `h = int(...)` found' % where)
        if out_var is None:
            printed = [n.value.id for n in ast.walk(fn) if isinstance(n, ast.FormattedValue) and isinstance(n.value, ast.Name)]
            cands = [v for v in printed if v in env]
            out_var = cands[-1] if cands else seed[0]
        if out_var not in env:
            raise AnalysisError('%s: the printed hour variable is not an int the interpreter could follow' % where)
        table[h] = env[out_var]
    spec = None
    for n in ast.walk(fn):
        if isinstance(n, ast.FormattedValue) and isinstance(n.value, ast.Name) and n.value.id == out_var:
            spec = ''.join(p.value for p in n.format_spec.values if isinstance(p, ast.Constant)) if n.format_spec else ''
    return table, spec


def hour_regex_pattern(idx, util_cls):
    k, v = idx.class_attr(util_cls, 'HourTimeRegex')
    if v is None:
        raise AnalysisError('anchor vanished: DateTimeFormatUtil.HourTimeRegex')
    for n in ast.walk(v):
        if isinstance(n, ast.Constant) and isinstance(n.value, str):
            return n.value
    raise AnalysisError('DateTimeFormatUtil.HourTimeRegex: pattern literal not found')


HOUR_PROBES = [('(T03,T05,PT2H)', ['T03', 'T05']), ('2016-11-07T03:30', ['T03']), ('PT12H', []),
               ('(2016-11-07T03,2016-11-07T05:30,PT2H30M)', ['T03', 'T05']), ('T11:59:59', ['T11'])]


def rule_to_pm(chk, idx):
    rid = 'C07.to-pm'
    chk.rule(rid, 'to_pm adds 12 hours modulo 24 to hours 1..12 with two digits; all_str_to_pm visits every two-digit '
                  'T-hour of a TIMEX', floor=4)
    util = idx.cls(PKG + '.utilities.DateTimeFormatUtil')
    ev = make_evalc(idx, util.mod, util)
    chk.consulted(util.mod.path)
    if 'to_pm' not in util.methods or 'all_str_to_pm' not in util.methods:
        raise AnalysisError('anchor vanished: DateTimeFormatUtil.to_pm / all_str_to_pm')
    fn = util.methods['to_pm']
    table, spec = to_pm_table(fn, ev, range(1, 13))
    want = {h: (h + 12) % 24 for h in range(1, 13)}
    diff = {h: table[h] for h in want if table[h] != want[h]}
    chk.judge(not diff, rid, util.mod.path, 'DateTimeFormatUtil.to_pm', 'hour map on 1..12 = %s' % sorted(table.items()),
              'to_pm does not map h to (h + 12) %% 24 on 1..12: %s' % sorted(diff.items()), fn.lineno)
    chk.judge(spec == '02d', rid, util.mod.path, 'DateTimeFormatUtil.to_pm#format', 'hour printed with spec %r' % spec,
              'to_pm prints the hour with format spec %r, not 02d' % spec, fn.lineno)
    # HourTimeRegex
    pat = hour_regex_pattern(idx, util)
    try:
        cre = re.compile(pat)
    except re.error as e:
        raise AnalysisError('HourTimeRegex %r not analysable with re: %s' % (pat, e))
    bad = [(s, cre.findall(s)) for s, w in HOUR_PROBES if cre.findall(s) != w]
    chk.judge(not bad, rid, util.mod.path, 'DateTimeFormatUtil.HourTimeRegex', 'pattern=%s' % pat,
              'HourTimeRegex does not find exactly the T-hours of a TIMEX: %s' % bad)
    # all_str_to_pm visits all matches
    fa = util.methods['all_str_to_pm']
    calls = [n for n in ast.walk(fa) if isinstance(n, ast.Call) and isinstance(n.func, ast.Attribute)]
    finder = sorted({c.func.attr for c in calls if c.func.attr in ('finditer', 'findall', 'search', 'match', 'sub')
                     and any(isinstance(a, ast.Attribute) and a.attr == 'HourTimeRegex' for a in c.args)})
    par = parents_of(fa)
    pm_calls = [c for c in calls if c.func.attr == 'to_pm']
    in_loop = []
    for c in pm_calls:
        cur, loop = c, False
        while cur in par:
            cur = par[cur]
            if isinstance(cur, (ast.For, ast.ListComp, ast.GeneratorExp)):
                loop = True
            if isinstance(cur, ast.Lambda):
                loop = True    # callback of regex.sub
        in_loop.append(loop)
    early = [n for n in ast.walk(fa) if isinstance(n, ast.Break)] + \
            [n for n in ast.walk(fa) if isinstance(n, ast.Return) and any(isinstance(p, (ast.For, ast.While)) for p in _anc(n, par))]
    ok = bool(pm_calls) and all(in_loop) and ('finditer' in finder or 'findall' in finder or 'sub' in finder) and not early
    chk.judge(ok, rid, util.mod.path, 'DateTimeFormatUtil.all_str_to_pm',
              'matcher=%s to_pm-calls-in-loop=%s early-exit=%d' % (finder, in_loop, len(early)),
              'all_str_to_pm does not apply to_pm to every HourTimeRegex match (matcher %s, to_pm in loop: %s, early exits: %d)'
              % (finder, in_loop, len(early)), fa.lineno)


def _anc(n, par):
    while n in par:
        n = par[n]
        yield n


# ---------------------------------------------------------------------------------------------------
# rule 6: two-digit hour / minute / second in TIMEX f-strings of the time decoders

def intish_names(fn):
    """locals / parameters that hold ints (int annotation, int constant, int(...), .hour/.minute/.second) and never a str"""
    good, bad = set(), set()
    args = fn.args.posonlyargs + fn.args.args + fn.args.kwonlyargs
    for a in args:
        if isinstance(a.annotation, ast.Name) and a.annotation.id == 'int':
            good.add(a.arg)
        elif isinstance(a.annotation, ast.Name) and a.annotation.id == 'str':
            bad.add(a.arg)
    for name, vals in local_defs(fn).items():
        for v in vals:
            if isinstance(v, ast.Constant) and isinstance(v.value, int) and not isinstance(v.value, bool):
                good.add(name)
            elif isinstance(v, ast.Call) and isinstance(v.func, ast.Name) and v.func.id == 'int':
                good.add(name)
            elif isinstance(v, ast.Attribute) and v.attr in ('hour', 'minute', 'second'):
                good.add(name)
            elif isinstance(v, (ast.JoinedStr,)) or (isinstance(v, ast.Constant) and isinstance(v.value, str)):
                bad.add(name)
    return good - bad


def pad_scan(fn):
    """[(line, preceding literal tail, normal form of value, spec)] for int fields printed after 'T' or ':'"""
    out = []
    ints = intish_names(fn)
    for n in own_walk(fn):
        if not isinstance(n, ast.JoinedStr):
            continue
        prev = None
        for v in n.values:
            if isinstance(v, ast.FormattedValue):
                lit = prev.value if isinstance(prev, ast.Constant) and isinstance(prev.value, str) else None
                if lit is not None and ((lit.endswith('T') and not lit.endswith('PT')) or lit.endswith(':')):
                    val = v.value
                    form = None
                    if isinstance(val, ast.Attribute) and val.attr in ('hour', 'minute', 'second'):
                        form = '<datetime>.' + val.attr
                    elif isinstance(val, ast.Name) and val.id in ints:
                        form = '<int>'
                    if form:
                        spec = ''.join(p.value for p in v.format_spec.values if isinstance(p, ast.Constant)) \
                            if v.format_spec else ''
                        out.append((n.lineno, lit[-1], form, spec))
            prev = v
    out.sort()
    return out


def rule_pad(chk, idx):
    rid = 'C07.timex-pad'
    chk.rule(rid, 'hours / minutes / seconds printed after "T" or ":" by the time decoders are zero padded to two digits',
             floor=12, control=True)
    ctl = ast.parse("def f(t):\n    x.timex_str = f'T{t.hour}'\n    y = f'{x.timex_str}:{t.minute:02d}'\n").body[0]
    chk.control(rid, sorted(p[3] for p in pad_scan(ctl)) == ['', '02d'])
    scope = set()
    for c in idx.all_classes():
        if not (c.mod.name == PKG or c.mod.name.startswith(PKG + '.')):
            continue
        t = parser_type_of(idx, c, lambda k: make_evalc(idx, k.mod, k))
        if t in TIME_TYPES:
            scope.add(c)
    scope.add(idx.cls(PKG + '.utilities.DateTimeFormatUtil'))
    if len(scope) < 10:
        raise AnalysisError('time decoder classes not found (%d)' % len(scope))
    for c in sorted(scope, key=lambda k: k.qual):
        for name, fn in sorted(c.methods.items()):
            if '#' in name:
                continue
            hits = pad_scan(fn)
            for i, (line, sep, form, spec) in enumerate(hits):
                detail = "after %r prints %s with spec %r" % (sep, form, spec)
                nth = sum(1 for h in hits[:i] if (h[1], h[2], h[3]) == (sep, form, spec))
                if nth:
                    detail += ' (#%d)' % (nth + 1)
                chk.judge(spec == '02d', rid, c.mod.path, '%s.%s' % (c.name, fn.name), detail,
                          'a TIMEX time field is printed without zero padding (spec %r): single-digit values give e.g. '
                          '"T14:5" / "T0", which HourTimeRegex and TIMEX readers do not recognise' % spec, line)
            if hits:
                chk.consulted(c.mod.path)


# ---------------------------------------------------------------------------------------------------
# rule 7: "<date> at <time>": the composed TIMEX carries the time entity's own TIMEX (provenance)

SUB_SLOTS = (('time', 'time_parser'), ('date', 'date_parser'))
RERENDER = {'format_short_time': 3, 'short_time': 3, 'luis_date_short_time': 2}   # callee -> arguments needed to keep field presence


def sub_results(fn):
    """{label: names bound to the result of a call that involves self.config.<slot> (receiver of .parse or argument)}"""
    out = {}
    for n in own_walk(fn):
        if isinstance(n, (ast.Assign, ast.AnnAssign)) and isinstance(n.value, ast.Call):
            for label, slot in SUB_SLOTS:
                if any(isinstance(a, ast.Attribute) and a.attr == slot for a in ast.walk(n.value)):
                    targets = n.targets if isinstance(n, ast.Assign) else [n.target]
                    for t in targets:
                        for x in ast.walk(t):
                            if isinstance(x, ast.Name):
                                out.setdefault(label, set()).add(x.id)
    return out


class Provenance:
    """flow-sensitive labels: which locals carry (part of) a sub-result's timex_str; strong update on assignment,
    union at control-flow merges"""

    def __init__(self, fn, subs):
        self.fn, self.subs = fn, subs
        self.sinks = []     # (assign node, labels)

    def labels(self, e, env):
        out = set()
        for n in ast.walk(e):
            if isinstance(n, ast.Attribute) and n.attr == 'timex_str':
                root = n.value
                while isinstance(root, (ast.Attribute, ast.Subscript)):
                    root = root.value
                if isinstance(root, ast.Name):
                    for label, names in self.subs.items():
                        if root.id in names:
                            out.add(label)
            elif isinstance(n, ast.Name):
                out |= env.get(n.id, frozenset())
        return frozenset(out)

    def walk(self, stmts, env):
        for s in stmts:
            if isinstance(s, (ast.Assign, ast.AnnAssign)):
                if s.value is None:
                    continue
                lab = self.labels(s.value, env)
                for t in (s.targets if isinstance(s, ast.Assign) else [s.target]):
                    if isinstance(t, ast.Name):
                        env[t.id] = lab
                    elif isinstance(t, (ast.Tuple, ast.List)):
                        for x in t.elts:
                            if isinstance(x, ast.Name):
                                env[x.id] = lab
                    elif isinstance(t, ast.Attribute) and t.attr == 'timex':
                        self.sinks.append((s, lab))
            elif isinstance(s, ast.AugAssign):
                if isinstance(s.target, ast.Name):
                    env[s.target.id] = env.get(s.target.id, frozenset()) | self.labels(s.value, env)
                elif isinstance(s.target, ast.Attribute) and s.target.attr == 'timex':
                    self.sinks.append((s, self.labels(s.value, env) | self.labels(s.target, env)))
            elif isinstance(s, ast.If):
                e1 = self.walk(s.body, dict(env))
                e2 = self.walk(s.orelse, dict(env))
                env.clear()
                env.update(self.join(e1, e2))
            elif isinstance(s, (ast.For, ast.While)):
                e1 = self.walk(s.body, dict(env))
                e1 = self.walk(s.body, self.join(env, e1))
                e2 = self.walk(s.orelse, dict(env))
                j = self.join(self.join(env, e1), e2)
                env.clear()
                env.update(j)
            elif isinstance(s, ast.Try):
                self.walk(s.body, env)
                for h in s.handlers:
                    self.walk(h.body, env)
                self.walk(s.orelse, env)
                self.walk(s.finalbody, env)
            elif isinstance(s, ast.With):
                self.walk(s.body, env)
        return env

    @staticmethod
    def join(a, b):
        return {k: a.get(k, frozenset()) | b.get(k, frozenset()) for k in set(a) | set(b)}

    def run(self):
        seen = {}
        self.walk(self.fn.body, {})
        for node, lab in self.sinks:        # loop bodies are walked twice: keep the last (most complete) labels
            seen[id(node)] = (node, lab)
        return sorted(seen.values(), key=lambda x: (x[0].lineno, x[0].col_offset))


def compose_scan(fn):
    """[(line, ok, detail, msg)] for a function of a date-time / date-time-range parser"""
    subs = sub_results(fn)
    out = []
    if 'time' in subs:
        need = {'time'} | ({'date'} if 'date' in subs else set())
        sinks = Provenance(fn, subs).run()
        for i, (node, lab) in enumerate(sinks):
            missing = sorted(need - lab)
            detail = 'timex #%d <- timex_str of %s; required %s' % (i + 1, sorted(lab) or 'no sub-result', sorted(need))
            msg = ''
            if missing:
                msg = ('the TIMEX assigned here (`%s`) is not derived from the timex_str of the %s sub-result(s) %s: the '
                       'composed TIMEX must carry the entity\'s own TIMEX (with its minute/second fields as written), not a '
                       're-rendering of the resolved value' % (ast.unparse(node.value)[:80], '/'.join(missing),
                                                               '/'.join(sorted(n for m_ in missing for n in subs[m_]))))
            out.append((node.lineno, not missing, detail, msg))
    for n in own_walk(fn):
        if isinstance(n, ast.Call) and isinstance(n.func, ast.Attribute) and n.func.attr in RERENDER:
            nargs = len(n.args) + len(n.keywords)
            ok = nargs >= RERENDER[n.func.attr]
            out.append((n.lineno, ok, '%s called with field-presence argument(s): %s' % (n.func.attr, 'yes' if ok else 'no'),
                        '' if ok else '%s(...) is called without the has_min/has_sec (or source timex) argument: minutes and seconds '
                        'written as 00 are dropped or replaced by the INVALID_MINUTE sentinel' % n.func.attr))
    return out


COMPOSE_CONTROL = '''
def merge(self, source, reference):
    pr1 = self.config.date_parser.parse(er1, reference)
    pr2 = self.config.time_parser.parse(er2, reference)
    time = pr2.value.future_value
    time_str = pr2.timex_str
    time_str = DateTimeFormatUtil.format_short_time(time.replace(hour=hour))
    result.timex = pr1.timex_str + time_str
    other.timex = pr1.timex_str + 'T' + pr2.timex_str[1:]
'''


def rule_compose(chk, idx):
    rid = 'C07.compose'
    chk.rule(rid, 'a TIMEX composed from a time sub-entity (and a date sub-entity) is derived from their own timex_str, never '
                  're-rendered from the resolved value without the field-presence flags', floor=6, control=True)
    ctl = compose_scan(ast.parse(COMPOSE_CONTROL).body[0])
    chk.control(rid, [c[1] for c in sorted(ctl)] == [False, False, True])
    n = 0
    for c in sorted(idx.all_classes(), key=lambda k: k.qual):
        if not (c.mod.name == PKG or c.mod.name.startswith(PKG + '.')):
            continue
        if parser_type_of(idx, c, lambda k: make_evalc(idx, k.mod, k)) not in ('datetime', 'datetimerange'):
            continue
        for name, fn in sorted(c.methods.items()):
            if '#' in name:
                continue
            counts = {}
            for line, ok, detail, msg in sorted(compose_scan(fn)):
                counts[detail] = counts.get(detail, 0) + 1
                if counts[detail] > 1:
                    detail += ' (#%d)' % counts[detail]
                chk.judge(ok, rid, c.mod.path, '%s.%s' % (c.name, name), detail, msg, line)
                chk.consulted(c.mod.path)
                n += 1
    base = idx.cls(PKG + '.base_datetime.BaseDateTimeParser')
    if 'merge_date_and_time' not in base.methods or not compose_scan(base.methods['merge_date_and_time']):
        raise AnalysisError('BaseDateTimeParser.merge_date_and_time: no TIMEX composition from date_parser / time_parser results found')


# ---------------------------------------------------------------------------------------------------
# rule 8: the am/pm-ambiguity guard of the time parsers, tabulated

def _branch_bodies(fn):
    """statement lists that form one branch: if-bodies, and else-bodies that are not an `elif`"""
    for n in own_walk(fn):
        if isinstance(n, ast.If):
            yield n.body
            if n.orelse and not (len(n.orelse) == 1 and isinstance(n.orelse[0], ast.If)):
                yield n.orelse


def ampm_table(fn, node, ev, idx, mod, cls):
    """tabulate the path condition of an am/pm comment write over hour 0..24 x the boolean flags it mentions.
    -> None when the condition is not a function of one int and boolean flags only, else (problems, detail)"""
    from .c09 import Interp, Obj, Opaque, Unreadable, PyRaise
    import itertools
    par = parents_of(fn)
    pos, neg = path_condition(node, par, fn)
    if not pos and not neg:
        return None
    defs = local_defs(fn)
    ints = intish_names(fn)
    int_atoms, flags = {}, set()      # key -> ('name', id) | ('attr', root, attr)
    for c in pos + neg:
        for n in ast.walk(c):
            if isinstance(n, ast.Compare):
                terms = [n.left] + list(n.comparators)
                if any(isinstance(ev(t), int) and not isinstance(ev(t), bool) for t in terms):
                    for t in terms:
                        if isinstance(t, ast.Name):
                            int_atoms[t.id] = ('name', t.id)
                        elif isinstance(t, ast.Attribute) and isinstance(t.value, ast.Name) and ev(t) is NOVAL:
                            int_atoms[ast.unparse(t)] = ('attr', t.value.id, t.attr)
    const_roots = {n.value.id for c in pos + neg for n in ast.walk(c)
                   if isinstance(n, ast.Attribute) and isinstance(n.value, ast.Name) and ev(n) is not NOVAL}
    for c in pos + neg:
        for n in ast.walk(c):
            if isinstance(n, ast.Name) and n.id in const_roots:
                continue
            if isinstance(n, ast.Name) and n.id not in int_atoms and not any(a[0] == 'attr' and a[1] == n.id for a in int_atoms.values()):
                vals = defs.get(n.id, [])
                if vals and any((isinstance(v, ast.Constant) and isinstance(v.value, bool)) or isinstance(v, ast.Compare) for v in vals) \
                        and not any(isinstance(v, ast.Constant) and not isinstance(v.value, bool) for v in vals):
                    flags.add(n.id)
                elif ev(n) is NOVAL:
                    return None          # depends on something that is neither the hour nor a boolean flag
            elif isinstance(n, ast.Call):
                return None
            elif isinstance(n, ast.Attribute) and ev(n) is NOVAL and ast.unparse(n) not in int_atoms:
                return None
    if len(int_atoms) != 1:
        return None
    (hkey, hatom), = int_atoms.items()
    if hatom[0] == 'name' and hatom[1] not in ints:
        return None
    flags = sorted(flags)
    # flags that say "am/pm (or a fixed part of the day) was stated": set True in a branch that shifts the hour by 12 or pins it
    relevant = set()
    if hatom[0] == 'name':
        h = hatom[1]
        for body in _branch_bodies(fn):
            adjusts = False
            trues = set()
            for st in body:
                for n in ast.walk(st):
                    if isinstance(n, ast.AugAssign) and isinstance(n.target, ast.Name) and n.target.id == h and ev(n.value) == 12:
                        adjusts = True
                    if isinstance(n, ast.Assign) and len(n.targets) == 1 and isinstance(n.targets[0], ast.Name):
                        if n.targets[0].id == h and isinstance(ev(n.value), int) and not isinstance(ev(n.value), bool):
                            adjusts = True
                        if isinstance(n.value, ast.Constant) and n.value.value is True:
                            trues.add(n.targets[0].id)
            if adjusts:
                relevant |= trues
    all_flags = sorted(set(flags) | relevant)
    sets = {}
    for combo in itertools.product((False, True), repeat=len(all_flags)):
        hours = []
        for hour in range(0, 25):
            env = dict(zip(all_flags, combo))
            if hatom[0] == 'name':
                env[hatom[1]] = hour
            else:
                o = Obj()
                o.attrs[hatom[2]] = hour
                env[hatom[1]] = o
            it = Interp(idx)
            try:
                vals = [it.eval(c, env, (mod, cls, fn)) for c in pos] + [it.eval(c, env, (mod, cls, fn)) for c in neg]
            except (Unreadable, PyRaise):
                return None
            if any(isinstance(v, Opaque) for v in vals):
                return None
            if all(vals[:len(pos)]) and not any(vals[len(pos):]):
                hours.append(hour)
        sets[combo] = hours
    want = list(range(1, 13))
    problems = []
    for combo, hours in sorted(sets.items()):
        stated = [f for f, v in zip(all_flags, combo) if v and f in relevant]
        if stated and hours:
            problems.append('the comment is set although %s is true (hours %s)' % ('/'.join(stated), _ranges(hours)))
        elif hours and hours != want:
            extra = sorted(set(hours) - set(want))
            missing = sorted(set(want) - set(hours))
            problems.append('the comment is set for hour(s) %s%s' % (
                _ranges(hours), '; not ambiguous: %s' % extra if extra else '') + ('; missing %s' % missing if missing else ''))
    if not any(h == want for h in sets.values()) and not problems:
        problems.append('no flag assignment sets the comment for exactly the hours 1..12')
    nset = sum(1 for h in sets.values() if h)
    detail = 'comment set for hours %s under %d of %d flag assignment(s); %d stated-am/pm flag(s) must be false' % (
        sorted({_ranges(h) for h in sets.values() if h}) or 'none', nset, len(sets), len(relevant))
    return sorted(set(problems)), detail


def _ranges(hours):
    if not hours:
        return '-'
    out, start, prev = [], hours[0], hours[0]
    for h in hours[1:] + [None]:
        if h is None or h != prev + 1:
            out.append('%d..%d' % (start, prev) if start != prev else '%d' % start)
            start = h
        prev = h
    return ','.join(out)


TABLE_CONTROL = """
def match_to_time(self, m):
    hour = 0
    has_am = False
    has_pm = False
    if pm:
        if hour < 12:
            hour += 12
        has_pm = True
    if hour <= 12 and not (has_am or has_pm):
        result.comment = 'ampm'
"""


def rule_ampm_table(chk, idx):
    rid = 'C07.ampm-table'
    chk.rule(rid, 'time parsers: tabulated over hour 0..24 x flags, the AM/PM comment is set exactly for hours 1..12 and never '
                  'when am/pm or a fixed part of the day was stated', floor=2, control=True)
    cfn = ast.parse(TABLE_CONTROL).body[0]
    cnode = [n for n in ast.walk(cfn) if isinstance(n, ast.Assign) and isinstance(n.targets[0], ast.Attribute)][0]
    cmod = idx.mod(PKG + '.base_time')
    ctl = ampm_table(cfn, cnode, make_evalc(idx, cmod), idx, cmod, None)
    chk.control(rid, bool(ctl and ctl[0]))
    anchored = False
    for mod, cls, fn, node, kind, ev in ampm_writers(idx):
        if kind != 'const' or cls is None:
            continue
        if parser_type_of(idx, cls, lambda k: make_evalc(idx, k.mod, k)) != 'time':
            continue
        res = ampm_table(fn, node, ev, idx, mod, cls)
        construct = '%s.%s' % (cls.name, fn.name)
        if res is None:
            chk.observe('%s:%d %s: AM/PM comment guard is not a function of one hour and boolean flags; not tabulated'
                        % (rel(mod.path), node.lineno, construct))
            continue
        problems, detail = res
        if cls.name == 'BaseTimeParser' and fn.name == 'match_to_time':
            anchored = True
        chk.judge(not problems, rid, mod.path, construct, detail, '; '.join(problems) +
                  ' - only an hour 1..12 written without am/pm has two readings twelve hours apart', node.lineno)
        chk.consulted(mod.path)
    if not anchored:
        raise AnalysisError('BaseTimeParser.match_to_time: the AM/PM comment guard could not be tabulated')


# ---------------------------------------------------------------------------------------------------
# rule 9: the block that splits an am/pm-ambiguous result into <slot>am / <slot>pm, interpreted

SPLIT_SHAPES = {
    'time': {'value': '03:00:00'},
    'datetime': {'value': '2016-11-07 03:00:00'},
    'timerange': {'start': '03:00:00', 'end': '05:00:00'},
    'datetimerange': {'start': '2016-11-07 03:00:00', 'end': '2016-11-07 05:00:00'},
}
SPLIT_SLOTS = (('resolve',), ('resolveToPast', 'resolveToFuture'))


def ampm_split_block(fn, ev):
    """the `if <comment> == 'ampm': ...` statement of _date_time_resolution, and the names of comment / result"""
    for st in fn.body:
        if isinstance(st, ast.If) and isinstance(st.test, ast.Compare) and len(st.test.ops) == 1 \
                and isinstance(st.test.ops[0], ast.Eq):
            a_, b_ = st.test.left, st.test.comparators[0]
            for x, y in ((a_, b_), (b_, a_)):
                if isinstance(x, ast.Name) and ev(y) == 'ampm':
                    calls = [c for c in ast.walk(st) if isinstance(c, ast.Call) and isinstance(c.func, ast.Attribute)
                             and c.func.attr == '_resolve_ampm' and c.args and isinstance(c.args[0], ast.Name)]
                    if calls:
                        return st, x.id, calls[0].args[0].id
    return None, None, None


def rule_ampm_split(chk, idx):
    from .c09 import Interp, SelfRef, Unreadable, PyRaise
    rid = 'C07.ampm-split'
    chk.rule(rid, 'the am/pm splitting block of _date_time_resolution, interpreted with _resolve_ampm read from its source: every '
                  'resolution slot present (resolve, or resolveToPast and resolveToFuture) comes out as <slot>am and <slot>pm', floor=2)
    base = idx.cls(PKG + '.base_merged.BaseMergedParser')
    done = set()
    for c in [base] + idx.subclasses(base):
        k, fn = idx.find_method(c, '_date_time_resolution')
        if fn is None:
            raise AnalysisError('anchor vanished: %s._date_time_resolution' % c.name)
        if k in done:
            continue
        done.add(k)
        ev = make_evalc(idx, k.mod, k)
        st, cvar, rvar = ampm_split_block(fn, ev)
        if st is None:
            raise AnalysisError('%s._date_time_resolution: the `if comment == "ampm"` block that calls _resolve_ampm was not found' % k.name)
        chk.consulted(k.mod.path)
        problems, n = [], 0
        for slots in SPLIT_SLOTS:
            for tname, shape in sorted(SPLIT_SHAPES.items()):
                for comment in ('ampm', ''):
                    n += 1
                    result = {'timex': 'T03', 'type': tname}
                    for sl in slots:
                        result[sl] = dict(shape)
                    it = Interp(idx, hooks=[(lambda call: isinstance(call.func, ast.Attribute) and call.func.attr in ('to_pm', 'all_str_to_pm'),
                                             'PM')])
                    env = {cvar: comment, rvar: result, 'self': SelfRef(c)}
                    try:
                        it.stmt(st, env, (k.mod, k, fn))
                    except Unreadable as e:
                        raise AnalysisError('%s._date_time_resolution: the am/pm splitting block cannot be interpreted: %s' % (k.name, e))
                    except PyRaise as e:
                        problems.append('slots %s, type %s: raises %s' % ('+'.join(slots), tname, e))
                        continue
                    got = sorted(x for x in result if x.startswith('resolve'))
                    want = sorted(sl + sfx for sl in slots for sfx in ('am', 'pm')) if comment else sorted(slots)
                    if got != want:
                        problems.append('with slot(s) %s present (type %s, comment %r) the result has %s, expected %s'
                                        % ('+'.join(slots), tname, comment, got, want))
        chk.judge(not problems, rid, k.mod.path, '%s._date_time_resolution[am/pm split]' % k.name,
                  '%d result shapes interpreted; wrong: %s' % (n, '; '.join(problems[:2]) if problems else 'none'),
                  'an am/pm-ambiguous result is not split completely: %s%s' % ('; '.join(problems[:3]),
                                                                                 ' ... (%d cases)' % len(problems) if len(problems) > 3 else ''),
                  st.lineno)


# ---------------------------------------------------------------------------------------------------
# rule 10: the hour produced under an am / pm marker, tabulated

def marker_chain(fn, ev):
    """the if/elif chain in which one branch shifts an int variable by -12 (am) and another by +12 (pm)
    -> (top If node, var, [(If node of the branch, 'am'|'pm')]) or None"""
    def shifts(body):
        out = {}
        for st in body:
            for n in ast.walk(st):
                var, sign = None, 0
                if isinstance(n, ast.AugAssign) and isinstance(n.target, ast.Name) and ev(n.value) == 12 \
                        and isinstance(n.op, (ast.Add, ast.Sub)):
                    var, sign = n.target.id, (1 if isinstance(n.op, ast.Add) else -1)
                elif isinstance(n, ast.Assign) and len(n.targets) == 1 and isinstance(n.targets[0], ast.Name) \
                        and isinstance(n.value, ast.BinOp) and isinstance(n.value.op, (ast.Add, ast.Sub, ast.Mod)):
                    if any(isinstance(x, ast.Name) and x.id == n.targets[0].id for x in ast.walk(n.value)) and \
                            any(ev(x) == 12 for x in ast.walk(n.value) if isinstance(x, (ast.Constant, ast.Attribute))):
                        var = n.targets[0].id
                        sign = -1 if isinstance(n.value.op, ast.Sub) else 1
                if var:
                    out.setdefault(var, set()).add(sign)
        return out

    for top in own_walk(fn):
        if not isinstance(top, ast.If):
            continue
        chain, cur = [], top
        while True:
            chain.append(cur)
            if len(cur.orelse) == 1 and isinstance(cur.orelse[0], ast.If):
                cur = cur.orelse[0]
            else:
                break
        if len(chain) < 2:
            continue
        per = [shifts(b.body) for b in chain]
        vars_ = set().union(*[set(p) for p in per]) if per else set()
        for v in vars_:
            roles = []
            for b, p in zip(chain, per):
                sg = p.get(v, set())
                if sg == {-1}:
                    roles.append((b, 'am'))
                elif sg == {1}:
                    roles.append((b, 'pm'))
            if {r for _, r in roles} == {'am', 'pm'} and len(roles) == 2:
                return top, v, roles
    return None


def hour_table(idx, mod, cls, fn, ev):
    """-> (problems, nprobes) for the function's am/pm marker chain, or None when it has none"""
    from .c09 import Interp, Unreadable, PyRaise
    mc = marker_chain(fn, ev)
    if mc is None:
        return None
    top, var, roles = mc
    par = parents_of(fn)
    block = None
    for fld in ('body', 'orelse', 'finalbody'):
        b = getattr(par.get(top), fld, None)
        if isinstance(b, list) and any(x is top for x in b):
            block = b
    if block is None:
        raise AnalysisError('%s.%s: cannot locate the block of the am/pm marker chain' % (cls.name, fn.name))
    start = [i for i, x in enumerate(block) if x is top][0]
    later = [st for st in block[start + 1:]
             if any(isinstance(n, (ast.Assign, ast.AugAssign)) and any(isinstance(t, ast.Name) and t.id == var for t in
                    (n.targets if isinstance(n, ast.Assign) else [n.target])) for n in ast.walk(st))]
    chain_nodes = {id(b) for b, _ in roles}
    every = set()
    cur = top
    while True:
        every.add(id(cur))
        if len(cur.orelse) == 1 and isinstance(cur.orelse[0], ast.If):
            cur = cur.orelse[0]
        else:
            break
    problems, n = [], 0
    for scenario in ('am', 'pm', 'none'):
        forced = [id(b) for b, r in roles if r == scenario]
        hours = range(1, 13) if scenario != 'none' else range(0, 25)
        for h in hours:
            for inner in (True, False):         # conditions inside the taken branch that depend on unmodelled values: both ways
                n += 1

                def oracle(ifnode, expr, forced=forced, inner=inner):
                    if id(ifnode) in every:
                        return id(ifnode) in forced
                    if any(isinstance(a_, ast.If) and id(a_) in forced for a_ in _anc(ifnode, par)):
                        return inner
                    return False
                it = Interp(idx, oracle=oracle)
                env = {var: h}
                try:
                    it.block([top] + later, env, (mod, cls, fn))
                except Unreadable as e:
                    raise AnalysisError('%s.%s: the am/pm marker chain cannot be interpreted: %s' % (cls.name, fn.name, e))
                except PyRaise as e:
                    problems.append('%s marker, hour %d: raises %s' % (scenario, h, e))
                    continue
                got = env.get(var)
                if scenario == 'am':
                    want = 0 if h == 12 else h
                elif scenario == 'pm':
                    want = 12 if h == 12 else h + 12
                else:
                    want = h
                    if h == 24 and got == 0:
                        want = 0            # the code's own 24 -> 0 wrap
                if got != want:
                    problems.append('%s: hour %d -> %r, expected %d' % ({'am': 'am marker', 'pm': 'pm marker', 'none': 'no marker'}[scenario],
                                                                          h, got, want))
    return sorted(set(problems), key=lambda x: (x.split(':')[0], len(x), x)), n


HOUR_CONTROL = """
def match_to_time(self, match):
    hour = int(g)
    if am(desc):
        if hour >= 12:
            hour -= 12
        has_am = True
    elif pm(desc):
        if hour <= 12:
            hour += 12
        has_pm = True
    if hour == 24:
        hour = 0
"""


def rule_hour_table(chk, idx):
    rid = 'C07.hour-table'
    chk.rule(rid, 'the hour produced under an am / pm marker, tabulated: am 12 -> 0 and 1..11 unchanged; pm 1..11 -> +12 and '
                  '12 -> 12; no marker: unchanged (24 -> 0 where the code wraps)', floor=2, control=True)
    cmod = idx.mod(PKG + '.base_time')
    ctl = hour_table(idx, cmod, idx.cls(PKG + '.base_time.BaseTimeParser'), ast.parse(HOUR_CONTROL).body[0], make_evalc(idx, cmod))
    chk.control(rid, bool(ctl and ctl[0]))
    anchored = False
    for c in sorted(idx.all_classes(), key=lambda k: k.qual):
        if not (c.mod.name == PKG or c.mod.name.startswith(PKG + '.')):
            continue
        if parser_type_of(idx, c, lambda k: make_evalc(idx, k.mod, k)) not in ('time', 'datetime'):
            continue
        for name, fn in sorted(c.methods.items()):
            if '#' in name:
                continue
            res = hour_table(idx, c.mod, c, fn, make_evalc(idx, c.mod, c))
            if res is None:
                continue
            problems, n = res
            if c.name == 'BaseTimeParser' and name == 'match_to_time':
                anchored = True
            chk.consulted(c.mod.path)
            chk.judge(not problems, rid, c.mod.path, '%s.%s' % (c.name, name),
                      '%d probes (marker am/pm/none x hour); wrong: %s' % (n, '; '.join(problems[:3]) if problems else 'none'),
                      'the hour conversion under an am/pm marker is wrong: %s' % '; '.join(problems[:4]), fn.lineno)
    if not anchored:
        raise AnalysisError('BaseTimeParser.match_to_time: the am/pm marker chain (one branch -12, one branch +12) was not found')


# ---------------------------------------------------------------------------------------------------
# rule 11: "<date> at <time>" composed, tabulated: value fields and TIMEX / value agreement

COMPOSE_TIMES = ((8, 0, 0, 'T08', 'ampm'), (7, 30, 15, 'T07:30:15', 'ampm'), (19, 0, 0, 'T19', ''), (12, 0, 0, 'T12', 'ampm'),
                 (0, 30, 0, 'T00:30', ''))


def compose_table(idx, mod, cls, fn, ev):
    """interpret the part of a date+time composing function that follows the two sub-parser calls, with a date value that
    carries a time of day.  -> None when the function does not compose a date result with a time result, else a list of
    cases {scenario, time, want_hour, timex, future, past, date_future, date_past}"""
    import datetime as dt
    from .c09 import Interp, Obj, Unreadable, PyRaise, _Return
    subs = sub_results(fn)
    if 'time' not in subs or 'date' not in subs:
        return None
    if not any(isinstance(n, ast.Assign) and any(isinstance(t, ast.Attribute) and t.attr == 'future_value' for t in n.targets)
               for n in own_walk(fn)):
        return None
    names = subs['time'] | subs['date']
    par = parents_of(fn)
    last = None
    for n in own_walk(fn):
        if isinstance(n, (ast.Assign, ast.AnnAssign)):
            tg = n.targets if isinstance(n, ast.Assign) else [n.target]
            flat = [x for t in tg for x in (t.elts if isinstance(t, (ast.Tuple, ast.List)) else [t])]
            if any(isinstance(x, ast.Name) and x.id in names for x in flat):
                if last is None or n.lineno > last.lineno:
                    last = n
    block = None
    for fld in ('body', 'orelse', 'finalbody'):
        b = getattr(par.get(last), fld, None)
        if isinstance(b, list) and any(x is last for x in b):
            block = b
    if block is None:
        return None
    rest = block[[i for i, x in enumerate(block) if x is last][0] + 1:]
    mc = marker_chain(fn, ev)
    every, roles = set(), []
    if mc is not None:
        cur = mc[0]
        roles = mc[2]
        while True:
            every.add(id(cur))
            if len(cur.orelse) == 1 and isinstance(cur.orelse[0], ast.If):
                cur = cur.orelse[0]
            else:
                break
    d_future, d_past = dt.datetime(2019, 6, 17, 10, 30, 45), dt.datetime(2019, 6, 10, 10, 30, 45)
    cases = []
    for scenario in (('none', 'pm', 'am') if mc is not None else ('none',)):
        forced = [id(b) for b, r in roles if r == scenario]
        for (h, mi, sec, ttimex, comment) in COMPOSE_TIMES:
            def oracle(ifnode, expr, forced=forced):
                if id(ifnode) in every:
                    return id(ifnode) in forced
                return False
            env = {}
            injected = set()
            for nm in subs['date']:
                o, v = Obj(), Obj()
                v.attrs.update(future_value=d_future, past_value=d_past, comment='', timex='XXXX-WXX-1', success=True)
                o.attrs.update(value=v, timex_str='XXXX-WXX-1')
                env[nm] = o
                injected |= {id(o), id(v)}
            for nm in subs['time']:
                o, v = Obj(), Obj()
                tv = dt.datetime(2019, 6, 12, h, mi, sec)
                v.attrs.update(future_value=tv, past_value=tv, comment=comment, timex=ttimex, success=True)
                o.attrs.update(value=v, timex_str=ttimex)
                env[nm] = o
                injected |= {id(o), id(v)}
            it = Interp(idx, oracle=oracle)
            out = None
            try:
                try:
                    it.block(rest, env, (mod, cls, fn))
                except _Return as r:
                    out = r.value
            except Unreadable as e:
                raise AnalysisError('%s.%s: the date+time composition cannot be interpreted: %s' % (cls.name, fn.name, e))
            except PyRaise as e:
                cases.append({'scenario': scenario, 'time': ttimex, 'raises': str(e)})
                continue
            objs = [out] if isinstance(out, Obj) and id(out) not in injected else \
                [v for k, v in env.items() if isinstance(v, Obj) and id(v) not in injected]
            objs = [o for o in objs if 'future_value' in o.attrs and 'timex' in o.attrs]
            if len(objs) != 1:
                raise AnalysisError('%s.%s: composed result (timex / future_value) not produced' % (cls.name, fn.name))
            if scenario == 'pm':
                want = h + 12 if h < 12 else h
            elif scenario == 'am':
                want = h - 12 if h >= 12 else h
            else:
                want = h
            cases.append({'scenario': scenario, 'time': ttimex, 'want_hour': want, 'minute': mi, 'second': sec,
                          'timex': objs[0].attrs.get('timex'), 'future': objs[0].attrs.get('future_value'),
                          'past': objs[0].attrs.get('past_value'), 'date_future': d_future, 'date_past': d_past})
    return cases


def timex_time_part(timex):
    """(hour, rest) of the last T-part of a TIMEX string, or None"""
    m = re.search(r'T(\d{1,2})((?::\d{1,2})*)$', timex) if isinstance(timex, str) else None
    return (int(m.group(1)), m.group(2)) if m else None


def composing_functions(idx):
    for c in sorted(idx.all_classes(), key=lambda k: k.qual):
        if not (c.mod.name == PKG or c.mod.name.startswith(PKG + '.')):
            continue
        if parser_type_of(idx, c, lambda k: make_evalc(idx, k.mod, k)) not in ('datetime', 'datetimerange'):
            continue
        for name, fn in sorted(c.methods.items()):
            if '#' not in name:
                yield c, name, fn


def rule_compose_value(chk, idx):
    import datetime as dt
    rid = 'C07.compose-value'
    chk.rule(rid, 'the value composed from a date result and a time result, tabulated with a date value that carries a time of day: '
                  'year/month/day come from the date value, hour (after the day-part shift) / minute / second from the time', floor=2)
    n = 0
    for c, name, fn in composing_functions(idx):
        cases = compose_table(idx, c.mod, c, fn, make_evalc(idx, c.mod, c))
        if cases is None:
            continue
        n += 1
        chk.consulted(c.mod.path)
        bad = []
        for k in cases:
            if 'raises' in k:
                bad.append('%s marker, time %s: raises %s' % (k['scenario'], k['time'], k['raises']))
                continue
            for which in ('future', 'past'):
                d = k['date_' + which]
                want = dt.datetime(d.year, d.month, d.day, k['want_hour'], k['minute'], k['second'])
                got = k[which]
                if got != want:
                    bad.append('%s marker, date value %s + time %s -> %s_value %s, expected %s'
                               % (k['scenario'], d.strftime('%Y-%m-%d %H:%M:%S'), k['time'], which, got, want))
        chk.judge(not bad, rid, c.mod.path, '%s.%s' % (c.name, name), '%d compositions interpreted; wrong: %s'
                  % (len(cases), '; '.join(bad[:2]) if bad else 'none'),
                  'the composed value is not <date of the date value> + <time>: %s%s' % ('; '.join(bad[:3]),
                                                                                          ' ... (%d cases)' % len(bad) if len(bad) > 3 else ''),
                  fn.lineno)
    if n < 2:
        raise AnalysisError('only %d date+time composing functions could be tabulated' % n)


# ---------------------------------------------------------------------------------------------------
# rule 12: tokens of the time / date-time extractors take their offsets from the match, not from a text search

# sites of the `text.index(match.group())` idiom that exist today, confirmed by reading (frozen; keyed by function and statement)
TOKEN_OFFSET_EXEMPT = {
    ('BaseTimeExtractor.before_after_regex_match',
     'result.append(Token(source.index(match.group()), source.index(match.group()) + (match.end() - match.start())))'):
        'only reached under DateTimeOptions.CALENDAR (the property is stated for default options); the loop iterates a single '
        'Match object returned by Pattern.match, i.e. the branch does not produce tokens at all',
    ('BaseDateTimeExtractor.merge_date_and_time', 'node.start = source.index(match.group())'):
        'only reached under DateTimeOptions.CALENDAR (numbers used as time points in calendar mode); not a default-option path',
}


def _is_text_search_of_match(e):
    """<text>.index(<m>.group(..)) / .find(<m>.group(..)) / .index(<m>.value)"""
    if isinstance(e, ast.Call) and isinstance(e.func, ast.Attribute) and e.func.attr in ('index', 'find', 'rfind', 'rindex') and e.args:
        a_ = e.args[0]
        if isinstance(a_, ast.Call) and isinstance(a_.func, ast.Attribute) and a_.func.attr in ('group', 'get_group'):
            return True
        if isinstance(a_, ast.Attribute) and a_.attr == 'value':
            return True
    return False


def _is_match_offset(e):
    return isinstance(e, ast.Call) and isinstance(e.func, ast.Attribute) and e.func.attr in ('start', 'end', 'span') \
        and len(e.args) <= 1


def token_offset_sites(fn):
    """[(statement, kind)] kind = 'search' | 'match' for Token(...) constructions and <x>.start assignments of fn"""
    defs = local_defs(fn)
    single = {k: v[0] for k, v in defs.items() if len(v) == 1}

    def classify(expr, depth=0):
        kinds = set()
        for n in ast.walk(expr):
            if _is_text_search_of_match(n):
                kinds.add('search')
            elif _is_match_offset(n):
                kinds.add('match')
            elif isinstance(n, ast.Name) and n.id in single and depth < 3:
                kinds |= classify(single[n.id], depth + 1)
        return kinds

    par = parents_of(fn)
    out = []
    for n in ast.walk(fn):
        expr = None
        if isinstance(n, ast.Call) and isinstance(n.func, ast.Name) and n.func.id == 'Token':
            expr = n
        elif isinstance(n, ast.Assign) and any(isinstance(t, ast.Attribute) and t.attr == 'start' for t in n.targets):
            expr = n.value
        if expr is None:
            continue
        kinds = classify(expr)
        if not kinds:
            continue
        st = n
        while st in par and not isinstance(st, ast.stmt):
            st = par[st]
        out.append((st, 'search' if 'search' in kinds else 'match'))
    return out


def _option_gated(fn, st, par):
    cur = st
    while cur in par and cur is not fn:
        p_ = par[cur]
        if isinstance(p_, ast.If) and any(cur is x for x in p_.body):
            for t in ast.walk(p_.test):
                if isinstance(t, ast.Attribute) and isinstance(t.value, ast.Name) and t.value.id == 'DateTimeOptions' and t.attr != 'NONE':
                    return True
        cur = p_
    return False


OFFSET_CONTROL = """
def match_to_token(source, match):
    start = source.index(match.group())
    return Token(start, start + (match.end() - match.start()))
"""


def rule_token_offsets(chk, idx):
    rid = 'C07.token-offsets'
    chk.rule(rid, 'time / date-time extractors: a token built from a regex match takes its offsets from match.start() / end(), not '
                  'from a text search of the matched string (the first occurrence may be elsewhere)', floor=4, control=True)
    ctl = token_offset_sites(ast.parse(OFFSET_CONTROL).body[0])
    chk.control(rid, [k for _, k in ctl] == ['search'])

    def ext_type(c):
        k, f = idx.find_method(c, 'extractor_type_name')
        if f is None:
            return None
        rets = [n for n in ast.walk(f) if isinstance(n, ast.Return) and n.value is not None]
        v = make_evalc(idx, k.mod, k)(rets[0].value) if len(rets) == 1 else NOVAL
        return v if isinstance(v, str) else None

    used = set()
    n = 0
    for c in sorted(idx.all_classes(), key=lambda k: k.qual):
        if not (c.mod.name == PKG or c.mod.name.startswith(PKG + '.')) or ext_type(c) not in ('time', 'datetime'):
            continue
        for name, fn in sorted(c.methods.items()):
            if '#' in name:
                continue
            par = parents_of(fn)
            counts = {}
            for st, kind in token_offset_sites(fn):
                n += 1
                construct = '%s.%s' % (c.name, name)
                text = ' '.join(ast.unparse(st).split())
                detail = 'token offsets from %s' % ('the match' if kind == 'match' else 'a text search of the matched string')
                counts[detail] = counts.get(detail, 0) + 1
                if counts[detail] > 1:
                    detail += ' (#%d)' % counts[detail]
                chk.consulted(c.mod.path)
                if kind == 'match':
                    chk.ok(rid, c.mod.path, construct, detail, st.lineno)
                    continue
                key = (construct, text)
                if key in TOKEN_OFFSET_EXEMPT and _option_gated(fn, st, par):
                    used.add(key)
                    chk.exempt(rid, c.mod.path, construct, TOKEN_OFFSET_EXEMPT[key], detail, st.lineno)
                else:
                    chk.bad(rid, c.mod.path, construct, detail,
                            '`%s` places the token at the first occurrence of the matched text in the source, not at the match: '
                            'when the same text occurs earlier (\'7/15 at 7\') the token lands there and is dropped as overlapping'
                            % text[:110], st.lineno)
    stale = sorted(set(TOKEN_OFFSET_EXEMPT) - used)
    for k in stale:
        chk.observe('C07.token-offsets: exempted site no longer present (or no longer option-gated): %s :: %s' % k)
    if n < 4:
        raise AnalysisError('only %d token constructions found in the time / date-time extractors' % n)


# ---------------------------------------------------------------------------------------------------
# rule 13: the worded am / pm suffix ("in the morning", "in the afternoon"): adjust_by_suffix of every culture, tabulated

SUFFIX_TEXT, AM_TEXT, PM_TEXT = 'suffix words', 'am words', 'pm words'


def suffix_table(idx, mod, cls, fn, attr_names):
    """interpret adjust_by_suffix(self, suffix, AdjustParams(hour)) of one configuration class with sa/ointerp.py.
    The suffix pattern is a stub that matches the whole suffix with the 'am' / 'pm' group of the scenario captured; every other
    pattern searched on the captured group text (lunch / night words) is matched or not, every combination.
    -> (problems, notes, nprobes)"""
    import itertools
    from ..ointerp import FuncRef, Interp, Native, Obj, PyExc, native
    ap = idx.cls(PKG + '.base_time.AdjustParams')

    def run_one(scenario, hour, on):
        """scenario: 'am' | 'pm' | 'other' (matched, neither group captured) | 'nomatch'; on: labels of secondary patterns that match"""
        seen = []
        groups = {'am': AM_TEXT if scenario == 'am' else None, 'pm': PM_TEXT if scenario == 'pm' else None}

        def group(it, a, k):
            if not a or a[0] == 0:
                return SUFFIX_TEXT
            if len(a) != 1 or not isinstance(a[0], str):
                raise AnalysisError('%s.%s: match.group%r of the suffix match is not modelled' % (cls.name, fn.name, tuple(a)))
            return groups.get(a[0])
        primary = Native({'start': native(lambda it, a, k: 0), 'end': native(lambda it, a, k: len(SUFFIX_TEXT)),
                          'group': native(group), 'success': True, 'length': len(SUFFIX_TEXT), 'index': 0, 'value': SUFFIX_TEXT,
                          'groupdict': native(lambda it, a, k: {g: (g, v) for g, v in groups.items()})}, 'match of the suffix')
        secondary = Native({'start': native(lambda it, a, k: 0), 'group': native(lambda it, a, k: 'word'), 'success': True},
                           'match inside the am/pm words')

        def search(label, text, anchored):
            if not isinstance(text, str):
                raise AnalysisError('%s.%s: a pattern is searched in %r, not in text' % (cls.name, fn.name, text))
            if text == SUFFIX_TEXT:
                return primary if scenario != 'nomatch' else None
            if text in (AM_TEXT, PM_TEXT):
                if label not in seen:
                    seen.append(label)
                return secondary if label in on else None
            raise AnalysisError('%s.%s: a pattern is searched in a text the tabulation does not model (%r)' % (cls.name, fn.name, text))
        pats = {}

        def pattern(label):
            if label not in pats:
                pats[label] = Native({'search': native(lambda it, a, k, label=label: search(label, a[0], False)),
                                      'match': native(lambda it, a, k, label=label: search(label, a[0], True)),
                                      'fullmatch': native(lambda it, a, k, label=label: search(label, a[0], True))}, 'pattern ' + label)
            return pats[label]

        def modsearch(it, a, k):
            if len(a) < 2 or not isinstance(a[0], Native) or not a[0].label.startswith('pattern '):
                raise AnalysisError('%s.%s: regex search with a pattern that is not an attribute of the configuration (%r)'
                                    % (cls.name, fn.name, a[:1]))
            return search(a[0].label[len('pattern '):], a[1], False)
        it = Interp(idx, hooks={'regex.search': modsearch, 'regex.match': modsearch, 'regex.fullmatch': modsearch},
                    where='%s.%s' % (cls.name, fn.name), budget=20000)
        selfo = Obj(cls, {a: pattern(a) for a in attr_names})
        adj = it.instantiate(ap, [hour, 0, False, False, False], {}, fn)
        it.call_function(FuncRef(mod, fn, cls), ['  ' + SUFFIX_TEXT.upper() + ' ', adj], {}, fn, selfobj=selfo)
        out = adj.attrs
        for f_ in ('hour', 'minute', 'has_am', 'has_pm'):
            if f_ not in out:
                raise AnalysisError('AdjustParams has no field %s after %s.%s' % (f_, cls.name, fn.name))
        if not isinstance(out['hour'], int) or isinstance(out['hour'], bool):
            raise AnalysisError('%s.%s leaves a non-integer hour %r' % (cls.name, fn.name, out['hour']))
        return out, seen

    problems, notes, n = [], [], 0
    for scenario in ('am', 'pm', 'other', 'nomatch'):
        hours = range(1, 13) if scenario in ('am', 'pm') else range(0, 24)
        labels = []
        if scenario in ('am', 'pm'):
            # which other patterns are consulted on the captured words: fixpoint over what the runs ask for
            for _round in range(4):
                before = list(labels)
                for h in hours:
                    for r in range(len(before) + 1):
                        for on in itertools.combinations(before, r):
                            try:
                                _o, seen = run_one(scenario, h, set(on))
                            except PyExc:
                                continue
                            for s_ in seen:
                                if s_ not in labels:
                                    labels.append(s_)
                if labels == before:
                    break
            if len(labels) > 4:
                raise AnalysisError('%s.%s consults %d patterns on the am/pm words; the tabulation handles at most 4'
                                    % (cls.name, fn.name, len(labels)))
        for h in hours:
            for r in range(len(labels) + 1):
                for on in itertools.combinations(labels, r):
                    n += 1
                    what = {'am': 'am words', 'pm': 'pm words', 'other': 'suffix without am/pm words', 'nomatch': 'suffix not matched'}[scenario]
                    if on:
                        what += ' (+ ' + ', '.join(on) + ' matches)'
                    try:
                        out, _seen = run_one(scenario, h, set(on))
                    except PyExc as e:
                        problems.append('%s, hour %d: raises %s' % (what, h, e))
                        continue
                    got, marked = out['hour'], bool(out['has_am']) or bool(out['has_pm'])
                    if out['minute'] != 0:
                        problems.append('%s, hour %d: minute becomes %r' % (what, h, out['minute']))
                    if scenario in ('other', 'nomatch'):
                        if got != h:
                            problems.append('%s: hour %d -> %r, expected %d' % (what, h, got, h))
                        continue
                    if not on:
                        want = (0 if h == 12 else h) if scenario == 'am' else (12 if h == 12 else h + 12)
                        if got != want:
                            problems.append('%s: hour %d -> %r, expected %d' % (what, h, got, want))
                            continue
                    elif not (0 <= got <= 23 and got % 12 == h % 12):
                        problems.append('%s: hour %d -> %r, not the same hour of a half day' % (what, h, got))
                        continue
                    if 1 <= got <= 12 and not marked:
                        # the hour stays in 1..12 and neither has_am nor has_pm is set: match_to_time will mark it am/pm-ambiguous
                        problems.append('%s: hour %d -> %d with neither has_am nor has_pm set (two readings follow)' % (what, h, got))
    return sorted(set(problems), key=lambda x: (x.split(':')[0], len(x), x)), sorted(set(notes)), n


SUFFIX_CONTROL = """
def adjust_by_suffix(self, suffix, adjust):
    suffix = suffix.strip().lower()
    delta_hour = 0
    match = regex.search(self.time_suffix, suffix)
    if match is not None and match.start() == 0 and match.group() == suffix:
        if RegExpUtility.get_group(match, 'am'):
            if adjust.hour > 12:
                delta_hour = -12
            else:
                adjust.has_am = True
        if RegExpUtility.get_group(match, 'pm'):
            if adjust.hour < 12:
                delta_hour = 12
            adjust.has_pm = True
    adjust.hour = (adjust.hour + delta_hour) % 24
"""


def _init_attr_names(idx, cls):
    """names assigned as self.<name> in the __init__ methods along the MRO (the compiled patterns of a configuration)"""
    names = set()
    for k in idx.mro(cls):
        init = k.methods.get('__init__')
        if init is None:
            continue
        for n in ast.walk(init):
            if isinstance(n, ast.Attribute) and isinstance(n.ctx, ast.Store) and isinstance(n.value, ast.Name) and n.value.id == 'self':
                names.add(n.attr)
    return names


def rule_suffix_table(chk, idx):
    rid = 'C07.suffix-table'
    chk.rule(rid, 'adjust_by_suffix of every culture, tabulated over hour x captured group: worded am ("in the morning") 12 -> 0 and '
                  '1..11 unchanged; worded pm 1..11 -> +12 and 12 -> 12; an hour left in 1..12 is marked has_am / has_pm; day-part words (lunch / night) keep the hour of the '
                  'half day; no am/pm words: unchanged', floor=5, control=True)
    base = idx.cls(PKG + '.base_time.TimeParserConfiguration')
    if 'adjust_by_suffix' not in base.methods:
        raise AnalysisError('TimeParserConfiguration.adjust_by_suffix: anchor vanished')
    btp = idx.cls(PKG + '.base_time.BaseTimeParser')
    mt = btp.methods.get('match_to_time')
    if mt is None or not any(isinstance(n, ast.Call) and isinstance(n.func, ast.Attribute) and n.func.attr == 'adjust_by_suffix'
                             for n in ast.walk(mt)):
        raise AnalysisError('BaseTimeParser.match_to_time no longer calls config.adjust_by_suffix: the rule has lost its anchor')
    cfn = ast.parse(SUFFIX_CONTROL).body[0]
    cp, _cn, _n = suffix_table(idx, base.mod, base, cfn, {'time_suffix'})
    chk.control(rid, any('hour 12 -> 12, expected 0' in p for p in cp))
    for c in sorted(idx.all_classes(), key=lambda k: k.qual):
        if not (c.mod.name == PKG or c.mod.name.startswith(PKG + '.')) or c is base:
            continue
        fn = c.methods.get('adjust_by_suffix')
        if fn is None or base not in idx.mro(c):
            continue
        body = [st for st in fn.body if not (isinstance(st, ast.Expr) and isinstance(st.value, ast.Constant))]
        if len(body) == 1 and isinstance(body[0], (ast.Raise, ast.Pass)):
            chk.exempt(rid, c.mod.path, '%s.adjust_by_suffix' % c.name, 'abstract / empty body')
            continue
        chk.consulted(c.mod.path)
        problems, notes, n = suffix_table(idx, c.mod, c, fn, _init_attr_names(idx, c))
        chk.judge(not problems, rid, c.mod.path, '%s.adjust_by_suffix' % c.name,
                  '%d probes (captured group x hour x day-part patterns); wrong: %s' % (n, '; '.join(problems[:3]) if problems else 'none'),
                  'the hour under a worded am/pm suffix is wrong: %s' % '; '.join(problems[:4]), fn.lineno)


# ---------------------------------------------------------------------------------------------------

def run(chk):
    chk.explanation = ('contradiction rule on the time decoders (an int decoded from an hour/minute/second group must not be '
                       'tested by truthiness where 0 aborts), writer/reader agreement of the AM/PM "two readings" wiring '
                       '(comment writers, _resolve_ampm branches, to_pm / all_str_to_pm), path-condition rule for the '
                       'comment (hour <= 12), and two-digit TIMEX time fields; all on ast normal forms of the date-time package')
    idx = get_index()
    rule_falsy(chk, idx)
    rule_ampm(chk, idx)
    rule_to_pm(chk, idx)
    rule_pad(chk, idx)
    rule_compose(chk, idx)
    rule_ampm_table(chk, idx)
    rule_ampm_split(chk, idx)
    rule_hour_table(chk, idx)
    rule_compose_value(chk, idx)
    rule_token_offsets(chk, idx)
    rule_suffix_table(chk, idx)
    chk.assume('RegExpUtility.get_group / get_group_list / Match.group return the text of the named group; group names '
               'hour/min/sec denote digit groups whose language contains 0 and 00 (the property quantifies over 00:00..23:59:59)')
    chk.assume('callee identity is by attribute name on DateTimeFormatUtil (to_pm, all_str_to_pm); no monkey patching')



# ---------------------------------------------------------------------------------------------------------------
# generic rules (lead): cross-cutting necessary conditions scoped to the modules this property is anchored in
# (sa/generic.py: filter predicates depend on their element; regex group names read by the code exist)

def _generic_rules(chk):
    import re as _re_
    from ..index import get_index as _gi
    from ..consteval import Resources as _Res
    from .. import generic as _g
    idx_ = _gi()
    scope = _re_.compile('^(base_)?(time|datetime)(_|$)(?!period)')
    flt = lambda name: bool(scope.search(name.rsplit('.', 1)[-1]))
    _g.rule_group_names(chk, idx_, _Res(idx_), 'C07.groups', 'recognizers_date_time', flt, floor=3)
    # offsets are not used as text and text is not used as an offset anywhere below the date-time model: an exception in any
    # extractor empties the result of the whole query, clock times included
    _g.rule_kind_contradictions(chk, idx_, 'C07.offset-kinds', 'recognizers_date_time', floor=300)


_run_before_generic = run


def run(chk):       # noqa: F811
    _run_before_generic(chk)
    _generic_rules(chk)
